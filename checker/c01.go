package main

import (
	"go/token"
	"go/types"
	"strings"

	"golang.org/x/tools/go/ssa"
)

const ks = "services/keepstore"

func init() {
	register("C01", []string{"./services/keepstore"}, runC01)
}

// ErrNilC: the fact "the error result of this call is nil".
func ErrNilC(call ssa.CallInstruction) CP {
	idx := ErrIndex(call.Common())
	v := call.Value()
	return EqC("error of "+CalleeName(call.Common())+" == nil", ResultVP(v, idx), NilV)
}

// rootFn returns the outermost enclosing function of a closure.
func rootFn(fn *ssa.Function) *ssa.Function {
	for fn.Parent() != nil && fn.Parent().Synthetic == "" {
		fn = fn.Parent()
	}
	return fn
}

func runC01(r *R) {
	w := r.W
	r.Explain = "Structural necessary conditions of C01, decided on every path of the SSA form of services/keepstore: " +
		"(R1) GetBlock returns a non-zero length only after comparing the MD5 of exactly buf[:size] with the requested hash; " +
		"(R2) handleGET writes block bytes/Content-Length only when GetBlock's error is nil and writes exactly buf[:size]; " +
		"(R3/R5) no function other than GetBlock/PutBlock and the volume drivers reaches Volume.Get/ReadBlock/Put/WriteBlock; " +
		"(R4) PutBlock touches no volume before the MD5 of the body equals the requested hash; " +
		"(R6) CompareAndTouch touches/acknowledges only when Compare returned nil; (R7) compareReaderWithBuf returns nil only at EOF with nothing left to match, and collisionOrCorrupt never returns a nil (read) error; (R8) GetBlock tries every readable volume (no filter before Volume.Get), so a bad copy cannot hide an intact one. " +
		"Not decided: correctness of MD5 itself, driver internals, buffer-size boundary values."
	r.NotDec = []string{"MD5 implementation", "volume driver internals beyond call shape", "size-boundary behaviour of getWithPipe"}
	r.Assume = []string{"go/ssa faithfully represents the source", "crypto/md5.Sum and fmt.Sprintf(\"%x\") compute the lowercase hex MD5"}

	// ---- R1
	r.Rule("C01-R1", "GetBlock: every non-zero-length return is guarded by err==nil of Volume.Get and md5(buf[:size])==hash for the same buf/size", 1)
	if fn := r.NeedFn("C01-R1", ks+".GetBlock"); fn != nil {
		for _, ret := range Returns(fn) {
			ops := ReturnOperands(ret)
			for _, sz := range ops[0] {
				if sz != nil {
					if n, ok := ConstInt(sz); ok && n == 0 {
						continue
					}
				}
				checkGetBlockReturn(r, fn, ret, sz)
			}
		}
	}

	// ---- R8
	r.Rule("C01-R8", "GetBlock tries every readable volume: Volume.Get is executed in every iteration of the volume loop (no filter before it), so a bad copy cannot prevent an intact copy elsewhere from being found", 1)
	if fn := r.NeedFn("C01-R8", ks+".GetBlock"); fn != nil {
		for _, g := range CallsMatching(fn, func(n string, c *ssa.CallCommon) bool { return w.IsMethodOfIface(c, ks+".Volume", "Get") }) {
			hdr := loopHeaderOf(g.Block())
			ok := hdr != nil
			if ok {
				// from the loop body's entry (successor of the header inside the body) the back edge is unreachable without the Get call
				body := loopBody(hdr)
				for _, s := range hdr.Succs {
					if !body[s] {
						continue
					}
					bypass := false
					walk(entryNodes(s), nil, func(n wnode) bool {
						if n.b == hdr {
							bypass = true
							return false
						}
						for _, in := range n.b.Instrs {
							if in == g.(ssa.Instruction) {
								return false
							}
						}
						return body[n.b]
					})
					if bypass {
						ok = false
					}
				}
				// and the loop ranges over AllReadable()
				okRange := false
				allInstrs(fn, func(in ssa.Instruction) {
					if c, isC := in.(*ssa.Call); isC && CalleeName(c.Common()) == "(*"+ks+".RRVolumeManager).AllReadable" {
						okRange = true
					}
				})
				ok = ok && okRange
			}
			r.Check(ok, "C01-R8", fn, "for each readable volume: vol.Get", g.Pos(), "no volume is skipped before being read", "a readable volume can be skipped without being read: after a checksum mismatch an intact copy on another volume may never be tried")
		}
	}

	// ---- R2
	r.Rule("C01-R2", "handleGET: body write and Content-Length only under GetBlock err==nil, and the slice written is buf[:size] of that call", 1)
	if fn := r.NeedFn("C01-R2", "(*"+ks+".router).handleGET"); fn != nil {
		gbs := CallsIn(fn, ks+".GetBlock")
		if len(gbs) != 1 {
			r.Und("C01-R2", fn, "call GetBlock", fn.Pos(), "expected exactly one GetBlock call")
		} else {
			gb := gbs[0]
			args := gb.Common().Args
			buf := args[3]
			guard := ErrNilC(gb)
			// every Write on the response
			for _, c := range CallsMatching(fn, func(n string, c *ssa.CallCommon) bool {
				return n == "(net/http.ResponseWriter).Write" || n == "(io.Writer).Write"
			}) {
				in := c.(ssa.Instruction)
				g, _ := Guard(fn, gb, in, guard)
				x, lo, hi, isSlice := SliceParts(c.Common().Args[0])
				okFlow := isSlice && same(x, buf) && lo == nil && hi != nil && IsResultOfCall(Resolve1(hi), gb.Value(), 0)
				dom := Precedes(gb, in)
				r.Check(g && okFlow && dom, "C01-R2", fn, "call ResponseWriter.Write", in.Pos(),
					"guarded by GetBlock err==nil; writes buf[:size]",
					"response body write not (guarded by GetBlock err==nil and equal to buf[:size] of that call)")
			}
			// header Content-Length
			for _, c := range CallsIn(fn, "(net/http.Header).Set") {
				a := CallArgs(c.Common())
				if k, ok := ConstString(a[0]); !ok || k != "Content-Length" {
					continue
				}
				in := c.(ssa.Instruction)
				g, _ := Guard(fn, gb, in, guard)
				okFlow := false
				if cv, ok := Resolve1(a[1]).(*ssa.Call); ok && CalleeName(cv.Common()) == "strconv.Itoa" {
					okFlow = IsResultOfCall(Resolve1(cv.Call.Args[0]), gb.Value(), 0)
				}
				r.Check(g && okFlow && Precedes(gb, in), "C01-R2", fn, "set Content-Length", in.Pos(),
					"guarded by GetBlock err==nil; value is Itoa(size)",
					"Content-Length not derived from GetBlock's size under err==nil")
			}
			// any other use of buf after GetBlock must be a guarded slice or the pool Put
			for _, ref := range *Strip(buf).Referrers() {
				switch x := ref.(type) {
				case *ssa.Slice:
					g, _ := Guard(fn, gb, x, guard)
					r.Check(g, "C01-R2", fn, "slice of block buffer", x.Pos(), "buffer sliced only under err==nil", "block buffer sliced on a path where GetBlock's error may be non-nil")
				}
			}
		}
	}

	// ---- R3 / R5: who may call the volume read / write primitives
	r.Rule("C01-R3", "block read path: Volume.Get / BlockReader.ReadBlock are called only from GetBlock, getWithPipe and volume drivers' own Get", 2)
	r.Rule("C01-R5", "block write path: Volume.Put / BlockWriter.WriteBlock are called only from PutBlock, putWithPipe, volume drivers' own Put and writePulledBlock", 3)
	volIface := w.NamedType(ks + ".Volume")
	isDriverMethod := func(fn *ssa.Function, name string) bool {
		if fn.Signature.Recv() == nil || fn.Name() != name || volIface == nil {
			return false
		}
		return implementsIface(fn.Signature.Recv().Type(), volIface.Underlying().(*types.Interface))
	}
	for _, fn := range w.FuncsIn(ks) {
		root := rootFn(fn)
		allInstrs(fn, func(in ssa.Instruction) {
			ci, ok := in.(ssa.CallInstruction)
			if !ok {
				return
			}
			c := ci.Common()
			switch {
			case w.IsMethodOfIface(c, ks+".Volume", "Get") || w.IsMethodOfIface(c, ks+".BlockReader", "ReadBlock"):
				name := fnShort(root)
				ok := name == ks+".GetBlock" || name == ks+".getWithPipe" || isDriverMethod(root, "Get")
				r.Check(ok, "C01-R3", fn, "call "+CalleeName(c), in.Pos(), "caller is on the verified read path",
					"stored block bytes are read outside GetBlock's checksum guard")
			case w.IsMethodOfIface(c, ks+".Volume", "Put") || w.IsMethodOfIface(c, ks+".BlockWriter", "WriteBlock"):
				name := fnShort(root)
				ok := name == ks+".PutBlock" || name == ks+".putWithPipe" || isDriverMethod(root, "Put") ||
					name == ks+".init$1" || strings.HasPrefix(name, ks+".writePulledBlock")
				if !ok {
					// writePulledBlock is a package-level func variable: its initialiser is in init
					if g := globalInitOwner(w, root); g == ks+".writePulledBlock" {
						ok = true
					}
				}
				r.Check(ok, "C01-R5", fn, "call "+CalleeName(c), in.Pos(), "caller is on the verified write path",
					"block bytes are written to a volume outside PutBlock's checksum guard")
			}
		})
	}

	// ---- R4
	r.Rule("C01-R4", "PutBlock: every volume access (CompareAndTouch, NextWritable, AllWritable, Put) is guarded by md5(block)==hash", 1)
	if fn := r.NeedFn("C01-R4", ks+".PutBlock"); fn != nil {
		var block, hash ssa.Value
		for _, p := range fn.Params {
			if p.Name() == "block" {
				block = p
			}
			if p.Name() == "hash" {
				hash = p
			}
		}
		if block == nil || hash == nil {
			r.Und("C01-R4", fn, "params", fn.Pos(), "parameters block/hash not found")
		} else {
			guard := EqC("md5(block)==hash", func(v ssa.Value) bool {
				x, ok := HexMD5Of(v)
				return ok && same(x, block)
			}, Is(hash))
			for _, ci := range CallsMatching(fn, func(n string, c *ssa.CallCommon) bool {
				switch n {
				case ks + ".CompareAndTouch", "(*" + ks + ".RRVolumeManager).NextWritable", "(*" + ks + ".RRVolumeManager).AllWritable":
					return true
				}
				return w.IsMethodOfIface(c, ks+".Volume", "Put")
			}) {
				in := ci.(ssa.Instruction)
				g, _ := Guard(fn, nil, in, guard)
				r.Check(g, "C01-R4", fn, "call "+CalleeName(ci.Common()), in.Pos(), "dominated by md5(block)==hash", "volume access reachable without the request checksum having matched")
				// data passed on is the verified block
				if w.IsMethodOfIface(ci.Common(), ks+".Volume", "Put") {
					a := CallArgs(ci.Common())
					r.Check(same(a[2], block) && same(a[1], hash), "C01-R4", fn, "args of "+CalleeName(ci.Common()), in.Pos(), "writes the verified block under the verified hash", "Put is given a different buffer or hash than the one verified")
				}
				if CalleeName(ci.Common()) == ks+".CompareAndTouch" {
					a := ci.Common().Args
					r.Check(same(a[2], hash) && same(a[3], block), "C01-R4", fn, "args of CompareAndTouch", in.Pos(), "compares the verified block under the verified hash", "CompareAndTouch is given a different buffer or hash than the one verified")
				}
			}
			// success returns: replication only after Put==nil or CompareAndTouch pass-through
			for _, ret := range Returns(fn) {
				succ, maybe := IsSuccessReturn(ret)
				if !maybe {
					continue
				}
				_ = succ
				g, _ := Guard(fn, nil, ret, guard)
				r.Check(g, "C01-R4", fn, "return (maybe nil error)", ret.Pos(), "dominated by md5(block)==hash", "success return reachable without checksum match")
			}
		}
	}

	// ---- R6
	r.Rule("C01-R6", "CompareAndTouch: Touch and the success return only under Compare(...)==nil for the same mount iteration", 1)
	if fn := r.NeedFn("C01-R6", ks+".CompareAndTouch"); fn != nil {
		cmps := CallsMatching(fn, func(n string, c *ssa.CallCommon) bool { return w.IsMethodOfIface(c, ks+".Volume", "Compare") })
		if len(cmps) != 1 {
			r.Und("C01-R6", fn, "call Compare", fn.Pos(), "expected exactly one Compare call")
		} else {
			cmp := cmps[0]
			a := CallArgs(cmp.Common())
			var hash, buf ssa.Value
			for _, p := range fn.Params {
				if p.Name() == "hash" {
					hash = p
				}
				if p.Name() == "buf" {
					buf = p
				}
			}
			r.Check(same(a[1], hash) && same(a[2], buf), "C01-R6", fn, "args of Compare", cmp.Pos(), "compares the caller's buffer under the caller's hash", "Compare is given a different hash/buffer")
			guard := ErrNilC(cmp)
			for _, t := range CallsMatching(fn, func(n string, c *ssa.CallCommon) bool { return w.IsMethodOfIface(c, ks+".Volume", "Touch") }) {
				g, _ := Guard(fn, cmp, t.(ssa.Instruction), guard)
				r.Check(g, "C01-R6", fn, "call Touch", t.Pos(), "guarded by Compare==nil", "Touch reachable when Compare reported an error")
			}
			for _, ret := range Returns(fn) {
				succ, _ := IsSuccessReturn(ret)
				if !succ {
					continue
				}
				g, _ := Guard(fn, cmp, ret, guard)
				r.Check(g && Precedes(cmp, ret), "C01-R6", fn, "return n, nil", ret.Pos(), "guarded by Compare==nil", "success return reachable when Compare reported an error or without Compare")
			}
			// CollisionError is propagated
			collided := false
			for _, ret := range Returns(fn) {
				ops := ReturnOperands(ret)
				for _, e := range ops[1] {
					if e != nil && IsResultOfCall(e, cmp.Value(), 0) {
						g, _ := Guard(fn, cmp, ret, EqC("err==CollisionError", ResultVP(cmp.Value(), 0), globalErrVP(ks+".CollisionError")))
						if g {
							collided = true
						}
					}
				}
			}
			r.Check(collided, "C01-R6", fn, "return 0, CollisionError", fn.Pos(), "collision is returned to the caller", "no return propagating Compare's CollisionError")
		}
	}

	// ---- R7
	compareRule(r, "C01-R7")
	// R9: an abandoned PUT never publishes a truncated file (shared with C02-R5)
	pipeCloseRule(r, "C01-R9")
}

func lenVP(v ssa.Value) bool {
	c, ok := Resolve1(v).(*ssa.Call)
	return ok && CalleeName(c.Common()) == "builtin.len"
}

// globalErrVP: v is (an interface made from) a load of the package-level variable.
func globalErrVP(name string) VP {
	return func(v ssa.Value) bool {
		g, ok := LoadedGlobal(Resolve1(v))
		return ok && g == name
	}
}

func checkGetBlockReturn(r *R, fn *ssa.Function, ret *ssa.Return, sz ssa.Value) {
	const rule = "C01-R1"
	if sz == nil {
		r.Bad(rule, fn, "return size", ret.Pos(), "size operand has unknown origin")
		return
	}
	call, idx := ResultOf(sz)
	if call == nil || idx != 0 || !r.W.IsMethodOfIface(call.Common(), ks+".Volume", "Get") {
		r.Bad(rule, fn, "return size", ret.Pos(), "non-zero size returned that is not the length reported by Volume.Get: "+describe(sz))
		return
	}
	args := CallArgs(call.Common())
	var hashP, bufP ssa.Value
	for _, p := range fn.Params {
		if p.Name() == "hash" {
			hashP = p
		}
		if p.Name() == "buf" {
			bufP = p
		}
	}
	if !same(args[1], hashP) || !same(args[2], bufP) {
		r.Bad(rule, fn, "args of Volume.Get", call.Pos(), "Volume.Get is not reading the requested hash into the caller's buffer")
		return
	}
	gErr, _ := Guard(fn, call, ret, ErrNilC(call))
	gSum, _ := Guard(fn, call, ret, EqC("md5(buf[:size])==hash", func(v ssa.Value) bool {
		x, ok := HexMD5Of(v)
		if !ok {
			return false
		}
		b, lo, hi, ok := SliceParts(x)
		return ok && same(b, bufP) && lo == nil && hi != nil && same(hi, sz)
	}, Is(hashP)))
	// error operand must be nil const on this return
	succ, _ := IsSuccessReturn(ret)
	r.Check(gErr && gSum && succ && Precedes(call, ret), rule, fn, "return size,nil", ret.Pos(),
		"size is Volume.Get's length for (hash, buf); guarded by err==nil and md5(buf[:size])==hash",
		"return of a non-zero length not guarded by both Get err==nil and md5(buf[:size])==hash (same buf, same size)")
}

// globalInitOwner: if fn is the function literal assigned to a package-level
// variable (compiled as pkg.init$N), return that variable's short name.
func globalInitOwner(w *World, fn *ssa.Function) string {
	if !strings.Contains(fn.Name(), "init$") {
		return ""
	}
	pkg := fn.Package()
	if pkg == nil {
		return ""
	}
	init := pkg.Func("init")
	if init == nil {
		return ""
	}
	var owner string
	allInstrs(init, func(in ssa.Instruction) {
		if s, ok := in.(*ssa.Store); ok {
			if g, ok := s.Addr.(*ssa.Global); ok {
				if f, ok := Strip(s.Val).(*ssa.Function); ok && f == fn {
					owner = shortName(g.String())
				}
				if mc, ok := Strip(s.Val).(*ssa.MakeClosure); ok && mc.Fn == fn {
					owner = shortName(g.String())
				}
			}
		}
	})
	return owner
}

var _ = token.NoPos

// compareRule (C01-R7, C02-R7): comparing a stored copy with the body of a PUT says "identical" only for an
// identical copy.
func compareRule(r *R, rule string) {
	r.Rule(rule, "compareReaderWithBuf: nil only at io.EOF with len(cmp)==0; a mismatch never returns nil; collisionOrCorrupt never returns a nil error", 2)
	if fn := r.NeedFn(rule, ks+".compareReaderWithBuf"); fn != nil {
		for _, ret := range Returns(fn) {
			succ, maybe := IsSuccessReturn(ret)
			if !maybe {
				continue
			}
			if !succ {
				// returns of `err`/ctx.Err()/collisionOrCorrupt(...) are not constant nil: fine
				continue
			}
			gEOF, _ := Guard(fn, nil, ret, EqC("err==io.EOF", AnyV, GlobalVP("io.EOF")))
			gLen, _ := Guard(fn, nil, ret, IntC("len(cmp)==0", lenVP, token.EQL, 0, true))
			gMis, _ := Guard(fn, nil, ret, EqC("bytes.Compare(...)==0", CallVP("bytes.Compare"), ConstIntVP(0)))
			if !gMis {
				gMis, _ = Guard(fn, nil, ret, TrueC("bytes.Equal(...)", CallVP("bytes.Equal")))
			}
			gLong, _ := Guard(fn, nil, ret, LeC("n<=len(cmp)", AnyV, lenVP))
			r.Check(gEOF && gLen && gMis && gLong, rule, fn, "return nil", ret.Pos(),
				"guarded by err==io.EOF, len(cmp)==0, bytes.Compare==0, n<=len(cmp)", "nil return lacks one of: EOF, nothing left, bytes equal, not longer")
		}
		// mismatch successor returns collisionOrCorrupt
		cc := CallsIn(fn, ks+".collisionOrCorrupt")
		r.Check(len(cc) >= 2, rule, fn, "calls collisionOrCorrupt", fn.Pos(), "mismatch and short-read arms call collisionOrCorrupt", "mismatch arms no longer reach collisionOrCorrupt")
		for _, c := range cc {
			// its result must be returned
			returned := false
			for _, ref := range *c.Value().Referrers() {
				if _, ok := ref.(*ssa.Return); ok {
					returned = true
				}
			}
			r.Check(returned, rule, fn, "result of collisionOrCorrupt", c.Pos(), "returned to caller", "collisionOrCorrupt's verdict is dropped")
		}
	}
	if fn := r.NeedFn(rule, ks+".collisionOrCorrupt"); fn != nil {
		for _, ret := range Returns(fn) {
			succ, _ := IsSuccessReturn(ret)
			r.Check(!succ, rule, fn, "return", ret.Pos(), "never the nil constant", "collisionOrCorrupt returns constant nil")
			// a returned variable error must be known non-nil: the function is only called after a mismatch was seen,
			// so a nil result would tell the caller "identical content"
			for _, x := range []ssa.Value{Strip(ret.Results[0])} {
				if _, isC := x.(*ssa.Const); isC {
					continue
				}
				if u, isU := x.(*ssa.UnOp); isU && u.Op == token.ARROW {
					continue // the verdict computed by the hashing goroutine (CollisionError / DiskHashError)
				}
				if _, isG := LoadedGlobal(x); isG {
					continue
				}
				cut := CorrelatedCut(fn, ret)
				es, _ := IfEdges(fn, NeqC("err != nil", Is(x), NilV).Match)
				cut.Add(es)
				r.Check(!ReachFromEntry(fn, ret, cut), rule, fn, "return err", ret.Pos(), "the read error returned is non-nil on every path", "collisionOrCorrupt can return a nil read error: a corrupt or truncated stored copy is then reported as identical and the PUT is acknowledged without an intact copy")
			}
		}
	}
}
