package main

import (
	"go/types"
	"regexp/syntax"
	"strings"

	"golang.org/x/tools/go/ssa"
)

func init() {
	register("C02", []string{"./services/keepstore"}, runC02)
}

const (
	uvT     = "(*" + ks + ".UnixVolume)"
	owsT    = "(*" + ks + ".osWithStats)"
	fnWrite = uvT + ".WriteBlock"
)

// regexCanon parses a regex literal and returns its canonical rendering.
func regexCanon(lit string) string {
	re, err := syntax.Parse(lit, syntax.Perl)
	if err != nil {
		return "!" + err.Error()
	}
	return re.Simplify().String()
}

// onlyCall returns the unique call to name in fn, or records undecided.
func (r *R) onlyCall(rule string, fn *ssa.Function, name string) ssa.CallInstruction {
	cs := CallsIn(fn, name)
	if len(cs) != 1 {
		r.Und(rule, fn, "call "+name, fn.Pos(), "expected exactly one call, found "+itoa(len(cs)))
		return nil
	}
	return cs[0]
}

func itoa(n int) string {
	return strings.TrimSpace(strings.Replace(strings.Repeat(" ", 0)+fmtInt(n), " ", "", -1))
}

func fmtInt(n int) string {
	if n == 0 {
		return "0"
	}
	neg := n < 0
	if neg {
		n = -n
	}
	s := ""
	for n > 0 {
		s = string(rune('0'+n%10)) + s
		n /= 10
	}
	if neg {
		s = "-" + s
	}
	return s
}

func paramOf(fn *ssa.Function, name string) ssa.Value {
	for _, p := range fn.Params {
		if p.Name() == name {
			return p
		}
	}
	return nil
}

func isTimeNow(v ssa.Value) bool {
	c, ok := Resolve1(v).(*ssa.Call)
	return ok && CalleeName(c.Common()) == "time.Now"
}

func runC02(r *R) {
	w := r.W
	r.Explain = "Structural necessary conditions of C02 on the Directory (UnixVolume) driver and the PUT handler: " +
		"(R1) WriteBlock publishes only by Rename(tmp, blockPath) after TempFile, full io.Copy, Close and Chtimes each returned nil, in that order; " +
		"(R2) the only file that receives block data comes from TempFile, and block paths are never opened with create/truncate flags; " +
		"(R3) temp names (\"tmp\"+loc) cannot match the block-file / block-dir patterns, which are fully anchored; " +
		"(R4) IndexTo lists only names matching blockFileRe; (R5) putWithPipe closes the pipe with the select's error (never a clean EOF on early end); " +
		"(R6) handlePUT acknowledges only when PutBlock's error is nil and PutBlock reports replication only after a nil Put or CompareAndTouch. " +
		"Together with rename(2) atomicity these make the all-or-nothing pencil argument valid; kill points themselves are not executed."
	r.NotDec = []string{"kill-point behaviour itself (runtime/OS)", "durability across power loss (no fsync)", "context-cancellation timing"}
	r.Assume = []string{"POSIX rename(2) is atomic with respect to process death", "ioutil.TempFile creates a new file with a name extending the given prefix"}

	// ---- R1
	r.Rule("C02-R1", "UnixVolume.WriteBlock: TempFile → io.Copy → Close → Chtimes → Rename(tmp, blockPath(loc)) each checked nil, in order, before every nil return", 1)
	if fn := r.NeedFn("C02-R1", fnWrite); fn != nil {
		loc := paramOf(fn, "loc")
		rdr := paramOf(fn, "rdr")
		tmp := r.onlyCall("C02-R1", fn, owsT+".TempFile")
		var cp, cl, ch, rn ssa.CallInstruction
		if tmp != nil {
			tmpfile := func(v ssa.Value) bool { return IsResultOfCall(Resolve1(v), tmp.Value(), 0) }
			tmpName := func(v ssa.Value) bool {
				c, ok := Resolve1(v).(*ssa.Call)
				return ok && CalleeName(c.Common()) == "(*os.File).Name" && tmpfile(c.Call.Args[0])
			}
			// the copy may go through writers wrapped around the temp file (counting, buffering); every buffering
			// layer then needs a Flush whose error is checked before Close (a deferred or ignored Flush loses the
			// write error of the last chunk: a truncated file would be published and acknowledged)
			var flushSteps []ChainStep
			flushMissing := false
			for _, c := range CallsIn(fn, "io.Copy") {
				okW, bufws := writesThrough(c.Common().Args[0], tmpfile, 0)
				if !okW || !same(c.Common().Args[1], rdr) {
					continue
				}
				cp = c
				for _, bw := range bufws {
					var fl ssa.CallInstruction
					for _, fc := range CallsIn(fn, "(*bufio.Writer).Flush") {
						if _, isCall := fc.(*ssa.Call); isCall && same(fc.Common().Args[0], bw) && ErrUsed(fc) {
							fl = fc
						}
					}
					if fl == nil {
						flushMissing = true
					} else {
						flushSteps = append(flushSteps, ChainStep{"bufio.Writer.Flush()", fl})
					}
				}
			}
			if flushMissing {
				r.Bad("C02-R1", fn, "Flush of the buffered writer", fn.Pos(), "block data is copied through a bufio.Writer whose Flush error is not checked (deferred or ignored): a failed write of the last chunk goes unnoticed, the truncated temp file is renamed onto the block path and the PUT is acknowledged")
			}
			for _, c := range CallsIn(fn, "(*os.File).Close") {
				if _, isCall := c.(*ssa.Call); isCall && tmpfile(c.Common().Args[0]) && ErrUsed(c) {
					cl = c
				}
			}
			for _, c := range CallsIn(fn, "os.Chtimes") {
				a := c.Common().Args
				if tmpName(a[0]) && isTimeNow(a[1]) && isTimeNow(a[2]) {
					ch = c
				}
			}
			for _, c := range CallsIn(fn, owsT+".Rename") {
				a := CallArgs(c.Common())
				if tmpName(a[0]) && Canon(a[1]) == uvT+".blockPath(param:v,param:loc)" {
					rn = c
				}
			}
			_ = loc
			if cp == nil || cl == nil || ch == nil || rn == nil {
				r.Bad("C02-R1", fn, "publish sequence", fn.Pos(), "missing one of io.Copy(tmpfile,rdr) / tmpfile.Close() with its error used / os.Chtimes(tmpfile.Name(),now,now) / Rename(tmpfile.Name(), blockPath(loc))")
			} else {
				n := 0
				for _, ret := range Returns(fn) {
					if !MaybeSuccess(fn, ret) {
						continue
					}
					n++
					r.CheckChain("C02-R1", fn, append([]ChainStep{
						{"TempFile", tmp}, {"io.Copy(tmpfile,rdr)", cp}}, append(flushSteps, ChainStep{"tmpfile.Close()", cl}, ChainStep{"os.Chtimes(tmp,now)", ch}, ChainStep{"Rename(tmp,blockPath)", rn})...), ret, "return nil")
				}
				if n == 0 {
					r.Bad("C02-R1", fn, "return nil", fn.Pos(), "no success return found")
				}
				// nothing writes to the published path after the rename
				for _, c := range CallsMatching(fn, func(n string, c *ssa.CallCommon) bool {
					return n == owsT+".Remove" || n == "os.Remove" || n == owsT+".Rename" || n == "os.Rename"
				}) {
					if c == rn {
						continue
					}
					a := CallArgs(c.Common())
					r.Check(tmpName(a[0]), "C02-R1", fn, "cleanup "+CalleeName(c.Common()), c.Pos(), "acts on the temp file only", "WriteBlock removes/renames something other than its temp file")
				}
			}
		}
	}

	// ---- R2
	r.Rule("C02-R2", "unix_volume.go: data is written only to files obtained from TempFile; no create/truncate open of other paths", 3)
	const oCreatTruncWr = 0x40 | 0x200 | 0x1 // O_CREAT|O_TRUNC|O_WRONLY on linux
	for _, fn := range w.FuncsIn(ks) {
		if w.fileOf(fn) != "unix_volume.go" {
			continue
		}
		allInstrs(fn, func(in ssa.Instruction) {
			ci, ok := in.(ssa.CallInstruction)
			if !ok {
				return
			}
			name := CalleeName(ci.Common())
			args := ci.Common().Args
			switch name {
			case "io.Copy", "io.CopyN", "io.CopyBuffer", "io.WriteString", "fmt.Fprint", "fmt.Fprintf", "fmt.Fprintln":
				dst := Strip(args[0])
				if !isOSFile(dst.Type()) {
					return
				}
				c, idx := ResultOf(Resolve1(dst))
				ok := c != nil && idx == 0 && CalleeName(c.Common()) == owsT+".TempFile"
				r.Check(ok, "C02-R2", fn, "data sink "+name, in.Pos(), "destination file comes from TempFile", "block data is written to a file that does not come from TempFile")
			case "(*os.File).Write", "(*os.File).WriteString", "(*os.File).WriteAt", "(*os.File).ReadFrom", "(*os.File).Truncate":
				c, idx := ResultOf(Resolve1(args[0]))
				ok := c != nil && idx == 0 && CalleeName(c.Common()) == owsT+".TempFile"
				r.Check(ok, "C02-R2", fn, "data sink "+name, in.Pos(), "destination file comes from TempFile", "block data is written to a file that does not come from TempFile")
			case "os.Create", "io/ioutil.WriteFile", "os.WriteFile", "os.Truncate":
				r.Bad("C02-R2", fn, "call "+name, in.Pos(), "creates/truncates a file by path in the volume driver")
			case owsT + ".OpenFile", "os.OpenFile":
				if fnShort(fn) == owsT+".OpenFile" {
					return // the wrapper itself
				}
				a := CallArgs(ci.Common())
				flags, ok := ConstInt(a[1])
				r.Check(ok && flags&oCreatTruncWr == 0, "C02-R2", fn, "flags of "+name, in.Pos(), "no O_CREAT/O_TRUNC/O_WRONLY", "a path is opened with create/truncate/write-only flags")
			case owsT + ".TempFile":
				a := CallArgs(ci.Common())
				bo, ok := Resolve1(a[1]).(*ssa.BinOp)
				pfx := ""
				if ok {
					pfx, _ = ConstString(bo.X)
				}
				r.Check(pfx != "", "C02-R2", fn, "TempFile pattern", in.Pos(), "pattern is a constant prefix + loc", "TempFile pattern has no constant prefix")
			}
		})
	}

	// ---- R3
	r.Rule("C02-R3", "temp-file names cannot be mistaken for blocks: TempFile prefix starts with a non-hex byte; blockFileRe ≡ ^[0-9a-f]{32}$ and blockDirRe ≡ ^[0-9a-f]+$ (fully anchored, hex only)", 3)
	if lit, ok := w.GlobalRegexLiteral(ks + ".blockFileRe"); !ok {
		r.addS("C02-R3", ks+".blockFileRe", "regex literal", "-", Undecided, "initialiser regexp.MustCompile(<const>) not found")
	} else {
		r.addS("C02-R3", ks+".blockFileRe", "regex literal", "-", okIf(regexCanon(lit) == regexCanon(`^[0-9a-f]{32}$`)), "literal "+lit+" must denote ^[0-9a-f]{32}$")
	}
	if lit, ok := w.GlobalRegexLiteral(ks + ".blockDirRe"); !ok {
		r.addS("C02-R3", ks+".blockDirRe", "regex literal", "-", Undecided, "initialiser regexp.MustCompile(<const>) not found")
	} else {
		r.addS("C02-R3", ks+".blockDirRe", "regex literal", "-", okIf(regexCanon(lit) == regexCanon(`^[0-9a-f]+$`)), "literal "+lit+" must denote ^[0-9a-f]+$")
	}
	if fn := r.NeedFn("C02-R3", fnWrite); fn != nil {
		for _, c := range CallsIn(fn, owsT+".TempFile") {
			a := CallArgs(c.Common())
			pfx := ""
			if bo, ok := Resolve1(a[1]).(*ssa.BinOp); ok {
				pfx, _ = ConstString(bo.X)
			}
			nonhex := pfx != "" && !strings.ContainsRune("0123456789abcdef", rune(pfx[0]))
			r.Check(nonhex && Canon(a[0]) == uvT+".blockDir(param:v,param:loc)", "C02-R3", fn, "TempFile(dir, prefix)", c.Pos(),
				"temp file lives in the block dir under a name whose first byte is not hex", "temp-file name could match the block-file pattern, or temp dir is not the block dir (rename would not be atomic)")
		}
	}

	// ---- R4
	r.Rule("C02-R4", "IndexTo: an index line is emitted only for names matching blockFileRe (inside dirs matching blockDirRe)", 1)
	if fn := r.NeedFn("C02-R4", uvT+".IndexTo"); fn != nil {
		for _, c := range CallsIn(fn, "fmt.Fprint", "fmt.Fprintf", "fmt.Fprintln") {
			elems, _ := VarargElems(c.Common().Args[len(c.Common().Args)-1])
			if len(elems) == 0 {
				r.Und("C02-R4", fn, "index line", c.Pos(), "cannot read Fprint arguments")
				continue
			}
			name := elems[0]
			g, _ := Guard(fn, nil, c.(ssa.Instruction), TrueC("blockFileRe.MatchString(name)", func(v ssa.Value) bool {
				cc, ok := Resolve1(v).(*ssa.Call)
				if !ok || CalleeName(cc.Common()) != "(*regexp.Regexp).MatchString" {
					return false
				}
				g, ok := LoadedGlobal(cc.Call.Args[0])
				return ok && g == ks+".blockFileRe" && same(cc.Call.Args[1], name)
			}))
			r.Check(g, "C02-R4", fn, "index line", c.Pos(), "guarded by blockFileRe.MatchString(name) for the printed name", "an index line can be emitted for a name that was not matched against blockFileRe")
		}
	}

	// ---- R5
	pipeCloseRule(r, "C02-R5")

	// R7: the existing-copy comparison accepts only an identical copy (shared with C01-R7)
	compareRule(r, "C02-R7")

	// ---- R6
	r.Rule("C02-R6", "handlePUT acknowledges (locator body, X-Keep-Replicas-Stored) only under PutBlock err==nil; PutBlock returns replication only after Put==nil or via CompareAndTouch", 2)
	if fn := r.NeedFn("C02-R6", "(*"+ks+".router).handlePUT"); fn != nil {
		if pb := r.onlyCall("C02-R6", fn, ks+".PutBlock"); pb != nil {
			guard := ErrNilC(pb)
			for _, c := range CallsMatching(fn, func(n string, c *ssa.CallCommon) bool {
				return n == "(net/http.ResponseWriter).Write" || n == "(net/http.Header).Set" || n == "(net/http.ResponseWriter).WriteHeader"
			}) {
				g, _ := Guard(fn, pb, c.(ssa.Instruction), guard)
				dom := Precedes(pb, c)
				r.Check(g && dom, "C02-R6", fn, "ack "+bareName(CalleeName(c.Common())), c.Pos(), "guarded by PutBlock err==nil", "acknowledgement reachable when PutBlock failed or was not called")
			}
			// data given to PutBlock was fully read: io.ReadFull err==nil
			if rf := r.onlyCall("C02-R6", fn, "io.ReadFull"); rf != nil {
				g, _ := Guard(fn, rf, pb.(ssa.Instruction), ErrNilC(rf))
				bufOK := same(rf.Common().Args[1], pb.Common().Args[2])
				r.Check(g && bufOK && Precedes(rf, pb), "C02-R6", fn, "io.ReadFull → PutBlock", rf.Pos(), "PutBlock gets the buffer only after ReadFull succeeded", "PutBlock can be reached with a partially read body")
			}
		}
	}
	if fn := r.NeedFn("C02-R6", ks+".PutBlock"); fn != nil {
		for _, ret := range Returns(fn) {
			ops := ReturnOperands(ret)
			for _, n := range ops[0] {
				if n != nil {
					if k, ok := ConstInt(n); ok && k == 0 {
						continue
					}
				}
				// replication value: must be (a) CompareAndTouch result 0, or (b) mnt.Replication under Put==nil
				if c, idx := ResultOf(n); c != nil && idx == 0 && CalleeName(c.Common()) == ks+".CompareAndTouch" {
					r.Ok("C02-R6", fn, "return CompareAndTouch's n", ret.Pos(), "pass-through")
					continue
				}
				if t, f, base, ok := LoadedField(n); ok && f == "Replication" {
					_ = t
					// find the Put on the same mount
					var put ssa.CallInstruction
					for _, c := range CallsMatching(fn, func(nm string, c *ssa.CallCommon) bool { return w.IsMethodOfIface(c, ks+".Volume", "Put") }) {
						if putMount(c) != nil && same(putMount(c), rootBase(base)) {
							if Precedes(c, ret) {
								put = c
							}
						}
					}
					if put == nil {
						r.Bad("C02-R6", fn, "return mnt.Replication", ret.Pos(), "no dominating Put on the same mount")
						continue
					}
					g, _ := Guard(fn, put, ret, ErrNilC(put))
					succ, _ := IsSuccessReturn(ret)
					r.Check(g && succ, "C02-R6", fn, "return mnt.Replication", ret.Pos(), "guarded by Put(...)==nil on that mount", "replication reported without a nil Put on that mount")
					continue
				}
				r.Bad("C02-R6", fn, "return n", ret.Pos(), "non-zero replication of unknown origin: "+describe(n))
			}
		}
	}
}

// putMount: for `mnt.Put(...)` where Put is promoted through VolumeMount's
// embedded Volume interface, returns the *VolumeMount value.
func putMount(c ssa.CallInstruction) ssa.Value {
	rv := CallRecv(c.Common())
	if rv == nil {
		return nil
	}
	return rootBase(rv)
}

func okIf(b bool) Status {
	if b {
		return OK
	}
	return Violation
}

func isOSFile(t types.Type) bool {
	return typeString(t) == "*os.File"
}

// ErrUsed reports whether the call's (error) result has any referrer.
func ErrUsed(c ssa.CallInstruction) bool {
	v := c.Value()
	if v == nil {
		return false
	}
	n := 0
	for _, ref := range *v.Referrers() {
		if _, ok := ref.(*ssa.DebugRef); ok {
			continue
		}
		n++
	}
	return n > 0
}

// nonNilGuarded: the return's error operand is a value v and the return is
// dominated by the fact v != nil.
func nonNilGuarded(fn *ssa.Function, ret *ssa.Return) bool {
	if len(ret.Results) == 0 {
		return false
	}
	// a merged result (`err` of an inlined helper, or assigned in several arms): the return is non-nil guarded when
	// no arrival that brings a possibly-nil value can reach it (the `if err != nil` that follows the merge is
	// evaluated per arrival edge by the walker)
	if phi, isPhi := returnDirect(ret, ret.Results[len(ret.Results)-1]).(*ssa.Phi); isPhi {
		okAll := true
		for k, e := range phi.Edges {
			if definitelyNonNilErr(e) {
				continue
			}
			if ReachSel(fn, ret, EdgeSet{}, phi.Block(), k) {
				okAll = false
			}
		}
		if okAll {
			return true
		}
	}
	ops := returnOperand(ret, ret.Results[len(ret.Results)-1])
	for _, v := range ops {
		if v == nil {
			return false
		}
		if definitelyNonNilErr(v) {
			continue
		}
		if IsNilConst(v) {
			return false
		}
		vv := v
		g, _ := Guard(fn, nil, ret, NeqC("err != nil", func(x ssa.Value) bool { return Strip(x) == Strip(vv) }, NilV))
		if !g {
			return false
		}
	}
	return true
}

// describeOrigin renders a short provenance string for a value (through free variables).
func describeOrigin(v ssa.Value) string {
	switch x := v.(type) {
	case *ssa.FreeVar:
		fn := x.Parent()
		// find binding in parent's MakeClosure
		if fn.Parent() != nil {
			var out string
			allInstrs(fn.Parent(), func(in ssa.Instruction) {
				if mc, ok := in.(*ssa.MakeClosure); ok && mc.Fn == fn {
					for i, fv := range fn.FreeVars {
						if fv == x {
							out = describeOrigin(mc.Bindings[i])
						}
					}
				}
			})
			return out
		}
	case *ssa.Extract:
		if c, ok := x.Tuple.(*ssa.Call); ok {
			return CalleeName(c.Common())
		}
	case *ssa.Call:
		return CalleeName(x.Common())
	case *ssa.UnOp:
		return describeOrigin(x.X)
	case *ssa.Alloc:
		s := ""
		for _, st := range cellStores(x) {
			s += describeOrigin(st.Val) + ";"
		}
		return s
	case *ssa.MakeInterface:
		return describeOrigin(x.X)
	case *ssa.ChangeInterface:
		return describeOrigin(x.X)
	}
	return v.String()
}

// pipeCloseRule (C02-R5, C01-R9): putWithPipe never lets WriteBlock see a clean EOF after a partial body.
func pipeCloseRule(r *R, rule string) {
	w := r.W
	r.Rule(rule, "putWithPipe: the write end is closed only with CloseWithError(err) where err carries the select's outcome (copy error, put error or ctx.Err())", 1)
	if fn := r.NeedFn(rule, ks+".putWithPipe"); fn != nil {
		all := append([]*ssa.Function{fn}, Closures(fn)...)
		nClose := 0
		for _, f := range all {
			for _, c := range CallsIn(f, "(*io.PipeWriter).Close") {
				r.Bad(rule, f, "pipew.Close()", c.Pos(), "write end closed cleanly: an early end would look like EOF to WriteBlock")
			}
			for _, c := range CallsIn(f, "(*io.PipeWriter).CloseWithError") {
				nClose++
				errv := c.Common().Args[1]
				leaves := PhiLeaves(errv)
				// required: three arms — receive from copyErr, receive from putErr, ctx.Err()
				recv, ctxerr, other := 0, 0, 0
				for _, l := range leaves {
					switch x := l.(type) {
					case *ssa.Extract:
						if _, ok := x.Tuple.(*ssa.Select); ok {
							recv++
						} else if cc, ok := x.Tuple.(*ssa.Call); ok && CalleeName(cc.Common()) == "(context.Context).Err" {
							ctxerr++
						} else {
							other++
						}
					case *ssa.UnOp:
						recv++ // <-chan
					case *ssa.Call:
						if CalleeName(x.Common()) == "(context.Context).Err" {
							ctxerr++
						} else {
							other++
						}
					default:
						other++ // includes the zero/nil constant: a select arm that leaves err nil
					}
				}
				r.Check(recv >= 2 && ctxerr >= 1 && other == 0, rule, f, "pipew.CloseWithError(err)", c.Pos(),
					"err is one of <-copyErr, <-putErr, ctx.Err()", "some select arm leaves err nil (or of unknown origin): the reader would see a clean EOF after a partial copy")
			}
		}
		if nClose == 0 {
			r.Bad(rule, fn, "pipew.CloseWithError", fn.Pos(), "write end is never closed with an error")
		}
		// WriteBlock is given the read end of that pipe
		for _, f := range all {
			for _, c := range CallsMatching(f, func(n string, c *ssa.CallCommon) bool { return w.IsMethodOfIface(c, ks+".BlockWriter", "WriteBlock") }) {
				a := CallArgs(c.Common())
				ok := false
				for _, l := range PhiLeaves(a[2]) {
					if l == nil {
						continue
					}
					// piper is a free variable bound to extract #0 of io.Pipe()
					ok = strings.Contains(describeOrigin(l), "io.Pipe")
				}
				r.Check(ok, rule, f, "WriteBlock(ctx, loc, piper)", c.Pos(), "reads from the pipe", "WriteBlock is not reading from the pipe that putWithPipe controls")
			}
		}
	}

}

// writesThrough: v is the temp file itself or a writer constructed around it (bufio.NewWriter[Size], the
// driver's counting writer, …: any constructor call that takes a write-through writer as an argument and
// returns an io.Writer). It returns the bufio writers on the way, innermost first.
func writesThrough(v ssa.Value, tmpfile func(ssa.Value) bool, depth int) (bool, []ssa.Value) {
	if depth > 4 {
		return false, nil
	}
	v = Resolve1(v)
	for {
		if mi, ok := v.(*ssa.MakeInterface); ok {
			v = Resolve1(mi.X)
			continue
		}
		if ci, ok := v.(*ssa.ChangeInterface); ok {
			v = Resolve1(ci.X)
			continue
		}
		break
	}
	if tmpfile(v) {
		return true, nil
	}
	c, ok := v.(*ssa.Call)
	if !ok {
		return false, nil
	}
	name := CalleeName(c.Common())
	switch {
	case name == "bufio.NewWriter" || name == "bufio.NewWriterSize":
		ok, b := writesThrough(c.Call.Args[0], tmpfile, depth+1)
		return ok, append(b, ssa.Value(c))
	case strings.HasSuffix(name, ".NewCountingWriter"):
		return writesThrough(c.Call.Args[0], tmpfile, depth+1)
	}
	return false, nil
}
