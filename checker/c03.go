package main

import (
	"go/token"
	"strings"

	"golang.org/x/tools/go/ssa"
)

const kcl = "sdk/go/keepclient"

func init() {
	register("C03", []string{"./sdk/go/keepclient", "./sdk/go/arvados"}, runC03)
}

// HexSumOf: v == fmt.Sprintf("%x", H.Sum(nil)) → the hash value H (receiver of Sum).
func HexSumOf(v ssa.Value) (ssa.Value, bool) {
	hx, ok := HexOf(v)
	if !ok {
		return nil, false
	}
	sum, ok := Resolve1(stripIface(hx)).(*ssa.Call)
	if !ok || bareName(CalleeName(sum.Common())) != "Sum" || !sum.Common().IsInvoke() || !IsNilConst(sum.Common().Args[0]) {
		return nil, false
	}
	return sum.Common().Value, true
}

// hcrSumEq: the fact "hex(hcr.Hash.Sum(nil)) == hcr.Check".
func hcrSumEq() CP {
	return EqC("Sprintf(\"%x\", hcr.Hash.Sum(nil)) == hcr.Check", func(v ssa.Value) bool {
		h, ok := HexSumOf(v)
		return ok && strings.Contains(Canon(h), "HashCheckingReader.Hash")
	}, func(v ssa.Value) bool { return strings.Contains(Canon(v), "HashCheckingReader.Check") })
}

func runC03(r *R) {
	w := r.W
	r.Explain = "Structural necessary conditions of C03 in sdk/go/keepclient: (R1) getOrHead hands out a response body only wrapped in HashCheckingReader{Body, md5.New(), locator[0:32]} (or the empty-block literal under the d41d8…+0 prefix test); (R2) only when size hint and Content-Length agree and at least one is present; " +
		"(R3) HashCheckingReader.Read turns EOF into BadChecksum on mismatch, WriteTo/Close return nil only when the digest matches, Close drains through the hash first; (R4) BlockCache.Get keeps the errors of Get, ReadFull and Close, never reuses an entry with an error, and ReadAt copies only when err==nil; " +
		"(R5) cache buffer allocation make(len,cap) is guarded by len<=cap (found F3); (R6) every consumer of KeepClient.Get's reader either passes it on, reads to EOF with the error checked, or checks Close()'s error; collection reads reach Keep only through KeepClient.ReadAt. (R8) HashCheckingReader.Read hashes exactly the bytes it delivers, and a collection segment read turns its result into io.EOF only when the verified read returned nil. Retry logic, cache eviction and the arithmetic that bounds a read to its segment are not decided."
	r.NotDec = []string{"retry/round logic values", "LRU eviction correctness"}
	r.Assume = []string{"crypto/md5", "net/http delivers Body bytes in order"}

	// ---- R1 + R2
	r.Rule("C03-R1", "getOrHead: a non-nil reader is HashCheckingReader{Reader: resp.Body, Hash: md5.New(), Check: locator[0:32]} of a 200 response, or the empty literal under the empty-block prefix test", 1)
	r.Rule("C03-R2", "getOrHead: success only if NOT(Content-Length≥0 ∧ hint≠Content-Length) and NOT(no hint ∧ no Content-Length)", 1)
	if fn := r.NeedFn("C03-R1", "(*"+kcl+".KeepClient).getOrHead"); fn != nil {
		loc := paramOf(fn, "locator")
		dos := CallsMatching(fn, func(n string, c *ssa.CallCommon) bool {
			return n == "(*net/http.Client).Do" || n == "("+kcl+".HTTPClient).Do"
		})
		for _, ret := range Returns(fn) {
			ops := ReturnOperands(ret)
			for _, rd := range ops[0] {
				if rd != nil && IsNilConst(rd) {
					continue
				}
				if rd == nil {
					r.Bad("C03-R1", fn, "return reader", ret.Pos(), "reader of unknown origin")
					continue
				}
				mi, _ := rd.(*ssa.MakeInterface)
				if c, ok := Resolve1(rd).(*ssa.Call); ok && CalleeName(c.Common()) == "io/ioutil.NopCloser" {
					g, _ := Guard(fn, nil, ret, TrueC("HasPrefix(locator, empty-block)", func(v ssa.Value) bool {
						cc, ok := Resolve1(v).(*ssa.Call)
						if !ok || CalleeName(cc.Common()) != "strings.HasPrefix" || !same(cc.Call.Args[0], loc) {
							return false
						}
						p, _ := ConstString(cc.Call.Args[1])
						return p == "d41d8cd98f00b204e9800998ecf8427e+0"
					}))
					nilRdr := false
					if nb, ok := Resolve1(c.Call.Args[0]).(*ssa.Call); ok && CalleeName(nb.Common()) == "bytes.NewReader" && IsNilConst(nb.Call.Args[0]) {
						nilRdr = true
					}
					r.Check(g && nilRdr, "C03-R1", fn, "return empty reader", ret.Pos(), "only for the empty block's locator; zero bytes", "unverified literal reader returned for a locator that is not the empty block")
					continue
				}
				if mi == nil {
					r.Bad("C03-R1", fn, "return reader", ret.Pos(), "reader is not a freshly built value: "+describe(rd))
					continue
				}
				if typeString(mi.X.Type()) != "git.arvados.org/arvados.git/"+kcl+".HashCheckingReader" {
					r.Bad("C03-R1", fn, "return reader", ret.Pos(), "reader handed out without hash checking: "+typeString(mi.X.Type()))
					continue
				}
				cf := compositeFields(mi.X)
				okBody, okHash, okCheck := false, false, false
				var do ssa.CallInstruction
				if b := cf["Reader"]; b != nil {
					if t, f, base, ok := LoadedField(Strip(b)); ok && t == "net/http.Response" && f == "Body" {
						for _, d := range dos {
							if IsResultOfCall(Resolve1(base), d.Value(), 0) {
								do = d
								okBody = true
							}
						}
					}
				}
				if h := cf["Hash"]; h != nil {
					c, ok := Resolve1(h).(*ssa.Call)
					okHash = ok && CalleeName(c.Common()) == "crypto/md5.New"
				}
				if ck := cf["Check"]; ck != nil {
					x, lo, hi, ok := SliceParts(ck)
					if ok && same(x, loc) && hi != nil {
						l := int64(0)
						if lo != nil {
							l, _ = ConstInt(lo)
						}
						h, _ := ConstInt(hi)
						okCheck = l == 0 && h == 32
					}
				}
				r.Check(okBody && okHash && okCheck, "C03-R1", fn, "return HashCheckingReader{…}", ret.Pos(), "Reader=resp.Body, Hash=md5.New(), Check=locator[0:32]",
					"hash-checking wrapper built wrongly (body="+boolS(okBody)+" md5="+boolS(okHash)+" check="+boolS(okCheck)+")")
				if do != nil {
					in := do.(ssa.Instruction)
					gE, _ := Guard(fn, in, ret, ErrNilC(do))
					g200, _ := Guard(fn, in, ret, EqC("resp.StatusCode == 200", FieldVP("net/http.Response", "StatusCode", nil), ConstIntVP(200)))
					r.Check(gE && g200, "C03-R1", fn, "reader only for HTTP 200", ret.Pos(), "Do err==nil and StatusCode==200", "a body is handed out for a failed or non-200 response")
					// R2
					cl := FieldVP("net/http.Response", "ContentLength", nil)
					isExpect := func(v ssa.Value) bool { return !cl(v) }
					// mismatch branch: resp.ContentLength >= 0 && expectLength != resp.ContentLength → return error.
					gA := GuardOrPass(fn, in, ret, nil, EqC("expectLength == resp.ContentLength", isExpect, cl), LtC("resp.ContentLength < 0", cl, ConstIntVP(0)),
						// or expectLength was just taken from Content-Length
						LtC("expectLength < 0 (then set from Content-Length)", isExpect, ConstIntVP(0)))
					gB := GuardOrPass(fn, in, ret, nil, GeC("resp.ContentLength < 0", cl, ConstIntVP(0)), GeC("expectLength < 0", isExpect, ConstIntVP(0)))
					r.Check(gA && gB, "C03-R2", fn, "size agreement before success", ret.Pos(), "hint and Content-Length agree; at least one present", "a response whose Content-Length contradicts the size hint (or with neither) can be accepted (agree="+boolS(gA)+" present="+boolS(gB)+")")
				}
			}
		}
		// resp.Body reaches nothing else that is returned: every load of Response.Body feeds Close, a LimitedReader for error text, or the checked composite
		allInstrs(fn, func(in ssa.Instruction) {
			u, ok := in.(*ssa.UnOp)
			if !ok || u.Op != token.MUL || !IsFieldLoad(u, "net/http.Response", "Body") {
				return
			}
			for _, ref := range *u.Referrers() {
				switch x := ref.(type) {
				case *ssa.Call:
					if bareName(CalleeName(x.Common())) == "Close" {
						continue
					}
					r.Bad("C03-R1", fn, "use of resp.Body", x.Pos(), "response body passed to "+CalleeName(x.Common()))
				case *ssa.Store:
					// store into composite field Reader (checked above) or LimitedReader.R
					_, f, _, _ := FieldName(x.Addr)
					if f != "Reader" && f != "R" {
						r.Bad("C03-R1", fn, "use of resp.Body", x.Pos(), "response body stored into ."+f)
					}
				case *ssa.MakeInterface, *ssa.ChangeInterface, *ssa.DebugRef:
				default:
					r.Bad("C03-R1", fn, "use of resp.Body", ref.Pos(), "unexpected use of the response body")
				}
			}
		})
	}

	// ---- R3
	c03Delivered(r)
	r.Rule("C03-R3", "HashCheckingReader: Read yields BadChecksum instead of EOF on mismatch; WriteTo/Close return nil only when the digest equals Check; Close drains the rest through the hash first", 3)
	if fn := r.NeedFn("C03-R3", "("+kcl+".HashCheckingReader).Read"); fn != nil {
		// find the EOF test and the sum test
		eofC := EqC("err == io.EOF", AnyV, GlobalVP("io.EOF"))
		var eofIf, sumIf *ssa.If
		_, ifs := IfEdges(fn, eofC.Match)
		if len(ifs) == 1 {
			eofIf = ifs[0]
		}
		_, ifs2 := IfEdges(fn, hcrSumEq().Match)
		if len(ifs2) == 1 {
			sumIf = ifs2[0]
		}
		if eofIf == nil || sumIf == nil {
			r.Bad("C03-R3", fn, "EOF→checksum test", fn.Pos(), "the `err == io.EOF` test or the digest comparison is missing")
		} else {
			// every path from the EOF edge to a return passes the digest comparison
			eofEdges, _ := IfEdges(fn, eofC.Match)
			okPass := true
			for e := range eofEdges {
				succ := e.From.Succs[e.Succ]
				for _, ret := range Returns(fn) {
					if succ == sumIf.Block() {
						continue
					}
					if reachAvoidingFromBlockStart(succ, ret, map[ssa.Instruction]bool{sumIf: true}) {
						okPass = false
					}
				}
			}
			// on the mismatch side the returned error is BadChecksum
			_, side := hcrSumEq().Match(sumIf.Cond)
			mis := sumIf.Block().Succs[0]
			if side { // equal on true side → mismatch on false side
				mis = sumIf.Block().Succs[1]
			}
			okBad, foundBad := true, false
			isBad := func(v ssa.Value) bool {
				g, ok := LoadedGlobal(Resolve1(v))
				return ok && g == kcl+".BadChecksum"
			}
			for _, ret := range Returns(fn) {
				errv := returnDirect(ret, ret.Results[len(ret.Results)-1])
				if ret.Block() == mis || mis.Dominates(ret.Block()) {
					// the mismatch arm returns on its own (`return n, BadChecksum`)
					foundBad = true
					okBad = okBad && isBad(errv)
					continue
				}
				if p, ok := Strip(errv).(*ssa.Phi); ok {
					for i, e := range p.Edges {
						pred := p.Block().Preds[i]
						if pred == mis || mis.Dominates(pred) {
							foundBad = true
							okBad = okBad && isBad(e)
						}
					}
				}
			}
			okBad = okBad && foundBad
			// the data hashed is the data returned: Hash.Write(p[:n]) with n = Reader.Read's count
			okWrite := false
			for _, c := range CallsMatching(fn, func(n string, c *ssa.CallCommon) bool { return bareName(n) == "Write" && c.IsInvoke() }) {
				x, lo, hi, ok := SliceParts(c.Common().Args[0])
				if ok && same(x, paramOf(fn, "p")) && lo == nil && hi != nil {
					if rc, idx := ResultOf(Resolve1(hi)); rc != nil && idx == 0 && bareName(CalleeName(rc.Common())) == "Read" {
						okWrite = true
					}
				}
			}
			r.Check(okPass && okBad && okWrite, "C03-R3", fn, "Read: EOF ⇒ digest check ⇒ BadChecksum", fn.Pos(), "EOF always reaches the comparison; mismatch returns BadChecksum; exactly p[:n] is hashed",
				"Read can report a clean EOF without the digest having matched (pass="+boolS(okPass)+" bad="+boolS(okBad)+" hashed="+boolS(okWrite)+")")
		}
	}
	for _, name := range []string{"WriteTo", "Close"} {
		if fn := r.NeedFn("C03-R3", "("+kcl+".HashCheckingReader)."+name); fn != nil {
			n := 0
			for _, ret := range Returns(fn) {
				succ, _ := IsSuccessReturn(ret)
				if !succ {
					// `return err` with a merged / variable error: it may be nil only on paths that compared the digest
					d := returnDirect(ret, ret.Results[len(ret.Results)-1])
					sentinel := func(v ssa.Value) bool {
						_, isG := LoadedGlobal(stripIface(v))
						return isG || definitelyNonNilErr(v)
					}
					okVar := true
					if phi, isPhi := d.(*ssa.Phi); isPhi {
						n++
						for k, e := range phi.Edges {
							if sentinel(e) {
								continue
							}
							ev := e
							if !GuardLeaf(fn, phi, k, ret, hcrSumEq(), NeqC("err != nil", func(x ssa.Value) bool { return Strip(x) == Strip(ev) }, NilV)) {
								okVar = false
							}
						}
						r.Check(okVar, "C03-R3", fn, name+": return err (merged)", ret.Pos(), "nil only on paths where digest == Check", name+" can return a nil error without the digest matching")
					} else if _, isC := d.(*ssa.Const); !isC && !sentinel(d) {
						dv := d
						ok := GuardOrPass(fn, nil, ret, nil, hcrSumEq(), NeqC("err != nil", func(x ssa.Value) bool { return Strip(x) == Strip(dv) }, NilV))
						r.Check(ok, "C03-R3", fn, name+": return err", ret.Pos(), "non-nil, or digest == Check", name+" can return a nil error without the digest matching")
					}
					continue
				}
				n++
				g, _ := Guard(fn, nil, ret, hcrSumEq())
				r.Check(g, "C03-R3", fn, name+": return nil", ret.Pos(), "guarded by digest == Check", name+" can return success without the digest matching")
				if name == "Close" {
					cps := CallsIn(fn, "io.Copy")
					okDrain := false
					for _, cp := range cps {
						a := cp.Common().Args
						if strings.Contains(Canon(a[0]), "HashCheckingReader.Hash") && strings.Contains(Canon(a[1]), "HashCheckingReader.Reader") {
							if MustPassFromEntry(fn, ret, []ssa.Instruction{cp.(ssa.Instruction)}) {
								// its error must be nil on the way
								g2, _ := Guard(fn, cp.(ssa.Instruction), ret, EqC("err == nil", func(v ssa.Value) bool {
									for _, l := range PhiLeaves(v) {
										if l != nil && IsResultOfCall(l, cp.Value(), 1) {
											return true
										}
									}
									return false
								}, NilV))
								okDrain = g2
							}
						}
					}
					r.Check(okDrain, "C03-R3", fn, "Close: drain through hash", ret.Pos(), "io.Copy(hcr.Hash, hcr.Reader) precedes, error checked", "Close does not hash the unread remainder before comparing (a short read followed by Close would accept a corrupt tail)")
				}
			}
			if n == 0 {
				r.Bad("C03-R3", fn, name+": return nil", fn.Pos(), "no success return")
			}
		}
	}

	// ---- R4 + R5
	r.Rule("C03-R4", "BlockCache.Get: stored error joins Get's, ReadFull's and Close's; an entry with an error is refetched; ReadAt copies only under err==nil", 2)
	r.Rule("C03-R5", "cache buffer: make([]byte, len, cap) with distinct non-constant len/cap is guarded by len <= cap", 1)
	r.Rule("C03-R7", "cached block buffers are immutable once published: each fetch fills a freshly allocated buffer; no code writes into cacheBlock.data", 1)
	if outer := r.NeedFn("C03-R4", "(*"+kcl+".BlockCache).Get"); outer != nil {
		var gofn *ssa.Function
		var goInstr ssa.Instruction
		allInstrs(outer, func(in ssa.Instruction) {
			if g, ok := in.(*ssa.Go); ok {
				if f := StaticCallee(g.Common()); f != nil && len(CallsIn(f, "(*"+kcl+".KeepClient).Get")) > 0 {
					gofn, goInstr = f, in
				}
			}
		})
		if gofn == nil {
			r.Und("C03-R4", outer, "fetch goroutine", outer.Pos(), "not found")
		} else {
			get := CallsIn(gofn, "(*"+kcl+".KeepClient).Get")[0]
			for _, st := range StoresToField(gofn, kcl+".cacheBlock", "err") {
				var hasGet, hasRF, hasClose bool
				for _, l := range PhiLeaves(st.Val) {
					if l == nil {
						continue
					}
					c, idx := ResultOf(l)
					if c == nil {
						continue
					}
					switch {
					case c == get.Value() && idx == 3:
						hasGet = true
					case CalleeName(c.Common()) == "io.ReadFull" && idx == 1:
						hasRF = true
					case bareName(CalleeName(c.Common())) == "Close" && IsResultOfCall(Resolve1(c.Common().Value), get.Value(), 0):
						hasClose = true
					}
				}
				// Close()'s verdict is adopted unconditionally whenever ReadFull succeeded: an edge that carries ReadFull's own
				// error into the stored value must be guarded by that error being non-nil
				for _, rf := range CallsIn(gofn, "io.ReadFull") {
					seen := map[ssa.Value]bool{}
					var chk func(v ssa.Value)
					chk = func(v ssa.Value) {
						p, isP := Strip(v).(*ssa.Phi)
						if !isP || seen[p] {
							return
						}
						seen[p] = true
						for i, e := range p.Edges {
							if IsResultOfCall(Strip(e), rf.Value(), 1) {
								g := EdgeGuarded(gofn, rf.(ssa.Instruction), p.Block().Preds[i], p.Block(), NeqC("ReadFull err != nil", ResultVP(rf.Value(), 1), NilV))
								if !g {
									hasClose = false
								}
							} else {
								chk(e)
							}
						}
					}
					chk(st.Val)
				}
				r.Check(hasGet && hasRF && hasClose, "C03-R4", gofn, "b.err = join(Get, ReadFull, Close)", st.Pos(), "no error dropped; Close's error adopted whenever ReadFull's is nil", "an error is dropped before caching the block (get="+boolS(hasGet)+" readfull="+boolS(hasRF)+" close="+boolS(hasClose)+"): Close() carries the checksum verdict when the body is not read to EOF")
			}
			// ReadFull reads from the verified reader into the buffer that is cached
			for _, rf := range CallsIn(gofn, "io.ReadFull") {
				okSrc := IsResultOfCall(Resolve1(Strip(rf.Common().Args[0])), get.Value(), 0)
				g, _ := Guard(gofn, get.(ssa.Instruction), rf.(ssa.Instruction), ErrNilC(get))
				r.Check(okSrc && g, "C03-R4", gofn, "io.ReadFull(rdr, data)", rf.Pos(), "reads the hash-checking reader, only when Get succeeded", "cache is filled from something other than the verified reader")
			}
			for _, st := range StoresToField(gofn, kcl+".cacheBlock", "data") {
				r.Ok("C03-R4", gofn, "b.data store", st.Pos(), "paired with b.err")
			}
			// R7: the buffer that is filled and then handed to readers is private to this fetch
			for _, rf := range CallsIn(gofn, "io.ReadFull") {
				fresh := true
				for _, l := range PhiLeaves(rf.Common().Args[1]) {
					if l == nil {
						fresh = false
						continue
					}
					if _, isMS := l.(*ssa.MakeSlice); !isMS {
						fresh = false
					}
				}
				r.Check(fresh, "C03-R7", gofn, "io.ReadFull(rdr, <fresh buffer>)", rf.Pos(), "filled buffer is allocated by this fetch (make)", "the cache fills a buffer that was not freshly allocated by this fetch: BlockCache.Get/ReadAt hand the cached slice itself to readers, so a recycled buffer can be overwritten while a reader of the evicted block is still copying from it")
			}
			// R5
			allInstrs(gofn, func(in ssa.Instruction) {
				ms, ok := in.(*ssa.MakeSlice)
				if !ok {
					return
				}
				if _, c1 := ConstInt(ms.Len); c1 {
					return
				}
				if _, c2 := ConstInt(ms.Cap); c2 || same(ms.Len, ms.Cap) {
					return
				}
				lenC, capC := Canon(Strip(ms.Len)), Canon(Strip(ms.Cap))
				g, _ := Guard(gofn, nil, in, LeC("len <= cap", func(v ssa.Value) bool { return Canon(Strip(v)) == lenC }, func(v ssa.Value) bool { return Canon(Strip(v)) == capC }))
				r.Check(g, "C03-R5", gofn, "make([]byte, size, bufsize)", in.Pos(), "guarded by size <= bufsize", "make(len, cap) with len possibly > cap: a response longer than the size hint (or a missing hint with a >64MiB body) panics the fetch goroutine and kills the process instead of returning an error")
			})
			// refetch when entry has error
			var wait ssa.Instruction
			allInstrs(outer, func(in ssa.Instruction) {
				if u, ok := in.(*ssa.UnOp); ok && u.Op == token.ARROW && strings.Contains(Canon(u.X), "cacheBlock.fetched") {
					wait = in
				}
			})
			if wait == nil {
				r.Und("C03-R4", outer, "<-b.fetched", outer.Pos(), "not found")
			} else {
				g1 := GuardOrPass(outer, nil, wait, []ssa.Instruction{goInstr}, TrueC("ok (cache hit)", func(v ssa.Value) bool {
					e, ok := Resolve1(v).(*ssa.Extract)
					if !ok || e.Index != 1 {
						return false
					}
					_, isL := e.Tuple.(*ssa.Lookup)
					return isL
				}))
				g2 := GuardOrPass(outer, nil, wait, []ssa.Instruction{goInstr}, EqC("b.err == nil", FieldVP(kcl+".cacheBlock", "err", nil), NilV))
				r.Check(g1 && g2, "C03-R4", outer, "reuse only error-free entries", wait.Pos(), "refetch unless hit ∧ b.err==nil", "a cached entry that failed verification can be served again without refetching")
			}
		}
	}
	for _, f := range w.FuncsIn(kcl) {
		if strings.HasSuffix(w.Fset.Position(f.Pos()).Filename, "_test.go") {
			continue
		}
		allInstrs(f, func(in ssa.Instruction) {
			c, ok := in.(*ssa.Call)
			if !ok {
				return
			}
			var dst ssa.Value
			switch CalleeName(c.Common()) {
			case "builtin.copy":
				dst = c.Call.Args[0]
			case "io.ReadFull", "io.ReadAtLeast":
				dst = c.Call.Args[1]
			}
			if dst == nil {
				return
			}
			if x, _, _, isS := SliceParts(dst); isS {
				dst = x
			}
			if IsFieldLoad(dst, kcl+".cacheBlock", "data") {
				r.Bad("C03-R7", f, "write into cacheBlock.data", in.Pos(), "a cached (already verified, possibly shared) block buffer is written to")
			}
		})
	}
	if fn := r.NeedFn("C03-R4", "(*"+kcl+".BlockCache).ReadAt"); fn != nil {
		gets := CallsIn(fn, "(*"+kcl+".BlockCache).Get")
		for _, c := range CallsIn(fn, "builtin.copy") {
			ok := len(gets) == 1
			if ok {
				g, _ := Guard(fn, gets[0].(ssa.Instruction), c.(ssa.Instruction), ErrNilC(gets[0]))
				x, _, _, isS := SliceParts(c.Common().Args[1])
				ok = g && isS && IsResultOfCall(Resolve1(x), gets[0].Value(), 0)
			}
			r.Check(ok, "C03-R4", fn, "copy(p, buf[off:])", c.Pos(), "only under Get err==nil, from the cached buffer", "bytes are copied to the caller although the cached fetch reported an error")
		}
	}

	// ---- R6
	r.Rule("C03-R6", "every consumer of KeepClient.Get's reader passes it on, reads to EOF with the error checked, or uses Close()'s error; KeepClient.ReadAt and collection segment reads go through the verified cache", 2)
	for _, fn := range w.ModuleFuncs() {
		if strings.HasSuffix(w.Fset.Position(fn.Pos()).Filename, "_test.go") {
			continue
		}
		for _, g := range CallsIn(fn, "(*"+kcl+".KeepClient).Get") {
			rd := readerUses(g)
			if pp := fn.Package().Pkg.Path(); pp != modPrefix+kcl && pp != modPrefix+arv {
				// outside the property's API surface (Keep client + collection reads): e.g. keepstore's remote proxy streams to a
				// client that verifies the hash itself; keep-rsync feeds PutHR, which verifies. Reported, not required.
				r.Info("C03-R6", fn, "reader of KeepClient.Get (other package)", g.Pos(), "consumer outside sdk/go/keepclient and sdk/go/arvados")
				continue
			}
			switch {
			case rd.returned:
				r.Ok("C03-R6", fn, "reader of KeepClient.Get", g.Pos(), "passed on to the caller")
			case rd.readAllChecked || rd.closeChecked:
				r.Ok("C03-R6", fn, "reader of KeepClient.Get", g.Pos(), "read to EOF with error checked / Close error used")
			default:
				r.Bad("C03-R6", fn, "reader of KeepClient.Get", g.Pos(), "the checksum verdict is never observed: the reader is neither read to EOF with its error checked nor is Close()'s error used (e.g. `defer rdr.Close()` after io.ReadFull)")
			}
		}
	}
	if fn := r.NeedFn("C03-R6", "("+arv+".storedSegment).ReadAt"); fn != nil {
		n := 0
		allInstrs(fn, func(in ssa.Instruction) {
			ci, ok := in.(ssa.CallInstruction)
			if !ok {
				return
			}
			nm := CalleeName(ci.Common())
			if ci.Common().IsInvoke() && bareName(nm) == "ReadAt" {
				n++
				r.Check(strings.Contains(nm, "fsBackend") || strings.Contains(nm, "keepClient"), "C03-R6", fn, "segment read", in.Pos(), "through the Keep client's ReadAt", "stored segment reads bypass the Keep client")
			}
		})
		if n == 0 {
			r.Bad("C03-R6", fn, "segment read", fn.Pos(), "no ReadAt call found")
		}
	}
}

type readerUse struct{ returned, readAllChecked, closeChecked bool }

// readerUses classifies how result 0 (the reader) of a KeepClient.Get call is consumed in its function.
func readerUses(g ssa.CallInstruction) readerUse {
	var ru readerUse
	var rdr ssa.Value
	for _, ref := range *g.Value().Referrers() {
		if e, ok := ref.(*ssa.Extract); ok && e.Index == 0 {
			rdr = e
		}
		if _, ok := ref.(*ssa.Return); ok {
			ru.returned = true // `return kc.Get(...)`
		}
	}
	if rdr == nil {
		return ru
	}
	var visit func(v ssa.Value)
	seen := map[ssa.Value]bool{}
	visit = func(v ssa.Value) {
		if seen[v] {
			return
		}
		seen[v] = true
		for _, ref := range *v.Referrers() {
			switch x := ref.(type) {
			case *ssa.Return:
				ru.returned = true
			case *ssa.MakeInterface:
				visit(x)
			case *ssa.ChangeInterface:
				visit(x)
			case *ssa.Phi:
				visit(x)
			case *ssa.Store:
				// stored in a variable/cell: follow loads of that cell
				if a, ok := x.Addr.(*ssa.Alloc); ok {
					for _, rr := range *a.Referrers() {
						if u, ok := rr.(*ssa.UnOp); ok && u.Op == token.MUL {
							visit(u)
						}
					}
				}
			case *ssa.Call:
				n := CalleeName(x.Common())
				switch {
				case (n == "io/ioutil.ReadAll" || n == "io.ReadAll" || n == "io.Copy") && errChecked(x):
					ru.readAllChecked = true
				case x.Common().IsInvoke() && bareName(n) == "Close" && x.Common().Value == v:
					if ErrUsed(x) {
						ru.closeChecked = true
					}
				}
			}
		}
	}
	visit(rdr)
	return ru
}

// errChecked: the call's error result is compared with nil or returned.
func errChecked(c *ssa.Call) bool {
	idx := ErrIndex(c.Common())
	if idx < 0 {
		return false
	}
	var ev ssa.Value
	if c.Common().Signature().Results().Len() == 1 {
		ev = c
	} else {
		for _, ref := range *c.Referrers() {
			if e, ok := ref.(*ssa.Extract); ok && e.Index == idx {
				ev = e
			}
		}
	}
	if ev == nil {
		return false
	}
	for _, ref := range *ev.Referrers() {
		switch ref.(type) {
		case *ssa.BinOp, *ssa.Return, *ssa.Phi, *ssa.Store:
			return true
		}
	}
	return false
}
