package main

import (
	"strings"

	"golang.org/x/tools/go/ssa"
)

// c03Delivered (C03-R8): what HashCheckingReader.Read hands to its caller is what it hashed, and a collection
// segment read turns a result into io.EOF only when the verified read succeeded.
func c03Delivered(r *R) {
	const rule = "C03-R8"
	r.Rule(rule, "HashCheckingReader.Read feeds exactly p[:n] of each underlying read into the hash before returning it; storedSegment.ReadAt substitutes io.EOF for the result of the verified read only when that read returned nil", 2)
	if fn := r.NeedFn(rule, "("+kcl+".HashCheckingReader).Read"); fn != nil {
		var rd ssa.CallInstruction
		for _, c := range CallsMatching(fn, func(n string, c *ssa.CallCommon) bool { return c.IsInvoke() && bareName(n) == "Read" }) {
			rd = c
		}
		var hw ssa.CallInstruction
		for _, c := range CallsMatching(fn, func(n string, c *ssa.CallCommon) bool { return c.IsInvoke() && bareName(n) == "Write" }) {
			x, lo, hi, isS := SliceParts(c.Common().Args[0])
			if rd != nil && isS && lo == nil && hi != nil && same(x, paramOf(fn, "p")) && IsResultOfCall(Resolve1(hi), rd.Value(), 0) {
				hw = c
			}
		}
		if rd == nil || hw == nil {
			r.Bad(rule, fn, "Hash.Write(p[:n])", fn.Pos(), "the bytes delivered by Read are not (all) fed into the hash: data that was never hashed can pass the final checksum test")
		} else {
			ok := true
			for _, ret := range Returns(fn) {
				// every path from the read to the return hashes p[:n] or has n <= 0
				if !GuardOrPass(fn, rd.(ssa.Instruction), ret, []ssa.Instruction{hw.(ssa.Instruction)}, LeC("n <= 0", ResultVP(rd.Value(), 0), ConstIntVP(0))) {
					ok = false
				}
			}
			r.Check(ok, rule, fn, "Hash.Write(p[:n])", hw.Pos(), "on every path that delivered bytes", "Read can return bytes it did not hash")
		}
	}
	if fn := r.NeedFn(rule, "("+arv+".storedSegment).ReadAt"); fn != nil {
		n := 0
		for _, c := range CallsMatching(fn, func(nm string, c *ssa.CallCommon) bool { return bareName(nm) == "ReadAt" && c.IsInvoke() }) {
			// places where io.EOF enters the returned error after this call
			for _, ret := range Returns(fn) {
				if len(ret.Results) < 2 {
					continue
				}
				top := ret.Results[1]
				for _, leaf := range returnOperand(ret, top) {
					if leaf == nil {
						continue
					}
					if g, ok := LoadedGlobal(stripIface(leaf)); !ok || g != "io.EOF" {
						continue
					}
					in, ok := leaf.(ssa.Instruction)
					if !ok || !(c.Block() == in.Block() && Before(c.(ssa.Instruction), in) || c.Block() != in.Block() && Precedes(c, in)) {
						continue // the EOF of the bounds test before any read
					}
					n++
					g, _ := Guard(fn, c.(ssa.Instruction), in, ErrNilC(c))
					r.Check(g, rule, fn, "err = io.EOF after kc.ReadAt", in.Pos(), "only when the verified read returned nil", "a failed (e.g. BadChecksum) block read is turned into io.EOF: the file reads as silently truncated")
				}
			}
		}
		if n == 0 && strings.Contains(fn.String(), "storedSegment") {
			r.Info(rule, fn, "err = io.EOF after kc.ReadAt", fn.Pos(), "no EOF substitution after the read in this form")
		}
	}
}
