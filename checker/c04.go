package main

import (
	"strings"

	"golang.org/x/tools/go/ssa"
)

func init() {
	register("C04", []string{"./services/keepstore"}, runC04)
}

const bpLoc = uvT + ".blockPath(param:v,param:loc)"

// isBlockPath: canonical form is a blockPath(...) call.
func isBlockPath(v ssa.Value) bool {
	return strings.HasPrefix(Canon(v), uvT+".blockPath(")
}

// lockfileOn finds, in fn, the v.lockfile(f) call whose f was opened (OpenFile) on the path with canonical form pathCanon.
func lockfileOn(fn *ssa.Function, pathCanon string) (lock ssa.CallInstruction, open ssa.CallInstruction) {
	for _, l := range CallsIn(fn, uvT+".lockfile") {
		if _, isCall := l.(*ssa.Call); !isCall {
			continue
		}
		f := CallArgs(l.Common())[0]
		c, idx := ResultOf(Resolve1(f))
		if c == nil || idx != 0 || CalleeName(c.Common()) != owsT+".OpenFile" {
			continue
		}
		if Canon(CallArgs(c.Common())[0]) == pathCanon {
			return l, c
		}
	}
	return nil, nil
}

// heldThrough: the flock taken by `lock` is released only by a deferred
// unlockfile (no explicit unlockfile/Close call on the way to target).
func flockHeldAt(fn *ssa.Function, lock ssa.CallInstruction, target ssa.Instruction) bool {
	f := CallArgs(lock.Common())[0]
	avoid := map[ssa.Instruction]bool{}
	allInstrs(fn, func(in ssa.Instruction) {
		c, ok := in.(*ssa.Call)
		if !ok {
			return
		}
		n := CalleeName(c.Common())
		if (n == uvT+".unlockfile" && same(CallArgs(c.Common())[0], f)) || (n == "(*os.File).Close" && same(c.Call.Args[0], f)) {
			avoid[in] = true
		}
	})
	if len(avoid) == 0 {
		return true
	}
	// target must not be reachable from lock through an explicit unlock/close
	for a := range avoid {
		if reachAvoiding(lock.(ssa.Instruction), a, nil) && reachAvoiding(a, target, nil) {
			return false
		}
	}
	return true
}

func ttlVP(v ssa.Value) bool {
	return strings.Contains(Canon(v), "BlobSigningTTL")
}

func runC04(r *R) {
	w := r.W
	r.Explain = "Structural necessary conditions of C04 on the Directory driver and trash paths: " +
		"(R1) UnixVolume.Trash removes/renames only after flock(block file) then a fresh Stat then NOT age<TTL; (R2) only when writable and BlobTrash; " +
		"(R3) Touch sets the time by path under the same flock, with time.Now(); (R4) TrashItem trashes only when request age ≥ TTL, stored mtime == requested mtime, BlobTrash on; " +
		"(R5) Volume.Trash is called only from TrashItem and handleDELETE (admin + BlobTrash); (R6) EmptyTrash removes only names matching the trash pattern whose embedded deadline has passed; " +
		"(R7) every remove/rename in the driver is one of temp cleanup, Trash, EmptyTrash, Untrash(trash-named source); (R9) whatever is renamed onto a block path has just been given a current timestamp; " +
		"(R10) every rename onto / away from / removal of / timestamping of a block path happens under flock on a descriptor opened on that path; (R11) Trash deletes outright only when BlobTrashLifetime == 0 and otherwise renames into the trash, refuses only on read-only volumes or with trash disabled, and Untrash reports not-found only when no trashed copy is present. " +
		"flock(2) then serialises Touch/Trash/WriteBlock critical sections; interleavings themselves are not executed."
	r.NotDec = []string{"interleavings as such (argued from flock semantics)", "trash-lifetime arithmetic", "S3/Azure drivers (outside the property's quantifier)"}
	r.Assume = []string{"flock(2) LOCK_EX excludes other holders on the same inode", "rename(2)/unlink(2) semantics", "time.Since/time.Now are the wall clock"}

	trashFn := r.W.Fn(uvT + ".Trash")
	// ---- R1 + R2
	r.Rule("C04-R1", "UnixVolume.Trash: every Remove/Rename of the block path passes flock(OpenFile(p)) → Stat(p) after the lock → NOT time.Since(fi.ModTime()) < BlobSigningTTL", 1)
	r.Rule("C04-R2", "UnixVolume.Trash: filesystem changes only when NOT ReadOnly and BlobTrash", 1)
	if fn := r.NeedFn("C04-R1", uvT+".Trash"); fn != nil {
		targets := CallsIn(fn, owsT+".Remove", owsT+".Rename", "os.Remove", "os.Rename", "os.RemoveAll")
		for _, t := range targets {
			p := CallArgs(t.Common())[0]
			pc := Canon(p)
			in := t.(ssa.Instruction)
			name := "call " + bareName(CalleeName(t.Common())) + "(p)"
			if pc != bpLoc {
				r.Bad("C04-R1", fn, name, t.Pos(), "Trash removes/renames something other than blockPath(loc): "+pc)
				continue
			}
			lock, _ := lockfileOn(fn, pc)
			if lock == nil {
				r.Bad("C04-R1", fn, name, t.Pos(), "no lockfile(f) with f opened on the same path")
				continue
			}
			gl, _ := Guard(fn, lock.(ssa.Instruction), in, ErrNilC(lock))
			okLock := gl && Precedes(lock, in) && flockHeldAt(fn, lock, in)
			// fresh Stat after lock
			var stat ssa.CallInstruction
			for _, s := range CallsIn(fn, owsT+".Stat", "os.Stat", "os.Lstat") {
				if Canon(CallArgs(s.Common())[0]) == pc && Before(lock.(ssa.Instruction), s.(ssa.Instruction)) && Precedes(s, in) {
					stat = s
				}
			}
			if stat == nil {
				r.Bad("C04-R1", fn, name, t.Pos(), "no Stat of the same path after the flock and before the removal")
				continue
			}
			gs, _ := Guard(fn, stat.(ssa.Instruction), in, ErrNilC(stat))
			ga, _ := Guard(fn, stat.(ssa.Instruction), in, GeC("time.Since(fi.ModTime()) < BlobSigningTTL", func(v ssa.Value) bool {
				c, ok := Resolve1(v).(*ssa.Call)
				if !ok || CalleeName(c.Common()) != "time.Since" {
					return false
				}
				mt, ok := Resolve1(c.Call.Args[0]).(*ssa.Call)
				if !ok || !strings.HasSuffix(CalleeName(mt.Common()), "FileInfo).ModTime") {
					return false
				}
				return IsResultOfCall(Resolve1(mt.Common().Value), stat.Value(), 0)
			}, ttlVP))
			r.Check(okLock && gs && ga, "C04-R1", fn, name, t.Pos(),
				"under flock(OpenFile(p)); Stat(p) after lock; guarded by NOT age<TTL of that Stat",
				"removal not dominated by flock → fresh Stat → TTL test (lock="+boolS(okLock)+" staterr="+boolS(gs)+" ttl="+boolS(ga)+")")
			g1, _ := Guard(fn, nil, in, FalseC("v.volume.ReadOnly", FieldVP("sdk/go/arvados.Volume", "ReadOnly", nil)))
			g2, _ := Guard(fn, nil, in, TrueC("BlobTrash", CanonHas("BlobTrash{")))
			r.Check(g1 && g2, "C04-R2", fn, name, t.Pos(), "guarded by !ReadOnly and BlobTrash", "removal reachable on a read-only volume or with BlobTrash off")
		}
	}

	// ---- R3
	touchRule(r, "C04-R3")

	// ---- R4
	r.Rule("C04-R4", "TrashItem: Volume.Trash only when NOT age(request mtime)<TTL, stored Mtime == requested BlockMtime (same volume, err nil), BlobTrash on; Lookup(uuid, needWrite=true)", 1)
	if fn := r.NeedFn("C04-R4", ks+".TrashItem"); fn != nil {
		for _, t := range CallsMatching(fn, func(n string, c *ssa.CallCommon) bool { return w.IsMethodOfIface(c, ks+".Volume", "Trash") }) {
			in := t.(ssa.Instruction)
			vol := rootBase(CallRecv(t.Common()))
			var mt ssa.CallInstruction
			for _, m := range CallsMatching(fn, func(n string, c *ssa.CallCommon) bool { return w.IsMethodOfIface(c, ks+".Volume", "Mtime") }) {
				if same(rootBase(CallRecv(m.Common())), vol) && Precedes(m, in) {
					mt = m
				}
			}
			if mt == nil {
				r.Bad("C04-R4", fn, "call Volume.Trash", t.Pos(), "no dominating Mtime() on the same volume")
				continue
			}
			sameLoc := SameCanon(CallArgs(mt.Common())[0], CallArgs(t.Common())[0])
			gErr, _ := Guard(fn, mt.(ssa.Instruction), in, ErrNilC(mt))
			gEq, _ := Guard(fn, mt.(ssa.Instruction), in, EqC("BlockMtime == mtime.UnixNano()", CanonHas("TrashRequest.BlockMtime{"), func(v ssa.Value) bool {
				c, ok := Resolve1(v).(*ssa.Call)
				return ok && CalleeName(c.Common()) == "(time.Time).UnixNano" && IsResultOfCall(Resolve1(c.Call.Args[0]), mt.Value(), 0)
			}))
			gAge, _ := Guard(fn, nil, in, GeC("time.Since(reqMtime) < TTL", func(v ssa.Value) bool {
				c, ok := Resolve1(v).(*ssa.Call)
				if !ok || CalleeName(c.Common()) != "time.Since" {
					return false
				}
				u, ok := Resolve1(c.Call.Args[0]).(*ssa.Call)
				return ok && CalleeName(u.Common()) == "time.Unix" && strings.Contains(Canon(u.Call.Args[1]), "BlockMtime")
			}, ttlVP))
			gBT, _ := Guard(fn, nil, in, TrueC("BlobTrash", CanonHas("BlobTrash{")))
			r.Check(sameLoc && gErr && gEq && gAge && gBT, "C04-R4", fn, "call Volume.Trash", t.Pos(),
				"guarded by age≥TTL, Mtime err nil, stored mtime == requested, BlobTrash",
				"trash reachable without (loc="+boolS(sameLoc)+" mtimeErr="+boolS(gErr)+" mtimeEq="+boolS(gEq)+" age="+boolS(gAge)+" blobTrash="+boolS(gBT)+")")
		}
		for _, l := range CallsIn(fn, "(*"+ks+".RRVolumeManager).Lookup") {
			b, ok := ConstBool(CallArgs(l.Common())[1])
			r.Check(ok && b, "C04-R4", fn, "Lookup(uuid, needWrite)", l.Pos(), "needWrite is constant true", "trash may be sent to a read-only mount")
		}
	}

	// ---- R5
	r.Rule("C04-R5", "Volume.Trash callers: only TrashItem and handleDELETE; the latter under canDelete(tok) and BlobTrash, over AllWritable()", 2)
	for _, fn := range w.FuncsIn(ks) {
		for _, t := range CallsMatching(fn, func(n string, c *ssa.CallCommon) bool { return w.IsMethodOfIface(c, ks+".Volume", "Trash") }) {
			root := fnShort(rootFn(fn))
			switch root {
			case ks + ".TrashItem":
				r.Ok("C04-R5", fn, "call Volume.Trash", t.Pos(), "TrashItem (see R4)")
			case "(*" + ks + ".router).handleDELETE":
				in := t.(ssa.Instruction)
				g1, _ := Guard(fn, nil, in, TrueC("canDelete(tok)", CallVP("(*"+ks+".router).canDelete")))
				g2, _ := Guard(fn, nil, in, TrueC("BlobTrash", CanonHas("BlobTrash{")))
				r.Check(g1 && g2, "C04-R5", fn, "call Volume.Trash", t.Pos(), "guarded by canDelete and BlobTrash", "DELETE reaches Trash without admin check or with BlobTrash off")
			default:
				r.Bad("C04-R5", fn, "call Volume.Trash", t.Pos(), "new caller of Volume.Trash outside the guarded trash paths")
			}
		}
	}

	// ---- R6
	r.Rule("C04-R6", "EmptyTrash: Remove(path) only when path matches <32hex>.trash.<deadline>$ (3 groups) and NOT deadline > now, deadline parsed from group 2", 2)
	if lit, ok := w.GlobalRegexLiteral(ks + ".unixTrashLocRegexp"); !ok {
		r.addS("C04-R6", ks+".unixTrashLocRegexp", "regex literal", "-", Undecided, "initialiser not found")
	} else {
		r.addS("C04-R6", ks+".unixTrashLocRegexp", "regex literal", "-", okIf(regexCanon(lit) == regexCanon(`/([0-9a-f]{32})\.trash\.(\d+)$`)), "literal "+lit+" must denote /([0-9a-f]{32})\\.trash\\.(\\d+)$")
	}
	if fn := r.NeedFn("C04-R6", uvT+".EmptyTrash"); fn != nil {
		n := 0
		for _, f := range append([]*ssa.Function{fn}, Closures(fn)...) {
			for _, t := range CallsIn(f, owsT+".Remove", "os.Remove", "os.RemoveAll") {
				n++
				in := t.(ssa.Instruction)
				path := CallArgs(t.Common())[0]
				var fsm, pi *ssa.Call
				for _, c := range CallsIn(f, "(*regexp.Regexp).FindStringSubmatch") {
					g, _ := LoadedGlobal(c.Common().Args[0])
					if g == ks+".unixTrashLocRegexp" && same(c.Common().Args[1], path) {
						fsm, _ = c.(*ssa.Call)
					}
				}
				for _, c := range CallsIn(f, "strconv.ParseInt") {
					if fsm != nil && Canon(c.Common().Args[0]) == Canon(fsm)+"[2:int]" {
						pi, _ = c.(*ssa.Call)
					}
				}
				if fsm == nil || pi == nil {
					r.Bad("C04-R6", f, "call Remove(path)", t.Pos(), "no FindStringSubmatch(unixTrashLocRegexp, path) / ParseInt(matches[2]) for the removed path")
					continue
				}
				g3, _ := Guard(f, fsm, in, EqC("len(matches)==3", func(v ssa.Value) bool {
					c, ok := Resolve1(v).(*ssa.Call)
					return ok && CalleeName(c.Common()) == "builtin.len" && same(c.Call.Args[0], fsm)
				}, ConstIntVP(3)))
				gE, _ := Guard(f, pi, in, ErrNilC(pi))
				gD, _ := Guard(f, pi, in, GeC("now < deadline", func(v ssa.Value) bool {
					c, ok := Resolve1(v).(*ssa.Call)
					return ok && CalleeName(c.Common()) == "(time.Time).Unix" && isTimeNow(c.Call.Args[0])
				}, ResultVP(pi, 0)))
				r.Check(g3 && gE && gD && Precedes(fsm, in) && Precedes(pi, in), "C04-R6", f, "call Remove(path)", t.Pos(),
					"guarded by 3-group trash-name match, ParseInt ok, NOT deadline>now", "trash removal not guarded by (match="+boolS(g3)+" parse="+boolS(gE)+" deadline="+boolS(gD)+")")
			}
		}
		if n == 0 {
			r.Bad("C04-R6", fn, "call Remove", fn.Pos(), "EmptyTrash removes nothing (anchor moved)")
		}
	}

	c04Conditions(r)

	// ---- R7, R9, R10 over every function of unix_volume.go
	r.Rule("C04-R7", "unix_volume.go deleters/renamers: only temp cleanup in WriteBlock, Trash (R1), EmptyTrash (R6), Untrash (source named <loc>.trash.*, destination blockPath(loc))", 4)
	r.Rule("C04-R9", "every Rename onto a block path is preceded by os.Chtimes(source, time.Now()) == nil (an acknowledged PUT is never later represented by an older timestamp)", 2)
	r.Rule("C04-R10", "every Rename onto/away from, Remove of, or Chtimes of a block path is performed under flock on a descriptor opened on that block path (absent file = nothing to lock)", 3)
	for _, fn := range w.FuncsIn(ks) {
		if w.fileOf(fn) != "unix_volume.go" {
			continue
		}
		root := fnShort(rootFn(fn))
		if strings.HasPrefix(fnShort(fn), owsT+".") {
			continue // the os wrappers themselves
		}
		allInstrs(fn, func(in ssa.Instruction) {
			ci, ok := in.(ssa.CallInstruction)
			if !ok {
				return
			}
			name := CalleeName(ci.Common())
			a := CallArgs(ci.Common())
			switch name {
			case owsT + ".Remove", "os.Remove", "os.RemoveAll", "syscall.Unlink":
				switch root {
				case uvT + ".WriteBlock":
					r.Check(strings.HasPrefix(Canon(a[0]), "(*os.File).Name("), "C04-R7", fn, "Remove(tmp)", in.Pos(), "temp-file cleanup", "WriteBlock removes a non-temp path")
				case uvT + ".Trash", uvT + ".EmptyTrash":
					r.Ok("C04-R7", fn, "Remove", in.Pos(), "covered by R1/R6")
				default:
					r.Bad("C04-R7", fn, "Remove", in.Pos(), "new deleter in the Directory driver outside WriteBlock/Trash/EmptyTrash")
				}
				if isBlockPath(a[0]) {
					checkUnderFlock(r, fn, ci, a[0], "Remove(blockPath)")
				}
			case owsT + ".Rename", "os.Rename", "syscall.Rename":
				src, dst := a[0], a[1]
				switch root {
				case uvT + ".WriteBlock":
					r.Check(strings.HasPrefix(Canon(src), "(*os.File).Name(") && Canon(dst) == bpLoc, "C04-R7", fn, "Rename(tmp, blockPath(loc))", in.Pos(), "publish", "unexpected rename in WriteBlock")
				case uvT + ".Trash":
					r.Check(Canon(src) == bpLoc && strings.Contains(Canon(dst), ".trash."), "C04-R7", fn, "Rename(p, p.trash.N)", in.Pos(), "trash", "unexpected rename in Trash")
				case uvT + ".Untrash":
					// source must be a directory entry whose name has prefix loc+".trash."
					okSrc := strings.Contains(Canon(src), "FileInfo).Name(")
					g, _ := Guard(fn, nil, in, TrueC("HasPrefix(f.Name(), loc+\".trash.\")", func(v ssa.Value) bool {
						c, ok := Resolve1(v).(*ssa.Call)
						if !ok || CalleeName(c.Common()) != "strings.HasPrefix" {
							return false
						}
						return strings.Contains(Canon(c.Call.Args[0]), "FileInfo).Name(") && strings.Contains(Canon(c.Call.Args[1]), ".trash.") && strings.Contains(Canon(c.Call.Args[1]), "param:loc")
					}))
					r.Check(okSrc && g && Canon(dst) == bpLoc, "C04-R7", fn, "Rename(trashfile, blockPath(loc))", in.Pos(), "untrash of a <loc>.trash.* entry", "Untrash renames something that is not a <loc>.trash.* entry onto the block path")
				default:
					r.Bad("C04-R7", fn, "Rename", in.Pos(), "new rename in the Directory driver")
				}
				if isBlockPath(dst) && !strings.Contains(Canon(dst), ".trash.") {
					// R9: fresh timestamp on what becomes the block
					okTs := false
					for _, ch := range CallsIn(fn, "os.Chtimes") {
						ca := ch.Common().Args
						if Canon(ca[0]) == Canon(src) && isTimeNow(ca[1]) && isTimeNow(ca[2]) && Precedes(ch, in) && Before(ch.(ssa.Instruction), in) {
							g, _ := Guard(fn, ch.(ssa.Instruction), in, ErrNilC(ch))
							okTs = okTs || g
						}
					}
					r.Check(okTs, "C04-R9", fn, "Rename(src → blockPath)", in.Pos(), "source was given time.Now() by a checked os.Chtimes just before", "a file is published under a block path without a fresh timestamp: a PUT acknowledged earlier can now be garbage-collected before its TTL")
					if root == uvT+".Untrash" {
						// exception (one symbol): Untrash is an operator recovery action, not an acknowledged write/touch;
						// racing with Trash only affects the copy being recovered. Its timestamp obligation is R9.
						r.Info("C04-R10", fn, "Rename(→blockPath)", in.Pos(), "Untrash exempt from R10 (recovery path; see R9)")
					} else {
						checkUnderFlock(r, fn, ci, dst, "Rename(→blockPath)")
					}
				}
				if isBlockPath(src) && !strings.Contains(Canon(src), "FileInfo).Name(") {
					checkUnderFlock(r, fn, ci, src, "Rename(blockPath→)")
				}
			case "os.Chtimes":
				if isBlockPath(a[0]) && !strings.Contains(Canon(a[0]), "FileInfo).Name(") {
					checkUnderFlock(r, fn, ci, a[0], "Chtimes(blockPath)")
				}
			}
		})
	}
	_ = trashFn
}

// checkUnderFlock (C04-R10): the call is made while holding v.lockfile(f) on
// f = OpenFile(<same block path>); an OpenFile error arm that is "not exist"
// (nothing to lock) may bypass the lock.
func checkUnderFlock(r *R, fn *ssa.Function, ci ssa.CallInstruction, path ssa.Value, what string) {
	in := ci.(ssa.Instruction)
	lock, open := lockfileOn(fn, Canon(path))
	if lock == nil {
		r.Bad("C04-R10", fn, what, in.Pos(), "no flock on a descriptor opened on this block path in the function: a concurrent Trash that already examined the old file can take the newly published one")
		return
	}
	// every path from entry to the call passes either lock==nil-checked, or the open's not-exist arm
	cut := EdgeSet{}
	es, _ := IfEdges(fn, ErrNilC(lock).Match)
	cut.Add(es)
	es2, _ := IfEdges(fn, TrueC("os.IsNotExist(openErr)", func(v ssa.Value) bool {
		c, ok := Resolve1(v).(*ssa.Call)
		return ok && CalleeName(c.Common()) == "os.IsNotExist" && IsResultOfCall(Resolve1(c.Call.Args[0]), open.Value(), 1)
	}).Match)
	cut.Add(es2)
	// the lock edge only counts if the lock call itself was executed: require lock's block to dominate its If (true by construction)
	okPath := !ReachFromEntry(fn, in, cut)
	r.Check(okPath && flockHeldAt(fn, lock, in), "C04-R10", fn, what, in.Pos(), "under flock(OpenFile(path)) (or the file did not exist)", "reachable without holding the flock of the block path")
}

func boolS(b bool) string {
	if b {
		return "ok"
	}
	return "MISSING"
}

// touchRule (C04-R3, C02-R8): UnixVolume.Touch succeeds only through a by-path Chtimes of the block under the file lock.
// For C02 the same shape is what makes "PUT of an already stored block is acknowledged" mean "the block is still at its
// path": a timestamp set through a descriptor would succeed on a file that a concurrent Trash has already unlinked.
func touchRule(r *R, rule string) {
	r.Rule(rule, "UnixVolume.Touch: success only via os.Chtimes(blockPath(loc), now, now) performed under flock on a descriptor opened on the same path; not when ReadOnly", 1)
	if fn := r.NeedFn(rule, uvT+".Touch"); fn != nil {
		chs := CallsIn(fn, "os.Chtimes")
		for _, ch := range chs {
			a := ch.Common().Args
			pc := Canon(a[0])
			lock, _ := lockfileOn(fn, pc)
			ok := pc == bpLoc && lock != nil && isTimeNow(a[1]) && isTimeNow(a[2])
			if ok {
				g, _ := Guard(fn, lock.(ssa.Instruction), ch.(ssa.Instruction), ErrNilC(lock))
				ok = g && Precedes(lock, ch) && flockHeldAt(fn, lock, ch.(ssa.Instruction))
			}
			gro, _ := Guard(fn, nil, ch.(ssa.Instruction), FalseC("ReadOnly", FieldVP("sdk/go/arvados.Volume", "ReadOnly", nil)))
			r.Check(ok && gro, rule, fn, "os.Chtimes(p, now, now)", ch.Pos(), "by path, under flock(OpenFile(p)), time.Now()", "timestamp update is not by-path under the file lock with the current time")
		}
		for _, ret := range Returns(fn) {
			if !MaybeSuccess(fn, ret) {
				continue
			}
			// error operand must be the result of the Chtimes call
			ok := true
			for _, v := range returnOperand(ret, ret.Results[0]) {
				c, _ := ResultOf(v)
				if c == nil || CalleeName(c.Common()) != "os.Chtimes" || Canon(c.Call.Args[0]) != bpLoc {
					ok = false
				}
			}
			r.Check(ok, rule, fn, "return (maybe nil)", ret.Pos(), "success is exactly os.Chtimes(blockPath(loc))'s result", "Touch can report success without a by-path Chtimes of the block (a renamed/unlinked inode would be touched silently)")
		}
	}

}
