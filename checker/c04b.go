package main

import (
	"go/token"
	"strings"

	"golang.org/x/tools/go/ssa"
)

// c04Conditions (C04-R11): the refusals and the delete-vs-trash decision of the Directory driver's Trash/Untrash
// are taken under exactly their documented conditions.
func c04Conditions(r *R) {
	const rule = "C04-R11"
	r.Rule(rule, "UnixVolume.Trash deletes outright only when BlobTrashLifetime == 0 and otherwise renames to <path>.trash.<deadline>; MethodDisabledError only for a read-only volume or disabled trash; Untrash reports ErrNotExist only when the directory holds no trashed copy of the block", 2)
	retGlobal := func(fn *ssa.Function, name string) []*ssa.Return {
		var out []*ssa.Return
		for _, ret := range Returns(fn) {
			for _, v := range returnOperand(ret, ret.Results[len(ret.Results)-1]) {
				if v == nil {
					continue
				}
				if g, ok := LoadedGlobal(stripIface(v)); ok && g == name {
					out = append(out, ret)
				}
			}
		}
		return out
	}
	fieldNamed := func(name string) VP {
		return func(v ssa.Value) bool {
			_, f, _, ok := LoadedField(v)
			return ok && f == name
		}
	}
	readOnly := TrueC("v.volume.ReadOnly", func(v ssa.Value) bool {
		t, f, _, ok := LoadedField(v)
		return ok && f == "ReadOnly" && strings.HasSuffix(t, "arvados.Volume")
	})
	trashOff := FalseC("cluster.Collections.BlobTrash", fieldNamed("BlobTrash"))
	if fn := r.NeedFn(rule, "(*"+ks+".UnixVolume).Trash"); fn != nil {
		lifetime0 := EqC("BlobTrashLifetime == 0", fieldNamed("BlobTrashLifetime"), ConstIntVP(0))
		for _, c := range CallsMatching(fn, func(n string, _ *ssa.CallCommon) bool { return bareName(n) == "Remove" }) {
			g, _ := Guard(fn, nil, c.(ssa.Instruction), lifetime0)
			r.Check(g, rule, fn, "Remove(blockPath)", c.Pos(), "only when BlobTrashLifetime == 0", "Trash deletes the block outright although a trash lifetime is configured: it cannot be brought back with untrash")
		}
		n := 0
		for _, c := range CallsMatching(fn, func(n string, _ *ssa.CallCommon) bool { return bareName(n) == "Rename" }) {
			n++
			g, _ := Guard(fn, nil, c.(ssa.Instruction), NeqC("BlobTrashLifetime != 0", fieldNamed("BlobTrashLifetime"), ConstIntVP(0)))
			r.Check(g, rule, fn, "Rename(blockPath → .trash.<deadline>)", c.Pos(), "when a trash lifetime is configured", "the trash rename is not what happens when a trash lifetime is configured")
		}
		if n == 0 {
			r.Bad(rule, fn, "Rename(blockPath → .trash.<deadline>)", fn.Pos(), "Trash no longer renames the block into the trash")
		}
		for _, ret := range retGlobal(fn, ks+".MethodDisabledError") {
			ok := GuardOrPass(fn, nil, ret, nil, readOnly, trashOff)
			r.Check(ok, rule, fn, "return MethodDisabledError", ret.Pos(), "only for a read-only volume or BlobTrash off", "Trash refuses on a writable volume with trash enabled")
		}
	}
	if fn := r.NeedFn(rule, "(*"+ks+".UnixVolume).Untrash"); fn != nil {
		for _, ret := range retGlobal(fn, ks+".MethodDisabledError") {
			g, _ := Guard(fn, nil, ret, readOnly)
			r.Check(g, rule, fn, "return MethodDisabledError", ret.Pos(), "only for a read-only volume", "Untrash refuses on a writable volume: a trashed block cannot be brought back")
		}
		for _, ret := range retGlobal(fn, "os.ErrNotExist") {
			ok := GuardOrPass(fn, nil, ret, nil,
				IntC("len(files) == 0", lenVP, token.EQL, 0, true),
				FalseC("foundTrash", func(v ssa.Value) bool {
					_, isPhi := Strip(v).(*ssa.Phi)
					return isPhi && typeString(v.Type()) == "bool"
				}))
			r.Check(ok, rule, fn, "return os.ErrNotExist", ret.Pos(), "only when the directory is empty or holds no <loc>.trash.* file", "Untrash reports 'not found' although a trashed copy may be present")
		}
	}
}
