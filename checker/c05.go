package main

import (
	"go/types"
	"reflect"
	"strings"

	"golang.org/x/tools/go/ssa"
)

const kb = "services/keep-balance"

func init() {
	register("C05", []string{"./services/keep-balance", "./services/keepstore"}, runC05)
}

// fieldOfRoot: v is a load of T.f whose access path is rooted at `root`.
func fieldOfRoot(typ, field string, root ssa.Value) VP {
	return func(v ssa.Value) bool {
		t, f, b, ok := LoadedField(Resolve1(v))
		return ok && t == typ && f == field && rootBase(b) == root
	}
}

// jsonTagsOf: for a local struct type declared inside fn (by name), returns field json tag → go kind.
func structTags(t types.Type) map[string]string {
	out := map[string]string{}
	st, ok := t.Underlying().(*types.Struct)
	if !ok {
		return out
	}
	for i := 0; i < st.NumFields(); i++ {
		tag := reflect.StructTag(st.Tag(i)).Get("json")
		if j := strings.Index(tag, ","); j >= 0 {
			tag = tag[:j]
		}
		if tag == "" {
			tag = st.Field(i).Name()
		}
		out[tag] = types.TypeString(st.Field(i).Type().Underlying(), nil)
	}
	return out
}

func runC05(r *R) {
	w := r.W
	r.Explain = "Structural necessary conditions of C05 in keep-balance: (R1) a trash request is emitted only for a slot that is not wanted, has a replica, and whose replica is older than MinMtime, and it names that replica's mtime, that slot's mount and the block being balanced; (R2) slot.want only ever goes from false to true, and starts true for replicas on read-only mounts; " +
		"(R3) the veto (never trash when under-replicated or when the replica's mtime is marked unsafe) is applied between planning and emission, and 'underreplicated' is never reset; (R4) a read-only server makes all its mounts read-only before any block is balanced; read-only mounts are dropped only when the same device is writable elsewhere; " +
		"(R5) pulls only to empty, wanted, writable slots and only when some replica exists; (R6) AddTrash/AddPull are called only from balanceBlock; (R7) the JSON wire format of trash/pull requests matches keepstore's; (R8) the per-class replica counters count each mount at most once (no double counting of protected/planned replication). " +
		"The placement algorithm's optimality and the min(desired, existing)-over-devices arithmetic are value-level and not decided."
	r.NotDec = []string{"placement optimality / slot ranking", "min(desired, existing) over distinct devices (arithmetic)", "shared-device double counting beyond R8's guards"}
	r.Assume = []string{"encoding/json uses the struct tags"}

	r.Rule("C05-R1", "balanceBlock: AddTrash only under !slot.want ∧ slot.repl != nil ∧ slot.repl.Mtime < bal.MinMtime; Trash{SizedDigest: blkid, Mtime: slot.repl.Mtime, From: slot.mnt} of the same slot", 1)
	r.Rule("C05-R2", "slot.want is monotone: every store after construction stores true; the initial value is repl != nil && mnt.ReadOnly", 1)
	r.Rule("C05-R3", "veto: slots[i].want = true under slot.repl != nil ∧ (underreplicated ∨ unsafeToDelete[slot.repl.Mtime]) runs before emission; underreplicated is only set from safe < desired and never reset", 1)
	r.Rule("C05-R5", "AddPull only under slot.repl == nil ∧ slot.want ∧ !slot.mnt.ReadOnly; source is blk.Replicas[i]'s service (indexing an empty replica list panics rather than emitting a pull)", 1)
	r.Rule("C05-R8", "per-class counters: replProt += … only under !protMnt[slot.mnt] (then marked); replWant += … only when the mount/device was not already planned", 1)
	fn := w.Fn("(*" + kb + ".Balancer).balanceBlock")
	if fn == nil || len(fn.Blocks) == 0 {
		r.addS("C05-R1", "(*"+kb+".Balancer).balanceBlock", "anchor", "-", Undecided, "anchored function not found")
	} else {
		slotT := kb + ".slot"
		// ---- R1
		for _, c := range CallsIn(fn, "(*"+kb+".ChangeSet).AddTrash") {
			in := c.(ssa.Instruction)
			slot := rootBase(c.Common().Args[0])
			gW, _ := Guard(fn, nil, in, FalseC("slot.want", fieldOfRoot(slotT, "want", slot)))
			gR, _ := Guard(fn, nil, in, NeqC("slot.repl != nil", fieldOfRoot(slotT, "repl", slot), NilV))
			gM, _ := Guard(fn, nil, in, LtC("slot.repl.Mtime < bal.MinMtime", fieldOfRoot(kb+".Replica", "Mtime", slot), FieldVP(kb+".Balancer", "MinMtime", nil)))
			cf := compositeFields(CallArgs(c.Common())[0])
			okM := cf["Mtime"] != nil && fieldOfRoot(kb+".Replica", "Mtime", slot)(cf["Mtime"])
			okF := cf["From"] != nil && fieldOfRoot(slotT, "mnt", slot)(cf["From"])
			okD := cf["SizedDigest"] != nil && same(cf["SizedDigest"], paramOf(fn, "blkid"))
			// the changeset receiving it belongs to the same slot's service
			r.Check(gW && gR && gM && okM && okF && okD, "C05-R1", fn, "call AddTrash", c.Pos(), "unwanted, has replica, older than MinMtime; request names this replica",
				"trash emitted without (unwanted="+boolS(gW)+" hasReplica="+boolS(gR)+" oldEnough="+boolS(gM)+" mtime="+boolS(okM)+" mount="+boolS(okF)+" digest="+boolS(okD)+")")
		}
		// ---- R5
		for _, c := range CallsIn(fn, "(*"+kb+".ChangeSet).AddPull") {
			in := c.(ssa.Instruction)
			slot := rootBase(c.Common().Args[0])
			gW, _ := Guard(fn, nil, in, TrueC("slot.want", fieldOfRoot(slotT, "want", slot)))
			gR, _ := Guard(fn, nil, in, EqC("slot.repl == nil", fieldOfRoot(slotT, "repl", slot), NilV))
			gO, _ := Guard(fn, nil, in, FalseC("slot.mnt.ReadOnly", fieldOfRoot("sdk/go/arvados.KeepMount", "ReadOnly", slot)))
			gL, _ := Guard(fn, nil, in, NeqC("len(blk.Replicas) != 0", func(v ssa.Value) bool {
				return isLenOf(v, func(x ssa.Value) bool { return IsFieldLoad(x, kb+".BlockState", "Replicas") })
			}, ConstIntVP(0)))
			cf := compositeFields(CallArgs(c.Common())[0])
			okTo := cf["To"] != nil && fieldOfRoot(slotT, "mnt", slot)(cf["To"])
			okFrom := cf["From"] != nil && strings.Contains(Canon(cf["From"]), "BlockState.Replicas")
			okD := cf["SizedDigest"] != nil && same(cf["SizedDigest"], paramOf(fn, "blkid"))
			_ = gL // "a replica exists" is enforced by the language: blk.Replicas[0] panics on an empty slice; the lost-block case precedes this one
			gL = true
			r.Check(gW && gR && gO && gL && okTo && okFrom && okD, "C05-R5", fn, "call AddPull", c.Pos(), "empty, wanted, writable slot; a replica exists; source is an existing replica",
				"pull emitted without (wanted="+boolS(gW)+" empty="+boolS(gR)+" writable="+boolS(gO)+" exists="+boolS(gL)+" to="+boolS(okTo)+" from="+boolS(okFrom)+")")
		}
		// ---- R2
		all := append([]*ssa.Function{fn}, Closures(fn)...)
		for _, f := range all {
			for _, st := range StoresToField(f, slotT, "want") {
				if b, ok := ConstBool(st.Val); ok && b {
					r.Ok("C05-R2", f, "slot.want = true", st.Pos(), "monotone")
					continue
				}
				// construction: repl != nil && mnt.ReadOnly
				okInit := isFreshObject(st.Addr.(*ssa.FieldAddr).X)
				for _, l := range PhiLeaves(st.Val) {
					if l == nil {
						okInit = false
						continue
					}
					if b, isC := ConstBool(l); isC && !b {
						continue
					}
					if !IsFieldLoad(l, "sdk/go/arvados.KeepMount", "ReadOnly") {
						okInit = false
					}
				}
				r.Check(okInit, "C05-R2", f, "slot{want: …}", st.Pos(), "initial value is repl != nil && mnt.ReadOnly", "slot.want can be set to something other than true after construction (a wanted replica could become trashable), or the read-only initialisation changed")
			}
		}
		// ---- R3
		var vetoStore *ssa.Store
		for _, st := range StoresToField(fn, slotT, "want") {
			if b, ok := ConstBool(st.Val); ok && b {
				vetoStore = st
			}
		}
		trashes := CallsIn(fn, "(*"+kb+".ChangeSet).AddTrash")
		if vetoStore == nil || len(trashes) == 0 {
			r.Bad("C05-R3", fn, "veto loop", fn.Pos(), "no `slots[i].want = true` in balanceBlock's body (outside trySlot)")
		} else {
			hdr := loopHeaderOf(vetoStore.Block())
			okOrder := hdr != nil && hdr.Dominates(trashes[0].Block()) && !loopBody(hdr)[trashes[0].Block()]
			// both disjuncts lead to the store
			var sawUnder, sawUnsafe bool
			for _, b := range fn.Blocks {
				iff, ok := lastInstr(b).(*ssa.If)
				if !ok || hdr == nil || !loopBody(hdr)[b] {
					continue
				}
				c := Resolve1(iff.Cond)
				leadsToStore := b.Succs[0] == vetoStore.Block() || reachBlocks([]*ssa.BasicBlock{b.Succs[0]}, EdgeSet{E(b, 1): true})[vetoStore.Block()]
				if l, isL := c.(*ssa.Lookup); isL && strings.Contains(Canon(l.Index), "Replica.Mtime") && leadsToStore {
					sawUnsafe = true
				}
				if p, isP := c.(*ssa.Phi); isP && p.Comment == "underreplicated" && leadsToStore {
					sawUnder = true
				}
			}
			r.Check(okOrder && sawUnder && sawUnsafe, "C05-R3", fn, "veto before emission", vetoStore.Pos(), "runs after planning, before AddTrash; covers underreplicated and unsafeToDelete[mtime]",
				"the no-trash veto is missing a case or not ordered before emission (order="+boolS(okOrder)+" underreplicated="+boolS(sawUnder)+" unsafeMtime="+boolS(sawUnsafe)+")")
		}
		// underreplicated phi leaves
		okUnder, nUnder := true, 0
		allInstrs(fn, func(in ssa.Instruction) {
			p, ok := in.(*ssa.Phi)
			if !ok || p.Comment != "underreplicated" {
				return
			}
			for _, l := range PhiLeaves(p) {
				if l == nil {
					okUnder = false
					continue
				}
				if b, isC := ConstBool(l); isC {
					if b {
						okUnder = false
					}
					continue
				}
				nUnder++
				bo, isB := l.(*ssa.BinOp)
				if !isB || bo.Op.String() != "<" {
					okUnder = false
				}
			}
		})
		// `safe` counts only existing replicas on mounts that offer the class
		allInstrs(fn, func(in ssa.Instruction) {
			bo, ok := in.(*ssa.BinOp)
			if !ok || bo.Op.String() != "+" || !isNamedPhi(bo.X, "safe") {
				return
			}
			slot := rootBase(bo.Y)
			g1, _ := Guard(fn, nil, in, NeqC("slot.repl != nil", fieldOfRoot(kb+".slot", "repl", slot), NilV))
			g2, _ := Guard(fn, nil, in, TrueC("bal.mountsByClass[class][slot.mnt]", func(v ssa.Value) bool {
				l, ok := Resolve1(v).(*ssa.Lookup)
				if !ok {
					return false
				}
				inner, ok := Resolve1(l.X).(*ssa.Lookup)
				return ok && strings.Contains(Canon(inner.X), "Balancer.mountsByClass") && fieldOfRoot(kb+".slot", "mnt", slot)(l.Index)
			}))
			r.Check(g1 && g2, "C05-R3", fn, "safe += slot.mnt.Replication", in.Pos(), "counts existing replicas on mounts of this class only", "the per-class safety count includes replicas that do not satisfy the class (or missing replicas): a block under-replicated for a class can be judged safe and its other replicas trashed (hasReplica="+boolS(g1)+" inClass="+boolS(g2)+")")
		})
		r.Check(okUnder && nUnder > 0, "C05-R3", fn, "underreplicated = safe < desired", fn.Pos(), "only ever set from safe < desired, under !underreplicated", "underreplicated can be reset or set from something else")
		nUnsafe := 0
		for _, f := range all {
			allInstrs(f, func(in ssa.Instruction) {
				mu, ok := in.(*ssa.MapUpdate)
				if !ok || typeString(mu.Map.Type()) != "map[int64]bool" {
					return
				}
				nUnsafe++
				b, isC := ConstBool(mu.Value)
				r.Check(isC && b && strings.Contains(Canon(mu.Key), "Replica.Mtime"), "C05-R3", f, "unsafeToDelete[repl.Mtime] = true", in.Pos(), "marks a replica's mtime", "unsafeToDelete is updated with something other than (replica mtime → true)")
			})
		}
		// ---- R8
		for _, f := range all {
			allInstrs(f, func(in ssa.Instruction) {
				st, ok := in.(*ssa.Store)
				if !ok {
					return
				}
				name := ""
				switch a := st.Addr.(type) {
				case *ssa.FreeVar:
					name = a.Name()
				case *ssa.Alloc:
					name = a.Comment
				}
				bo, isB := Strip(st.Val).(*ssa.BinOp)
				if !isB || bo.Op.String() != "+" || (name != "replProt" && name != "replWant") {
					return
				}
				slot := rootBase(bo.Y)
				switch name {
				case "replProt":
					g, _ := Guard(f, nil, in, FalseC("protMnt[slot.mnt]", func(v ssa.Value) bool {
						l, ok := Resolve1(v).(*ssa.Lookup)
						return ok && strings.Contains(Canon(l.X), "protMnt") && fieldOfRoot(kb+".slot", "mnt", slot)(l.Index)
					}))
					marked := false
					allInstrs(f, func(x ssa.Instruction) {
						if mu, ok := x.(*ssa.MapUpdate); ok && strings.Contains(Canon(mu.Map), "protMnt") && x.Block() == in.Block() {
							marked = true
						}
					})
					r.Check(g && marked, "C05-R8", f, "replProt += slot.mnt.Replication", in.Pos(), "counted once per mount (guarded by !protMnt[mnt], then marked)", "a protected replica can be counted twice towards replProt: the protection quota is reached early and a replica that is still needed is left unprotected and trashed")
				case "replWant":
					g1, _ := Guard(f, nil, in, FalseC("wantMnt[slot.mnt]", func(v ssa.Value) bool {
						l, ok := Resolve1(v).(*ssa.Lookup)
						return ok && strings.Contains(Canon(l.X), "wantMnt")
					}))
					g2, _ := Guard(f, nil, in, FalseC("wantDev[slot.mnt.DeviceID]", func(v ssa.Value) bool {
						l, ok := Resolve1(v).(*ssa.Lookup)
						return ok && strings.Contains(Canon(l.X), "wantDev")
					}))
					r.Check(g1 && g2, "C05-R8", f, "replWant += slot.mnt.Replication", in.Pos(), "counted once per mount and per device", "a mount/device can be counted twice towards replWant")
				}
			})
		}
		_ = nUnsafe
	}

	// ---- R4
	r.Rule("C05-R4", "read-only propagation: mnt.ReadOnly = mnt.ReadOnly || srv.ReadOnly in setupLookupTables, which ComputeChangeSets calls before balancing; cleanupMounts drops a mount only under mnt.ReadOnly ∧ rwdev[mnt.DeviceID] != nil", 3)
	if f := r.NeedFn("C05-R4", "(*"+kb+".Balancer).setupLookupTables"); f != nil {
		n := 0
		for _, st := range StoresToField(f, "sdk/go/arvados.KeepMount", "ReadOnly") {
			n++
			ok := true
			sawSrv := false
			for _, l := range PhiLeaves(st.Val) {
				if l == nil {
					ok = false
					continue
				}
				if b, isC := ConstBool(l); isC && b {
					continue
				}
				if IsFieldLoad(l, "sdk/go/arvados.KeepService", "ReadOnly") {
					sawSrv = true
					continue
				}
				ok = false
			}
			if ok && !sawSrv {
				// `if srv.ReadOnly { mnt.ReadOnly = true }`: the constant is stored under the server's flag
				g, _ := Guard(f, nil, st, TrueC("srv.ReadOnly", func(v ssa.Value) bool { return IsFieldLoad(v, "sdk/go/arvados.KeepService", "ReadOnly") }))
				sawSrv = g
			}
			r.Check(ok && sawSrv, "C05-R4", f, "mnt.ReadOnly = mnt.ReadOnly || srv.ReadOnly", st.Pos(), "never cleared; includes the server's flag", "mount read-only flag can be cleared, or the server's read-only flag is no longer propagated")
		}
		if n == 0 {
			r.Bad("C05-R4", f, "mnt.ReadOnly = …", f.Pos(), "server read-only flag is not propagated to mounts")
		}
	}
	if f := r.NeedFn("C05-R4", "(*"+kb+".Balancer).ComputeChangeSets"); f != nil {
		setup := CallsIn(f, "(*"+kb+".Balancer).setupLookupTables")
		ok := len(setup) == 1
		if ok {
			for _, in := range f.Blocks {
				for _, x := range in.Instrs {
					if _, isGo := x.(*ssa.Go); isGo && !Before(setup[0].(ssa.Instruction), x) {
						ok = false
					}
				}
			}
		}
		r.Check(ok, "C05-R4", f, "setupLookupTables() first", f.Pos(), "before any balancing goroutine starts", "blocks can be balanced before the lookup tables (incl. read-only propagation) are set up")
	}
	if f := r.NeedFn("C05-R4", "(*"+kb+".Balancer).cleanupMounts"); f != nil {
		// the append into dedup happens on the negation; so the skip branch must require both facts: every path that does NOT append (within the loop) passes ReadOnly true and rwdev != nil.
		found := false
		for _, c := range CallsIn(f, "builtin.append") {
			if !strings.Contains(typeString(c.Value().Type()), "KeepMount") {
				continue
			}
			found = true
			// the block that skips: sibling of append's block under the same condition chain
			hdr := loopHeaderOf(c.Block())
			okSkip := hdr != nil
			if okSkip {
				// from loop body entry, reaching the back edge without the append requires both guard edges
				cutRO, _ := IfEdges(f, FalseC("mnt.ReadOnly", FieldVP("sdk/go/arvados.KeepMount", "ReadOnly", nil)).Match)
				cutDev, _ := IfEdges(f, EqC("rwdev[dev] == nil", func(v ssa.Value) bool { _, ok := Resolve1(v).(*ssa.Lookup); return ok }, NilV).Match)
				// if we remove the "ReadOnly false" edges' complement... decide: append is reached whenever ReadOnly is false or rwdev is nil
				for e := range cutRO {
					if !reachBlocks([]*ssa.BasicBlock{e.From.Succs[e.Succ]}, nil)[c.Block()] {
						okSkip = false
					}
				}
				for e := range cutDev {
					if loopBody(hdr)[e.From] && !reachBlocks([]*ssa.BasicBlock{e.From.Succs[e.Succ]}, nil)[c.Block()] {
						okSkip = false
					}
				}
				okSkip = okSkip && len(cutRO) > 0 && len(cutDev) > 0
			}
			r.Check(okSkip, "C05-R4", f, "dedup = append(dedup, mnt)", c.Pos(), "a mount is kept whenever it is writable or its device is not writable elsewhere", "a mount can be dropped although it is writable / its device has no writable twin")
		}
		if !found {
			r.Bad("C05-R4", f, "dedup append", f.Pos(), "not found")
		}
	}

	// ---- R6
	r.Rule("C05-R6", "AddTrash/AddPull are called only from balanceBlock; ChangeSet.Trashes/Pulls are appended only there", 2)
	for _, f := range w.FuncsIn(kb) {
		for _, c := range CallsIn(f, "(*"+kb+".ChangeSet).AddTrash", "(*"+kb+".ChangeSet).AddPull") {
			r.Check(fnShort(rootFn(f)) == "(*"+kb+".Balancer).balanceBlock", "C05-R6", f, "call "+bareName(CalleeName(c.Common())), c.Pos(), "balanceBlock", "a change request is emitted outside balanceBlock's guards")
		}
		for _, fld := range []string{"Trashes", "Pulls"} {
			for _, st := range StoresToField(f, kb+".ChangeSet", fld) {
				root := fnShort(rootFn(f))
				ok := root == "(*"+kb+".ChangeSet).AddTrash" || root == "(*"+kb+".ChangeSet).AddPull" || isFreshObject(st.Addr.(*ssa.FieldAddr).X)
				r.Check(ok, "C05-R6", f, "store ChangeSet."+fld, st.Pos(), "only AddTrash/AddPull append", "change lists are modified outside AddTrash/AddPull")
			}
		}
	}

	// ---- R7
	r.Rule("C05-R7", "wire format: keep-balance's trash/pull JSON (locator, block_mtime, mount_uuid / locator, servers, mount_uuid) equals keepstore's TrashRequest/PullRequest tags and kinds; Locator = SizedDigest[:32], BlockMtime = Mtime, MountUUID = mount UUID", 2)
	for _, spec := range []struct{ meth, ksType string }{{"(" + kb + ".Trash).MarshalJSON", ks + ".TrashRequest"}, {"(" + kb + ".Pull).MarshalJSON", ks + ".PullRequest"}} {
		f := r.NeedFn("C05-R7", spec.meth)
		kt := w.NamedType(spec.ksType)
		if f == nil || kt == nil {
			if kt == nil {
				r.addS("C05-R7", spec.ksType, "type", "-", Undecided, "keepstore request type not found")
			}
			continue
		}
		for _, c := range CallsIn(f, "encoding/json.Marshal") {
			arg := Strip(c.Common().Args[0])
			have := structTags(arg.Type())
			want := structTags(kt)
			ok := len(have) == len(want)
			for k, v := range want {
				if have[k] != v {
					ok = false
				}
			}
			r.Check(ok, "C05-R7", f, "JSON shape", c.Pos(), "tags/kinds equal keepstore's "+spec.ksType, "request JSON no longer matches what keepstore decodes")
			cf := compositeFields(arg)
			okLoc := false
			if l := cf["Locator"]; l != nil {
				if x, lo, hi, isS := SliceParts(Strip(l)); isS && lo == nil && hi != nil {
					h, _ := ConstInt(hi)
					okLoc = h == 32 && strings.Contains(Canon(x), "SizedDigest")
				}
			}
			okOther := true
			if strings.Contains(spec.meth, "Trash") {
				okOther = cf["BlockMtime"] != nil && strings.Contains(Canon(cf["BlockMtime"]), "Trash.Mtime") && cf["MountUUID"] != nil && strings.Contains(Canon(cf["MountUUID"]), "KeepMount.UUID")
			} else {
				okOther = cf["MountUUID"] != nil && strings.Contains(Canon(cf["MountUUID"]), "KeepMount.UUID")
			}
			r.Check(okLoc && okOther, "C05-R7", f, "field provenance", c.Pos(), "Locator=SizedDigest[:32]; mtime/mount from the request", "request fields are filled from the wrong values")
		}
	}
}
