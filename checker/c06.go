package main

import (
	"go/token"
	"strings"

	"golang.org/x/tools/go/ssa"
)

func init() {
	register("C06", []string{"./services/keep-balance", "./sdk/go/arvados", "./sdk/go/keepclient", "./services/keepstore"}, runC06)
}

func runC06(r *R) {
	w := r.W
	bal := "(*" + kb + ".Balancer)."
	r.Explain = "Structural necessary conditions of C06: (R1) Balancer.Run reaches CommitPulls/CommitTrash only after service discovery, mount discovery, both sanity checks and GetCurrentState each returned nil, and trash is not committed when pulls failed; ClearTrashLists sends empty lists; (R2) every error in GetCurrentState's goroutines reaches the errs channel and the function returns nil only when errs is empty after wg.Wait; replicas are added only from a successfully retrieved index; " +
		"(R3) the index parser returns entries only when it saw the blank terminator line and the scanner had no error, and malformed lines are errors; (R4) KeepClient.GetIndex accepts only bodies that are \"\\n\" or end in \"\\n\\n\"; (R5) keepstore's index handler writes the terminator only when every volume's IndexTo returned nil; " +
		"(R6) EachCollection returns nil only after the closing count check, and propagates every page/callback error; (R7) EachCollection leaves exact-timestamp mode only after an empty page or a timestamp change; (R8) the paging state machine: the three filter forms (advance: modified_at >= last.ModifiedAt ∧ uuid != last.UUID with the cursor moved; enter exact mode: modified_at = cursor ∧ uuid > last.UUID only after a non-empty page that did not get past the cursor; leave it: modified_at > cursor only from exact mode), the loop ends only after an empty page outside exact mode, only repeats of the previous item are skipped and the last delivered item is remembered. That these steps, composed, deliver every collection under arbitrary ties and concurrent modification is a history-level argument and NOT decided (R6–R8 are its structural prerequisites)."
	r.NotDec = []string{"completeness of the paging cursor over timestamp ties / concurrent modification", "index truncation at an arbitrary byte (covered only through the terminator requirement)"}
	r.Assume = []string{"bufio.Scanner yields lines in order"}

	// ---- R1
	r.Rule("C06-R1", "Balancer.Run: CommitPulls/CommitTrash only after DiscoverKeepServices, discoverMounts, CheckSanityEarly, GetCurrentState, CheckSanityLate (and ClearTrashLists when taken) returned nil; CommitTrash only if CommitPulls (when run) returned nil", 2)
	if fn := r.NeedFn("C06-R1", bal+"Run"); fn != nil {
		pre := []string{bal + "DiscoverKeepServices", "(*" + kb + ".KeepService).discoverMounts", bal + "CheckSanityEarly", bal + "GetCurrentState", bal + "CheckSanityLate"}
		mustDominate := map[string]bool{bal + "DiscoverKeepServices": true, bal + "CheckSanityEarly": true, bal + "GetCurrentState": true, bal + "CheckSanityLate": true}
		commits := CallsIn(fn, bal+"CommitPulls", bal+"CommitTrash")
		if len(commits) < 2 {
			r.Bad("C06-R1", fn, "commit calls", fn.Pos(), "CommitPulls/CommitTrash not found")
		}
		for _, cm := range commits {
			in := cm.(ssa.Instruction)
			cname := bareName(CalleeName(cm.Common()))
			for _, p := range pre {
				calls := CallsIn(fn, p)
				if len(calls) == 0 {
					r.Bad("C06-R1", fn, bareName(p)+" → "+cname, cm.Pos(), bareName(p)+" is never called before committing")
					continue
				}
				for _, pc := range calls {
					g, _ := Guard(fn, pc.(ssa.Instruction), in, ErrNilC(pc))
					dom := !mustDominate[p] || Precedes(pc, in)
					r.Check(g && dom, "C06-R1", fn, bareName(p)+" → "+cname, cm.Pos(), "precedes with err==nil", "changes can be committed although "+bareName(p)+" failed or was skipped")
				}
			}
			for _, pc := range CallsIn(fn, bal+"ClearTrashLists") {
				g, _ := Guard(fn, pc.(ssa.Instruction), in, ErrNilC(pc))
				r.Check(g, "C06-R1", fn, "ClearTrashLists → "+cname, cm.Pos(), "err==nil when taken", "changes can be committed although clearing stale trash lists failed")
			}
			if cname == "CommitTrash" {
				for _, pc := range CallsIn(fn, bal+"CommitPulls") {
					g, _ := Guard(fn, pc.(ssa.Instruction), in, ErrNilC(pc))
					r.Check(g, "C06-R1", fn, "CommitPulls → CommitTrash", cm.Pos(), "trash skipped if pulls failed", "trash lists are sent although sending pull lists failed")
				}
			}
		}
	}
	if fn := r.NeedFn("C06-R1", bal+"ClearTrashLists"); fn != nil {
		okEmpty := false
		for _, st := range StoresToField(fn, kb+".KeepService", "ChangeSet") {
			if al, ok := Strip(st.Val).(*ssa.Alloc); ok && al.Heap {
				// fresh &ChangeSet{} with no field stores
				n := 0
				for _, ref := range *al.Referrers() {
					if _, isFA := ref.(*ssa.FieldAddr); isFA {
						n++
					}
				}
				okEmpty = n == 0
			}
		}
		ct := CallsIn(fn, bal+"CommitTrash")
		r.Check(okEmpty && len(ct) == 1, "C06-R1", fn, "empty change sets before CommitTrash", fn.Pos(), "every service gets a fresh empty ChangeSet", "ClearTrashLists would send non-empty (stale or computed) trash lists")
	}

	// ---- R2
	r.Rule("C06-R2", "GetCurrentState: errors of IndexMount, addCollection and EachCollection each reach `errs`; nil return only when len(errs)==0 after wg.Wait(); AddReplicas only after IndexMount err==nil", 1)
	if fn := r.NeedFn("C06-R2", bal+"GetCurrentState"); fn != nil {
		// the error channel: the one GetCurrentState's failing return receives from (whatever it is called)
		errsName := "errs"
		for _, ret := range Returns(fn) {
			for _, v := range returnOperand(ret, ret.Results[len(ret.Results)-1]) {
				if u, ok := v.(*ssa.UnOp); ok && u.Op == token.ARROW {
					if ld, ok := Strip(u.X).(*ssa.UnOp); ok {
						if al, ok := ld.X.(*ssa.Alloc); ok && al.Comment != "" {
							errsName = al.Comment
						}
					}
				}
			}
		}
		isErrs := func(ch ssa.Value) bool {
			c := Canon(ch)
			return strings.Contains(c, "free:"+errsName) || strings.Contains(c, "."+errsName) || strings.HasSuffix(c, ":"+errsName)
		}
		sendsErr := func(cl *ssa.Function, from ssa.CallInstruction, errIdx int) bool {
			// some select/send on errs carries (a value derived from) this call's error
			found := false
			allInstrs(cl, func(in ssa.Instruction) {
				var vals []ssa.Value
				switch x := in.(type) {
				case *ssa.Send:
					if isErrs(x.Chan) {
						vals = append(vals, x.X)
					}
				case *ssa.Select:
					for _, st := range x.States {
						if st.Dir == 1 /* SendOnly */ && isErrs(st.Chan) {
							vals = append(vals, st.Send)
						}
					}
				}
				for _, v := range vals {
					if valueDerivesFromErr(v, from, errIdx) {
						found = true
					}
				}
				// or through a small reporting helper (`reportErr := func(e error) { select { case errs <- e: default: } }`)
				if c, isC := in.(*ssa.Call); isC && !c.Call.IsInvoke() {
					var f *ssa.Function
					if mc, ok := ResolveOnce(c.Call.Value).(*ssa.MakeClosure); ok {
						f, _ = mc.Fn.(*ssa.Function)
					} else {
						f = c.Call.StaticCallee()
					}
					if f != nil && len(f.Blocks) > 0 && len(f.Params) == len(c.Call.Args) {
						allInstrs(f, func(in2 ssa.Instruction) {
							var sent []ssa.Value
							switch x := in2.(type) {
							case *ssa.Send:
								if isErrs(x.Chan) {
									sent = append(sent, x.X)
								}
							case *ssa.Select:
								for _, st := range x.States {
									if st.Dir == 1 && isErrs(st.Chan) {
										sent = append(sent, st.Send)
									}
								}
							}
							for _, sv := range sent {
								for j, p := range f.Params {
									if Strip(sv) == ssa.Value(p) && valueDerivesFromErr(c.Call.Args[j], from, errIdx) {
										found = true
									}
								}
							}
						})
					}
				}
			})
			return found
		}
		closures := Closures(fn)
		for _, spec := range []struct {
			callee string
			bare   string
		}{{"(*" + arv + ".KeepService).IndexMount", "IndexMount"}, {bal + "addCollection", "addCollection"}, {kb + ".EachCollection", "EachCollection"}} {
			found := false
			for _, cl := range closures {
				for _, c := range CallsIn(cl, spec.callee) {
					found = true
					r.Check(sendsErr(cl, c, ErrIndex(c.Common())), "C06-R2", cl, spec.bare+" error → errs", c.Pos(), "the error is sent to errs", "an error from "+spec.bare+" is dropped: GetCurrentState would report a complete view")
				}
			}
			if !found {
				r.Bad("C06-R2", fn, spec.bare+" call", fn.Pos(), "not found in GetCurrentState's goroutines")
			}
		}
		for _, cl := range closures {
			im := CallsIn(cl, "(*"+arv+".KeepService).IndexMount")
			for _, ar := range CallsIn(cl, "(*"+kb+".BlockStateMap).AddReplicas") {
				ok := len(im) == 1
				if ok {
					g, _ := Guard(cl, im[0].(ssa.Instruction), ar.(ssa.Instruction), ErrNilC(im[0]))
					ok = g && IsResultOfCall(Resolve1(CallArgs(ar.Common())[1]), im[0].Value(), 0)
				}
				r.Check(ok, "C06-R2", cl, "AddReplicas(mount, idx)", ar.Pos(), "only with a successfully retrieved index", "replicas are recorded from an index whose retrieval failed")
			}
		}
		waits := CallsIn(fn, "(*sync.WaitGroup).Wait")
		for _, ret := range Returns(fn) {
			succ, _ := IsSuccessReturn(ret)
			if !succ {
				continue
			}
			ok := len(waits) == 1 && MustPassFromEntry(fn, ret, []ssa.Instruction{waits[0].(ssa.Instruction)})
			if ok {
				g, _ := Guard(fn, waits[0].(ssa.Instruction), ret, LeC("len(errs) <= 0", func(v ssa.Value) bool {
					return isLenOf(v, func(x ssa.Value) bool { return strings.Contains(Canon(x), "errs") || true })
				}, ConstIntVP(0)))
				ok = g
			}
			r.Check(ok, "C06-R2", fn, "return nil", ret.Pos(), "after wg.Wait() and only if no error was reported", "GetCurrentState can return nil before its goroutines finished or although an error was reported")
		}
	}

	// ---- R3
	r.Rule("C06-R3", "index parser: entries returned only if the blank terminator line was seen and scanner.Err()==nil; data after the terminator and malformed lines are errors", 1)
	if fn := r.NeedFn("C06-R3", "(*"+arv+".KeepService).index"); fn != nil {
		n := 0
		for _, ret := range Returns(fn) {
			succ, _ := IsSuccessReturn(ret)
			if !succ {
				continue
			}
			n++
			gEOF, _ := Guard(fn, nil, ret, TrueC("sawEOF", func(v ssa.Value) bool {
				p, ok := Strip(v).(*ssa.Phi)
				return ok && p.Comment == "sawEOF"
			}))
			gErr, _ := Guard(fn, nil, ret, EqC("scanner.Err() == nil", CallVP("(*bufio.Scanner).Err"), NilV))
			g200, _ := Guard(fn, nil, ret, EqC("resp.StatusCode == 200", FieldVP("net/http.Response", "StatusCode", nil), ConstIntVP(200)))
			r.Check(gEOF && gErr && g200, "C06-R3", fn, "return entries, nil", ret.Pos(), "terminator seen, no scan error, HTTP 200", "a truncated or failed index response can be accepted as complete (terminator="+boolS(gEOF)+" scanErr="+boolS(gErr)+" status="+boolS(g200)+")")
		}
		if n != 1 {
			r.Bad("C06-R3", fn, "return entries, nil", fn.Pos(), "expected exactly one success return (after the scan loop), found "+itoa(n))
		}
		// sawEOF only set on an empty line
		okSet := false
		allInstrs(fn, func(in ssa.Instruction) {
			p, ok := in.(*ssa.Phi)
			if !ok || p.Comment != "sawEOF" {
				return
			}
			for i, e := range p.Edges {
				if b, isC := ConstBool(e); isC && b {
					g, _ := Guard(fn, nil, lastInstr(p.Block().Preds[i]), EqC("line == \"\"", CallVP("(*bufio.Scanner).Text"), ConstStrVP("")))
					okSet = g
				}
			}
		})
		r.Check(okSet, "C06-R3", fn, "sawEOF = true", fn.Pos(), "only on an empty line", "the terminator flag can be set by something other than an empty line")
	}

	// ---- R4
	r.Rule("C06-R4", "KeepClient.GetIndex: reader returned only for HTTP 200, ReadAll err==nil, and body == \"\\n\" or suffix \"\\n\\n\"", 1)
	if fn := r.NeedFn("C06-R4", "(*"+kcl+".KeepClient).GetIndex"); fn != nil {
		for _, ret := range Returns(fn) {
			succ, _ := IsSuccessReturn(ret)
			if !succ {
				continue
			}
			ra := CallsIn(fn, "io/ioutil.ReadAll", "io.ReadAll")
			ok := len(ra) == 1
			var gBody, gErr, g200 bool
			if ok {
				body := func(v ssa.Value) bool { return IsResultOfCall(Resolve1(v), ra[0].Value(), 0) }
				gErr, _ = Guard(fn, ra[0].(ssa.Instruction), ret, ErrNilC(ra[0]))
				gBody = GuardOrPass(fn, nil, ret, nil,
					TrueC("bytes.Equal(body, \"\\n\")", func(v ssa.Value) bool {
						c, isC := Resolve1(v).(*ssa.Call)
						return isC && CalleeName(c.Common()) == "bytes.Equal" && body(c.Call.Args[0]) && bytesLit(c.Call.Args[1]) == "\n"
					}),
					TrueC("bytes.HasSuffix(body, \"\\n\\n\")", func(v ssa.Value) bool {
						c, isC := Resolve1(v).(*ssa.Call)
						return isC && CalleeName(c.Common()) == "bytes.HasSuffix" && body(c.Call.Args[0]) && bytesLit(c.Call.Args[1]) == "\n\n"
					}))
				g200, _ = Guard(fn, nil, ret, EqC("StatusCode == 200", FieldVP("net/http.Response", "StatusCode", nil), ConstIntVP(200)))
			}
			r.Check(ok && gBody && gErr && g200, "C06-R4", fn, "return reader, nil", ret.Pos(), "complete body only", "an index body without the terminator can be returned as complete (terminator="+boolS(gBody)+" readErr="+boolS(gErr)+" status="+boolS(g200)+")")
		}
	}

	// ---- R5
	r.Rule("C06-R5", "keepstore handleIndex: the terminating newline is written only if every IndexTo returned nil", 1)
	if fn := r.NeedFn("C06-R5", "(*"+ks+".router).handleIndex"); fn != nil {
		its := CallsMatching(fn, func(n string, c *ssa.CallCommon) bool { return w.IsMethodOfIface(c, ks+".Volume", "IndexTo") })
		for _, wr := range CallsMatching(fn, func(n string, c *ssa.CallCommon) bool { return n == "(net/http.ResponseWriter).Write" }) {
			ok := len(its) == 1
			if ok {
				// not reachable from the IndexTo call without err == nil
				g, _ := Guard(fn, its[0].(ssa.Instruction), wr.(ssa.Instruction), ErrNilC(its[0]))
				ok = g && bytesLit(wr.Common().Args[0]) == "\n"
			}
			r.Check(ok, "C06-R5", fn, "resp.Write(\"\\n\") terminator", wr.Pos(), "only after all volumes were listed without error", "the end-of-index marker can be written although a volume's listing failed part-way")
		}
	}

	// ---- R6, R7
	r.Rule("C06-R6", "EachCollection: nil only after the closing count check (NOT callCount < checkCount, count err nil); page and callback errors are returned", 2)
	r.Rule("C06-R7", "EachCollection: exact-timestamp mode is left only after an empty page or a timestamp change", 1)
	if fn := r.NeedFn("C06-R6", kb+".EachCollection"); fn != nil {
		counts := CallsIn(fn, kb+".countCollections")
		for _, ret := range Returns(fn) {
			succ, _ := IsSuccessReturn(ret)
			if !succ {
				continue
			}
			var last ssa.CallInstruction
			for _, c := range counts {
				if Precedes(c, ret) && (last == nil || Before(last.(ssa.Instruction), c.(ssa.Instruction))) {
					last = c
				}
			}
			ok := last != nil && len(counts) >= 2
			if ok {
				g1, _ := Guard(fn, last.(ssa.Instruction), ret, ErrNilC(last))
				g2, _ := Guard(fn, last.(ssa.Instruction), ret, GeC("callCount < checkCount", AnyV, ResultVP(last.Value(), 0)))
				ok = g1 && g2
			}
			r.Check(ok, "C06-R6", fn, "return nil", ret.Pos(), "after the closing count check", "EachCollection can report success without the final count check (a short scan would look complete)")
		}
		for _, c := range CallsMatching(fn, func(n string, c *ssa.CallCommon) bool { return bareName(n) == "RequestAndDecodeContext" }) {
			okRet := errReturned(fn, c)
			r.Check(okRet, "C06-R6", fn, "page request error", c.Pos(), "returned", "a failed page request does not abort the scan")
		}
		// callback f
		for _, b := range fn.Blocks {
			for _, in := range b.Instrs {
				c, ok := in.(*ssa.Call)
				if !ok || c.Common().IsInvoke() {
					continue
				}
				if p, isP := Resolve1(c.Call.Value).(*ssa.Parameter); isP && p.Name() == "f" {
					r.Check(errReturned(fn, c), "C06-R6", fn, "callback error", c.Pos(), "returned", "a callback error does not abort the scan")
				}
			}
		}
		// R7
		found := false
		allInstrs(fn, func(in ssa.Instruction) {
			p, ok := in.(*ssa.Phi)
			if !ok || p.Comment != "gettingExactTimestamp" {
				return
			}
			for i, e := range p.Edges {
				bv, isC := ConstBool(e)
				pred := p.Block().Preds[i]
				if !isC || bv || pred == fn.Blocks[0] || pred.Index == 0 {
					continue
				}
				// initial false comes from before the loop: skip edges whose pred is not in the loop
				if hdr := loopHeaderOf(pred); hdr == nil {
					continue
				}
				found = true
				at := lastInstr(pred)
				ok := GuardOrPass(fn, nil, at, nil,
					IntC("len(page.Items) == 0", func(v ssa.Value) bool {
						return isLenOf(v, func(x ssa.Value) bool { return strings.Contains(Canon(x), "CollectionList.Items") })
					}, token.EQL, 0, true),
					NeqC("last.ModifiedAt != filterTime", func(v ssa.Value) bool { return strings.Contains(Canon(v), "ModifiedAt") }, AnyV))
				r.Check(ok, "C06-R7", fn, "gettingExactTimestamp = false", at.Pos(), "only after an empty page or a timestamp change", "the scan can leave exact-timestamp mode after a non-empty page of the same timestamp: the remaining collections with that timestamp are never fetched")
			}
		})
		if !found {
			r.Bad("C06-R7", fn, "gettingExactTimestamp = false", fn.Pos(), "mode reset not found")
		}
	}
	r.Rule("C06-R8", "EachCollection paging state machine: the three filter forms (advance / enter exact-timestamp mode / leave it) carry the right cursor and flag and are taken under the right page conditions; the loop ends only after an empty page outside exact mode; every item that is not a repeat of the previous one reaches the callback and is remembered", 1)
	if fn := r.NeedFn("C06-R8", kb+".EachCollection"); fn != nil {
		c06Paging(r, fn)
	}
	if fn := r.NeedFn("C06-R6", bal+"CheckSanityLate"); fn != nil {
		ok := false
		for _, ret := range Returns(fn) {
			if MaybeSuccess(fn, ret) {
				continue
			}
			g, _ := Guard(fn, nil, ret, EqC("bal.collScanned == 0", FieldVP(kb+".Balancer", "collScanned", nil), ConstIntVP(0)))
			ok = ok || g
		}
		r.Check(ok, "C06-R6", fn, "zero collections ⇒ error", fn.Pos(), "refuses to proceed on an empty collection view", "an empty collection scan is no longer treated as an error")
	}
}

// bytesLit: v is []byte("…") or a []byte{…} literal of constants → its content.
func bytesLit(v ssa.Value) string {
	v = Strip(v)
	if s, ok := ConstString(v); ok {
		return s
	}
	if c, ok := v.(*ssa.Convert); ok {
		if s, ok := ConstString(c.X); ok {
			return s
		}
	}
	if sl, ok := v.(*ssa.Slice); ok {
		if al, ok := sl.X.(*ssa.Alloc); ok {
			var out []byte
			for _, ref := range *al.Referrers() {
				if ia, ok := ref.(*ssa.IndexAddr); ok {
					for _, rr := range *ia.Referrers() {
						if st, ok := rr.(*ssa.Store); ok {
							if k, ok := ConstInt(st.Val); ok {
								out = append(out, byte(k))
							}
						}
					}
				}
			}
			return string(out)
		}
	}
	return "\x00?"
}

// valueDerivesFromErr: v is the call's error or a fmt.Errorf wrapping it.
func valueDerivesFromErr(v ssa.Value, call ssa.CallInstruction, idx int) bool {
	for _, l := range PhiLeaves(v) {
		if l == nil {
			continue
		}
		if IsResultOfCall(l, call.Value(), idx) {
			return true
		}
		if c, ok := l.(*ssa.Call); ok && CalleeName(c.Common()) == "fmt.Errorf" {
			if elems, ok := VarargElems(c.Call.Args[len(c.Call.Args)-1]); ok {
				for _, e := range elems {
					if e != nil && IsResultOfCall(Resolve1(e), call.Value(), idx) {
						return true
					}
				}
			}
		}
		// captured err variable written by the call (err = EachCollection(...)): load of a cell stored from the call
		if u, ok := l.(*ssa.UnOp); ok && u.Op == token.MUL {
			switch a := u.X.(type) {
			case *ssa.FreeVar:
				_ = a
				// the closure assigns the free variable from the call
				found := false
				allInstrs(call.Parent(), func(in ssa.Instruction) {
					if st, ok := in.(*ssa.Store); ok && st.Addr == u.X && IsResultOfCall(Resolve1(st.Val), call.Value(), idx) {
						found = true
					}
				})
				if found {
					return true
				}
			}
		}
	}
	return false
}

// errReturned: the call's error is returned by fn on the err != nil side.
func errReturned(fn *ssa.Function, c ssa.CallInstruction) bool {
	idx := ErrIndex(c.Common())
	if idx < 0 {
		return false
	}
	for _, ret := range Returns(fn) {
		for _, v := range returnOperand(ret, ret.Results[len(ret.Results)-1]) {
			if v != nil && IsResultOfCall(v, c.Value(), idx) {
				return true
			}
		}
	}
	return false
}
