package main

import (
	"go/token"
	"go/types"
	"sort"
	"strings"

	"golang.org/x/tools/go/ssa"
)

// filterLit: one element of an []arvados.Filter literal.
type filterLit struct {
	attr, op string
	operand  ssa.Value
}

// filterSliceLit decodes `[]arvados.Filter{{Attr:…, Operator:…, Operand:…}, …}` (a slice of a fresh array whose
// elements' fields are stored one by one).
func filterSliceLit(v ssa.Value) ([]filterLit, bool) {
	sl, ok := Strip(v).(*ssa.Slice)
	if !ok {
		return nil, false
	}
	al, ok := sl.X.(*ssa.Alloc)
	if !ok {
		return nil, false
	}
	pt, _ := al.Type().Underlying().(*types.Pointer)
	if pt == nil {
		return nil, false
	}
	arr, _ := pt.Elem().Underlying().(*types.Array)
	if arr == nil {
		return nil, false
	}
	out := make([]filterLit, arr.Len())
	for _, ref := range *al.Referrers() {
		ia, ok := ref.(*ssa.IndexAddr)
		if !ok {
			continue
		}
		idx, ok := ConstInt(ia.Index)
		if !ok || idx < 0 || idx >= int64(len(out)) {
			return nil, false
		}
		for _, r2 := range *ia.Referrers() {
			fa, ok := r2.(*ssa.FieldAddr)
			if !ok {
				continue
			}
			_, name, _, _ := FieldName(fa)
			for _, r3 := range *fa.Referrers() {
				st, ok := r3.(*ssa.Store)
				if !ok || st.Addr != ssa.Value(fa) {
					continue
				}
				switch name {
				case "Attr":
					out[idx].attr, _ = ConstString(st.Val)
				case "Operator":
					out[idx].op, _ = ConstString(st.Val)
				case "Operand":
					out[idx].operand = stripIface(st.Val)
				}
			}
		}
	}
	return out, true
}

// c06Paging (C06-R8): the paging state machine of EachCollection.
func c06Paging(r *R, fn *ssa.Function) {
	const rule = "C06-R8"
	// the page request and the loop it sits in
	var pageReq ssa.CallInstruction
	for _, c := range CallsMatching(fn, func(n string, c *ssa.CallCommon) bool { return bareName(n) == "RequestAndDecodeContext" }) {
		pageReq = c
	}
	if pageReq == nil {
		r.Und(rule, fn, "page request", fn.Pos(), "RequestAndDecodeContext not found")
		return
	}
	hdr := loopHeaderOf(pageReq.Block())
	if hdr == nil {
		if len(loopBody(pageReq.Block())) > 1 {
			hdr = pageReq.Block()
		}
	}
	if hdr == nil {
		r.Und(rule, fn, "paging loop", pageReq.Pos(), "the page request is not inside a loop")
		return
	}
	body := loopBody(hdr)
	// loop-carried state: the exact-mode flag (a bool phi with a constant-true edge) and the time cursor (a time.Time phi)
	var flag, cursor *ssa.Phi
	for _, in := range hdr.Instrs {
		p, ok := in.(*ssa.Phi)
		if !ok {
			continue
		}
		switch typeString(p.Type()) {
		case "bool":
			for _, e := range p.Edges {
				if b, isC := ConstBool(e); isC && b {
					flag = p
				}
			}
		case "time.Time":
			cursor = p
		}
	}
	if flag == nil || cursor == nil {
		r.Und(rule, fn, "loop state", hdr.Instrs[0].Pos(), "exact-timestamp flag / time cursor not found among the loop-carried values")
		return
	}
	isItemsLen := func(v ssa.Value) bool {
		return isLenOf(v, func(x ssa.Value) bool { return strings.Contains(Canon(x), "CollectionList.Items") })
	}
	isLastField := func(v ssa.Value, field string) bool {
		t, f, _, ok := LoadedField(v)
		return ok && t == "sdk/go/arvados.Collection" && f == field
	}
	// edge value of a header phi for the back edge coming (transitively) from block b
	phiFrom := func(p *ssa.Phi, b *ssa.BasicBlock) ssa.Value {
		for i, pred := range hdr.Preds {
			if pred == b || (body[pred] && reachBlocks([]*ssa.BasicBlock{b}, nil)[pred] && b.Dominates(pred)) {
				return p.Edges[i]
			}
		}
		return nil
	}
	// Filters assignments inside the loop
	type fstore struct {
		st   *ssa.Store
		lits []filterLit
		ops  string
	}
	var stores []fstore
	for b := range body {
		for _, in := range b.Instrs {
			st, ok := in.(*ssa.Store)
			if !ok {
				continue
			}
			if t, f, _, ok := FieldName(st.Addr); !ok || f != "Filters" || !strings.HasSuffix(t, "ResourceListParams") {
				continue
			}
			lits, ok := filterSliceLit(st.Val)
			if !ok {
				r.Bad(rule, fn, "params.Filters = …", st.Pos(), "filters are not a literal list: the paging cursor cannot be read")
				continue
			}
			var ops []string
			for _, l := range lits {
				ops = append(ops, l.attr+l.op)
			}
			sort.Strings(ops)
			stores = append(stores, fstore{st, lits, strings.Join(ops, ",")})
		}
	}
	sort.Slice(stores, func(i, j int) bool { return stores[i].ops < stores[j].ops })
	find := func(lits []filterLit, attr string) *filterLit {
		for i := range lits {
			if lits[i].attr == attr {
				return &lits[i]
			}
		}
		return nil
	}
	seen := map[string]bool{}
	for _, s := range stores {
		seen[s.ops] = true
		b := s.st.Block()
		fl, cur := phiFrom(flag, b), phiFrom(cursor, b)
		m, u := find(s.lits, "modified_at"), find(s.lits, "uuid")
		switch s.ops {
		case "modified_at=,uuid>": // enter / stay in exact-timestamp mode
			fv, isC := ConstBool(fl)
			ok := m != nil && u != nil && m.operand == ssa.Value(cursor) && isLastField(u.operand, "UUID") && isC && fv && cur == ssa.Value(cursor)
			g1, _ := Guard(fn, pageReq.(ssa.Instruction), s.st, IntC("0 < len(page.Items)", isItemsLen, token.GTR, 0, true))
			g2, _ := Guard(fn, pageReq.(ssa.Instruction), s.st, EqC("last.ModifiedAt == filterTime", func(v ssa.Value) bool { return isLastField(v, "ModifiedAt") }, Is(cursor)))
			r.Check(ok && g1 && g2, rule, fn, "exact mode: modified_at = cursor ∧ uuid > last.UUID", s.st.Pos(),
				"entered only after a non-empty page that did not get past the cursor; sets the flag, keeps the cursor",
				"exact-timestamp paging is wrong (filters="+boolS(ok)+" nonEmptyPage="+boolS(g1)+" sameTimestamp="+boolS(g2)+"): collections sharing one modification time can be skipped or the same page requested forever")
		case "modified_at>": // leave exact mode
			fv, isC := ConstBool(fl)
			ok := m != nil && m.operand == ssa.Value(cursor) && isC && !fv && cur == ssa.Value(cursor)
			g1, _ := Guard(fn, pageReq.(ssa.Instruction), s.st, TrueC("gettingExactTimestamp", Is(flag)))
			r.Check(ok && g1, rule, fn, "leave exact mode: modified_at > cursor", s.st.Pos(), "only from exact mode; clears the flag, keeps the cursor",
				"leaving exact-timestamp mode is wrong (filters="+boolS(ok)+" fromExactMode="+boolS(g1)+"): newer collections are never requested or the scan loops")
		case "modified_at>=,uuid!=": // normal advance
			ok := m != nil && u != nil && isLastField(m.operand, "ModifiedAt") && isLastField(u.operand, "UUID") && cur != nil && isLastField(cur, "ModifiedAt")
			okFlag := fl == ssa.Value(flag)
			if fv, isC := ConstBool(fl); isC && !fv {
				okFlag = true
			}
			r.Check(ok && okFlag, rule, fn, "advance: modified_at >= last.ModifiedAt ∧ uuid != last.UUID", s.st.Pos(), "the cursor moves to the last collection's timestamp",
				"the normal page advance does not move the cursor to the last collection's modification time: the same page is requested forever or collections are skipped")
		default:
			r.Bad(rule, fn, "params.Filters = "+s.ops, s.st.Pos(), "unknown paging filter form")
		}
	}
	for _, want := range []string{"modified_at=,uuid>", "modified_at>", "modified_at>=,uuid!="} {
		if !seen[want] {
			r.Bad(rule, fn, "params.Filters "+want, fn.Pos(), "this paging step is missing: the scan cannot progress past it")
		}
	}
	// loop exit: only after an empty page outside exact mode
	exitsSeen := 0
	for b := range body {
		for i, s := range b.Succs {
			if body[s] {
				continue
			}
			// exits by return inside the loop are error returns / BUG returns; the exit that continues after the loop:
			if _, isRet := lastInstr(s).(*ssa.Return); isRet && !MaybeSuccessBlock(fn, s) {
				continue
			}
			exitsSeen++
			at := s.Instrs[0]
			cutAll := EdgeSet{}
			for bb := range body {
				for j, ss := range bb.Succs {
					if !body[ss] && !(bb == b && j == i) {
						cutAll[E(bb, j)] = true
					}
				}
			}
			e1, _ := IfEdges(fn, IntC("len(page.Items) == 0", isItemsLen, token.EQL, 0, true).Match)
			e2, _ := IfEdges(fn, FalseC("!gettingExactTimestamp", Is(flag)).Match)
			c1 := EdgeSet{}
			c1.Add(cutAll).Add(e1)
			c2 := EdgeSet{}
			c2.Add(cutAll).Add(e2)
			g1 := !ReachFromInstr(pageReq.(ssa.Instruction), at, c1)
			g2 := !ReachFromInstr(pageReq.(ssa.Instruction), at, c2)
			r.Check(g1 && g2, rule, fn, "leave the paging loop", lastInstr(b).Pos(), "only after an empty page outside exact-timestamp mode",
				"the paging loop can end after a non-empty page (emptyPage="+boolS(g1)+" notExactMode="+boolS(g2)+"): later pages are never fetched and the closing count check, made against the stale cursor, passes")
		}
	}
	if exitsSeen == 0 {
		r.Bad(rule, fn, "leave the paging loop", hdr.Instrs[0].Pos(), "the paging loop has no normal exit: after the last (empty) page the scan requests the same page forever instead of finishing")
	}
	// the callback is applied to every item that is not a repeat of the previous page's last item
	var fcall *ssa.Call
	allInstrs(fn, func(in ssa.Instruction) {
		if c, ok := in.(*ssa.Call); ok && !c.Common().IsInvoke() {
			if p, isP := ResolveOnce(c.Call.Value).(*ssa.Parameter); isP && strings.HasPrefix(typeString(p.Type()), "func(") && len(c.Call.Args) == 1 && strings.HasSuffix(typeString(c.Call.Args[0].Type()), "arvados.Collection") {
				fcall = c
			}
		}
	})
	if fcall == nil || !body[fcall.Block()] {
		r.Bad(rule, fn, "f(coll)", fn.Pos(), "the callback is not called for the items of a page")
		return
	}
	inner := loopHeaderOf(fcall.Block())
	okInner := inner != nil && inner != hdr && body[inner]
	okSkip := false
	okLast := false
	if okInner {
		// skipping an item (reaching the inner header again without calling f) requires same timestamp ∧ uuid not greater
		first := inner.Instrs[0]
		var elem ssa.Instruction
		for b := range loopBody(inner) {
			for _, in := range b.Instrs {
				if u, ok := in.(*ssa.UnOp); ok && u.Op == token.MUL {
					if ia, ok := u.X.(*ssa.IndexAddr); ok && strings.Contains(Canon(ia.X), "CollectionList.Items") {
						elem = in
					}
				}
			}
		}
		if elem != nil {
			sameT := EqC("last.ModifiedAt == coll.ModifiedAt", func(v ssa.Value) bool { return isLastField(v, "ModifiedAt") }, func(v ssa.Value) bool { return isLastField(v, "ModifiedAt") })
			geU := GeC("last.UUID >= coll.UUID", func(v ssa.Value) bool { return isLastField(v, "UUID") }, func(v ssa.Value) bool { return isLastField(v, "UUID") })
			g1 := GuardOrPass(fn, elem, first, []ssa.Instruction{fcall}, sameT)
			g2 := GuardOrPass(fn, elem, first, []ssa.Instruction{fcall}, geU)
			okSkip = g1 && g2
		}
		// `last = coll` after a successful callback
		allInstrs(fn, func(in ssa.Instruction) {
			st, ok := in.(*ssa.Store)
			if !ok || !body[st.Block()] {
				return
			}
			if al, isA := st.Addr.(*ssa.Alloc); isA && strings.HasSuffix(typeString(al.Type()), "arvados.Collection") && strings.HasSuffix(typeString(st.Val.Type()), "arvados.Collection") {
				if (fcall.Block() == st.Block() && Before(fcall, st) || fcall.Block() != st.Block() && Precedes(fcall, st)) && loopHeaderOf(st.Block()) == inner {
					g, _ := Guard(fn, fcall, st, EqC("f(coll) == nil", Is(fcall), NilV))
					okLast = okLast || g
				}
			}
		})
	}
	r.Check(okInner && okSkip && okLast, rule, fn, "f(coll) for every new item; last = coll", fcall.Pos(), "only a repeat of the previous item is skipped; the cursor item is remembered after each successful callback",
		"items are skipped for another reason than being a repeat, or the last delivered item is not remembered (inner="+boolS(okInner)+" skipOnlyRepeats="+boolS(okSkip)+" remembersLast="+boolS(okLast)+")")
}

// MaybeSuccessBlock: block b ends in a return that may yield a nil error.
func MaybeSuccessBlock(fn *ssa.Function, b *ssa.BasicBlock) bool {
	ret, ok := lastInstr(b).(*ssa.Return)
	return ok && MaybeSuccess(fn, ret)
}
