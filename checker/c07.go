package main

import (
	"go/token"
	"strings"

	"golang.org/x/tools/go/ssa"
)

func init() {
	register("C07", []string{"./sdk/go/arvados", "./sdk/go/keepclient", "./services/keepstore"}, runC07)
}

// regexGroup: v == matches[i] where matches is the FindStringSubmatch result `m`.
func isGroup(v ssa.Value, m ssa.Value, i int64) bool {
	u, ok := Resolve1(v).(*ssa.UnOp)
	if !ok {
		return false
	}
	ia, ok := u.X.(*ssa.IndexAddr)
	if !ok || !same(ia.X, m) {
		return false
	}
	k, ok := ConstInt(ia.Index)
	return ok && k == i
}

// isTTLHex: strconv.FormatInt(int64(ttl.Seconds()), 16) for the given duration value.
func isTTLHex(v ssa.Value, ttl ssa.Value) bool {
	c, ok := Resolve1(v).(*ssa.Call)
	if !ok || CalleeName(c.Common()) != "strconv.FormatInt" {
		return false
	}
	if b, ok := ConstInt(c.Call.Args[1]); !ok || b != 16 {
		return false
	}
	s, ok := Resolve1(c.Call.Args[0]).(*ssa.Call)
	return ok && CalleeName(s.Common()) == "(time.Duration).Seconds" && same(s.Call.Args[0], ttl)
}

func runC07(r *R) {
	r.Explain = "Structural necessary conditions of C07: (R1) arvados.VerifySignature returns nil only after the locator matched SignedLocatorRe, the expiry parsed, is not in the past, and the signature string equals makePermSignature(hash group, token, expiry group, hex(ttl seconds), key); " +
		"(R2) makePermSignature is hex(HMAC-SHA1(key=secret, hash \"@\" token \"@\" expiry \"@\" ttl)) (symbolic evaluation of the writes); (R3) SignLocator signs the same five ingredients and appends +A<sig>@<the same expiry hex>; " +
		"(R4) keepstore's GET handler reaches GetBlock only if signing is off or VerifySignature(full request locator, request token) returned nil; (R5) keepstore's wrapper maps expired/other errors and passes the cluster's TTL and key; (R6) PUT responses are signed with the request's token when a key is configured. Unforgeability itself (cryptography) is not decided."
	r.NotDec = []string{"unforgeability under perturbation (cryptographic)", "SignedLocatorRe's language vs the locator grammar", "SignManifest leaves everything else unchanged (regex replacement semantics)"}
	r.Assume = []string{"crypto/hmac, crypto/sha1", "blob.rb signs [hash, token, timestamp, ttl].join('@') (taken from the property statement; Ruby cannot be parsed offline)"}

	// ---- R2
	r.Rule("C07-R2", "makePermSignature ≡ hex(HMAC-SHA1(key=permissionSecret, blobHash \"@\" apiToken \"@\" expiry \"@\" blobSignatureTTL))", 1)
	if fn := r.NeedFn("C07-R2", arv+".makePermSignature"); fn != nil {
		for _, ret := range Returns(fn) {
			hi, ok := HexHMACOf(ret.Results[0])
			want := []string{"param:blobHash", `"@"`, "param:apiToken", `"@"`, "param:expiry", `"@"`, "param:blobSignatureTTL"}
			if ok {
				ok = hi.HashCtor == "crypto/sha1.New" && Canon(hi.Key) == "param:permissionSecret" && len(hi.Parts) == len(want)
				for i := 0; ok && i < len(want); i++ {
					if hi.Parts[i] != want[i] {
						ok = false
					}
				}
			}
			r.Check(ok, "C07-R2", fn, "return hex(hmac)", ret.Pos(), "HMAC-SHA1 keyed by the secret over hash@token@expiry@ttl, a fresh hmac.New per call", "signature is not hex(HMAC-SHA1(key, hash@token@expiry@ttl)) computed with a fresh, correctly keyed HMAC (e.g. a reused hash state keeps its first key)")
		}
	}

	// ---- R1
	r.Rule("C07-R1", "arvados.VerifySignature: nil only under regex match ∧ expiry parsed ∧ NOT expired ∧ signature == makePermSignature(group1, token, group7, hex(ttl), key)", 1)
	if fn := r.NeedFn("C07-R1", arv+".VerifySignature"); fn != nil {
		fsm := CallsIn(fn, "(*regexp.Regexp).FindStringSubmatch")
		okRe := len(fsm) == 1
		if okRe {
			g, _ := LoadedGlobal(fsm[0].Common().Args[0])
			okRe = g == arv+".SignedLocatorRe" && same(fsm[0].Common().Args[1], paramOf(fn, "signedLocator"))
		}
		n := 0
		for _, ret := range Returns(fn) {
			succ, _ := IsSuccessReturn(ret)
			if !succ {
				continue
			}
			n++
			if !okRe {
				r.Bad("C07-R1", fn, "return nil", ret.Pos(), "locator is not matched against SignedLocatorRe")
				continue
			}
			m := fsm[0].Value()
			gM, _ := Guard(fn, nil, ret, NeqC("matches != nil", Is(m), NilV))
			var ph ssa.CallInstruction
			for _, c := range CallsIn(fn, arv+".parseHexTimestamp") {
				if isGroup(c.Common().Args[0], m, 7) {
					ph = c
				}
			}
			gP, gX := false, false
			if ph != nil {
				gP, _ = Guard(fn, ph.(ssa.Instruction), ret, ErrNilC(ph))
				gX, _ = Guard(fn, ph.(ssa.Instruction), ret, FalseC("expiryTime.Before(time.Now())", func(v ssa.Value) bool {
					c, ok := Resolve1(v).(*ssa.Call)
					if !ok {
						return false
					}
					switch CalleeName(c.Common()) {
					case "(time.Time).Before": // expiry.Before(now)
						return IsResultOfCall(Resolve1(c.Call.Args[0]), ph.Value(), 0) && isTimeNow(c.Call.Args[1])
					case "(time.Time).After": // now.After(expiry)
						return isTimeNow(c.Call.Args[0]) && IsResultOfCall(Resolve1(c.Call.Args[1]), ph.Value(), 0)
					}
					return false
				}))
			}
			gS, _ := Guard(fn, nil, ret, EqC("signatureHex == makePermSignature(…)", func(v ssa.Value) bool { return isGroup(v, m, 6) }, func(v ssa.Value) bool {
				c, ok := Resolve1(v).(*ssa.Call)
				if !ok || CalleeName(c.Common()) != arv+".makePermSignature" {
					return false
				}
				a := c.Call.Args
				return isGroup(a[0], m, 1) && same(a[1], paramOf(fn, "apiToken")) && isGroup(a[2], m, 7) && isTTLHex(a[3], paramOf(fn, "blobSignatureTTL")) && same(a[4], paramOf(fn, "permissionSecret"))
			}))
			r.Check(gM && gP && gX && gS, "C07-R1", fn, "return nil", ret.Pos(), "match, parsed, unexpired, signature equal for (hash, token, expiry, ttl, key)",
				"verification can succeed without (match="+boolS(gM)+" parsed="+boolS(gP)+" unexpired="+boolS(gX)+" signature="+boolS(gS)+")")
		}
		if n != 1 {
			r.Bad("C07-R1", fn, "return nil", fn.Pos(), "expected exactly one success return, found "+itoa(n))
		}
		// SignedLocatorRe shape: 32 hex, A-hint with 40 hex '@' 8 hex
		if lit, ok := r.W.GlobalRegexLiteral(arv + ".SignedLocatorRe"); ok {
			okShape := strings.HasPrefix(lit, `^([[:xdigit:]]{32})`) && strings.Contains(lit, `(\+A([[:xdigit:]]{40})@([[:xdigit:]]{8}))`) && strings.HasSuffix(lit, "$")
			r.addS("C07-R1", arv+".SignedLocatorRe", "regex literal", "-", okIf(okShape), "anchored; group 1 = 32 hex digest, +A<40 hex>@<8 hex>")
		}
	}

	// ---- R3
	r.Rule("C07-R3", "SignLocator: locator + \"+A\" + makePermSignature(first +-field, token, hex08(expiry), hex(ttl), key) + \"@\" + the same expiry hex; unsigned only when key or token is empty", 1)
	if fn := r.NeedFn("C07-R3", arv+".SignLocator"); fn != nil {
		loc := paramOf(fn, "blobLocator")
		n := 0
		for _, ret := range Returns(fn) {
			v := ret.Results[0]
			if same(v, loc) {
				g := GuardOrPass(fn, nil, ret, nil, IntC("len(secret)==0", lenVP, token.EQL, 0, true), EqC("apiToken==\"\"", Is(paramOf(fn, "apiToken")), ConstStrVP("")))
				r.Check(g, "C07-R3", fn, "return blobLocator (unsigned)", ret.Pos(), "only when no key or no token", "locator can be returned unsigned although a key and a token are present")
				continue
			}
			n++
			parts := ConcatParts(v)
			ok := len(parts) == 5 && same(parts[0], loc)
			if ok {
				a, _ := ConstString(parts[1])
				b, _ := ConstString(parts[3])
				ok = a == "+A" && b == "@"
			}
			if ok {
				c, isCall := Resolve1(parts[2]).(*ssa.Call)
				ok = isCall && CalleeName(c.Common()) == arv+".makePermSignature"
				if ok {
					a := c.Call.Args
					// a[0] = strings.Split(blobLocator, "+")[0]
					hashOK := firstPlusField(a[0], loc)
					tsOK := false
					if f, args, isS := SprintfCall(a[2]); isS && f == "%08x" && len(args) == 1 {
						if u, isC := Resolve1(args[0]).(*ssa.Call); isC && CalleeName(u.Common()) == "(time.Time).Unix" && same(u.Call.Args[0], paramOf(fn, "expiry")) {
							tsOK = true
						}
					}
					ok = hashOK && tsOK && same(a[1], paramOf(fn, "apiToken")) && isTTLHex(a[3], paramOf(fn, "blobSignatureTTL")) && same(a[4], paramOf(fn, "permissionSecret")) && same(parts[4], a[2])
				}
			}
			r.Check(ok, "C07-R3", fn, "return signed locator", ret.Pos(), "signs (hash, token, expiry, ttl, key) and appends the same expiry", "signed locator is not locator+A<sig(hash,token,expiry,ttl,key)>@<same expiry>")
		}
		if n == 0 {
			r.Bad("C07-R3", fn, "return signed locator", fn.Pos(), "no signing return found")
		}
	}

	// ---- R7
	r.Rule("C07-R7", "SignManifest: tokens are whitespace-delimited (\\S+); only tokens matching ^[0-9a-f]{32}.* are re-signed (after removing \\+A[^+]* hints); every other token is returned unchanged", 3)
	for name, want := range map[string]string{arv + ".mBlkRe": `^[0-9a-f]{32}.*`, arv + ".mPermHintRe": `\+A[^+]*`} {
		if lit, ok := r.W.GlobalRegexLiteral(name); !ok {
			r.addS("C07-R7", name, "regex literal", "-", Undecided, "initialiser not found")
		} else {
			r.addS("C07-R7", name, "regex literal", "-", okIf(regexCanon(lit) == regexCanon(want)), "literal "+lit+" must denote "+want)
		}
	}
	if outer := r.NeedFn("C07-R7", arv+".SignManifest"); outer != nil {
		// the tokeniser: the regexp on which ReplaceAllStringFunc is called — compiled in place or a package-level variable
		okTok := false
		for _, c := range CallsIn(outer, "(*regexp.Regexp).ReplaceAllStringFunc") {
			lit, ok := r.W.RegexLiteralOf(c.Common().Args[0])
			okTok = ok && regexCanon(lit) == regexCanon(`\S+`)
		}
		r.Check(okTok, "C07-R7", outer, "tokeniser \\S+", outer.Pos(), "whole whitespace-delimited tokens", "manifest is not tokenised on whitespace: parts of stream names / file tokens can be mistaken for locators")
		n := 0
		for _, cl := range Closures(outer) {
			tok := paramOf(cl, "tok")
			for _, c := range CallsIn(cl, arv+".SignLocator") {
				n++
				g, _ := Guard(cl, nil, c.(ssa.Instruction), TrueC("mBlkRe.MatchString(tok)", func(v ssa.Value) bool {
					cc, ok := Resolve1(v).(*ssa.Call)
					if !ok || CalleeName(cc.Common()) != "(*regexp.Regexp).MatchString" {
						return false
					}
					g, ok := LoadedGlobal(cc.Call.Args[0])
					return ok && g == arv+".mBlkRe" && same(cc.Call.Args[1], tok)
				}))
				r.Check(g, "C07-R7", cl, "SignLocator(tok…)", c.Pos(), "only for tokens that start with 32 hex digits", "a token that is not a block locator can be re-signed")
			}
			okPass := false
			for _, ret := range Returns(cl) {
				if same(ret.Results[0], tok) {
					okPass = true
				}
			}
			if len(CallsIn(cl, arv+".SignLocator")) > 0 {
				r.Check(okPass, "C07-R7", cl, "return tok (unchanged)", cl.Pos(), "other tokens pass through verbatim", "non-locator tokens are not returned unchanged")
			}
		}
		if n == 0 {
			r.Bad("C07-R7", outer, "SignLocator in SignManifest", outer.Pos(), "not found")
		}
	}

	// ---- R4
	r.Rule("C07-R4", "keepstore handleGET: GetBlock only if BlobSigning is off or VerifySignature(cluster, req.URL.Path[1:], GetAPIToken(req)) == nil", 1)
	if fn := r.NeedFn("C07-R4", "(*"+ks+".router).handleGET"); fn != nil {
		for _, gb := range CallsIn(fn, ks+".GetBlock") {
			ok := GuardOrPass(fn, nil, gb.(ssa.Instruction), nil,
				FalseC("cluster.Collections.BlobSigning", CanonHas("BlobSigning{")),
				EqC("VerifySignature(...) == nil", func(v ssa.Value) bool {
					c, isC := Resolve1(v).(*ssa.Call)
					if !isC || CalleeName(c.Common()) != ks+".VerifySignature" {
						return false
					}
					a := c.Call.Args
					x, lo, hi, isS := SliceParts(a[1])
					l, _ := ConstInt(lo)
					okLoc := isS && hi == nil && lo != nil && l == 1 && strings.Contains(Canon(x), "URL.Path")
					tk, isT := Resolve1(a[2]).(*ssa.Call)
					okTok := isT && CalleeName(tk.Common()) == ks+".GetAPIToken" && same(tk.Call.Args[0], paramOf(fn, "req"))
					return okLoc && okTok
				}, NilV))
			r.Check(ok, "C07-R4", fn, "call GetBlock", gb.Pos(), "signing off, or signature on the full request locator verified with the request's token", "block data can be read without a verified permission signature while signing is enabled")
		}
	}

	// ---- R5
	r.Rule("C07-R5", "keepstore VerifySignature/SignLocator wrappers: pass the cluster's BlobSigningTTL and BlobSigningKey; nil only for nil; ExpiredError only for ErrSignatureExpired", 2)
	if fn := r.NeedFn("C07-R5", ks+".VerifySignature"); fn != nil {
		vs := CallsIn(fn, arv+".VerifySignature")
		if len(vs) != 1 {
			r.Bad("C07-R5", fn, "call arvados.VerifySignature", fn.Pos(), "expected one delegating call, found "+itoa(len(vs)))
		} else {
			a := vs[0].Common().Args
			okArgs := same(a[0], paramOf(fn, "signedLocator")) && same(a[1], paramOf(fn, "apiToken")) && strings.Contains(Canon(a[2]), "BlobSigningTTL") && strings.Contains(Canon(Strip(a[3])), "BlobSigningKey")
			r.Check(okArgs, "C07-R5", fn, "arguments", vs[0].Pos(), "locator, token, cluster TTL, cluster key", "wrapper passes the wrong locator/token/TTL/key")
			for _, ret := range Returns(fn) {
				succ, _ := IsSuccessReturn(ret)
				if succ {
					g, _ := Guard(fn, vs[0].(ssa.Instruction), ret, ErrNilC(vs[0]))
					r.Check(g, "C07-R5", fn, "return nil", ret.Pos(), "only when verification returned nil", "wrapper can return nil although verification failed")
				}
			}
		}
	}
	if fn := r.NeedFn("C07-R5", ks+".SignLocator"); fn != nil {
		sl := CallsIn(fn, arv+".SignLocator")
		ok := len(sl) == 1
		if ok {
			a := sl[0].Common().Args
			ok = same(a[0], paramOf(fn, "blobLocator")) && same(a[1], paramOf(fn, "apiToken")) && same(a[2], paramOf(fn, "expiry")) && strings.Contains(Canon(a[3]), "BlobSigningTTL") && strings.Contains(Canon(Strip(a[4])), "BlobSigningKey")
		}
		r.Check(ok, "C07-R5", fn, "delegation to arvados.SignLocator", fn.Pos(), "locator, token, expiry, cluster TTL, cluster key", "wrapper passes the wrong ingredients")
	}

	// ---- R6
	r.Rule("C07-R6", "handlePUT signs the returned locator with GetAPIToken(req) when BlobSigningKey and the token are non-empty", 1)
	if fn := r.NeedFn("C07-R6", "(*"+ks+".router).handlePUT"); fn != nil {
		for _, c := range CallsIn(fn, ks+".SignLocator") {
			a := c.Common().Args
			tk, isT := Resolve1(a[2]).(*ssa.Call)
			okTok := isT && CalleeName(tk.Common()) == ks+".GetAPIToken" && same(tk.Call.Args[0], paramOf(fn, "req"))
			r.Check(okTok, "C07-R6", fn, "SignLocator(…, GetAPIToken(req), …)", c.Pos(), "signed for the requesting token", "PUT response signed for a token other than the request's")
		}
	}
}

// firstPlusField: v is the part of loc before its first "+" (the block hash), however it is cut out:
// strings.Split/SplitN(loc, "+")[0], or loc[:strings.IndexByte(loc, '+')] with loc itself when there is no "+".
func firstPlusField(v, loc ssa.Value) bool {
	ok := true
	n := 0
	for _, l := range PhiLeaves(v) {
		if l == nil {
			return false
		}
		n++
		if same(l, loc) {
			continue
		}
		if u, isU := l.(*ssa.UnOp); isU {
			if ia, isIA := u.X.(*ssa.IndexAddr); isIA {
				k, _ := ConstInt(ia.Index)
				sp, isSp := Resolve1(ia.X).(*ssa.Call)
				if isSp && k == 0 && same(sp.Call.Args[0], loc) {
					nm := CalleeName(sp.Common())
					sep, _ := ConstString(sp.Call.Args[1])
					if (nm == "strings.Split" || nm == "strings.SplitN") && sep == "+" {
						continue
					}
				}
			}
		}
		if x, lo, hi, isS := SliceParts(l); isS && lo == nil && hi != nil && same(x, loc) {
			if c, isC := Resolve1(hi).(*ssa.Call); isC && same(c.Call.Args[0], loc) {
				switch CalleeName(c.Common()) {
				case "strings.IndexByte":
					if k, isK := ConstInt(c.Call.Args[1]); isK && k == '+' {
						continue
					}
				case "strings.Index":
					if sep, _ := ConstString(c.Call.Args[1]); sep == "+" {
						continue
					}
				}
			}
		}
		ok = false
	}
	return ok && n > 0
}
