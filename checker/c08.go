package main

import (
	"go/constant"
	"go/token"
	"go/types"
	"sort"
	"strings"

	"golang.org/x/tools/go/ssa"
)

func init() {
	register("C08", []string{"./sdk/go/arvados"}, runC08)
}

func osConst(w *World, name string) (int64, bool) {
	for _, p := range w.All {
		if p.PkgPath == "os" && p.Types != nil {
			if c, ok := p.Types.Scope().Lookup(name).(*types.Const); ok {
				v, ok := constant.Int64Val(c.Val())
				return v, ok
			}
		}
	}
	return 0, false
}

func runC08(r *R) {
	w := r.W
	r.Explain = "C08 is overwhelmingly a model-equivalence property (every operation sequence behaves like an in-memory filesystem); that is not decidable by static analysis and is NOT claimed. Decided here are four structural clauses only: (R1) a handle reads/writes through its inode only when it was opened readable/writable, else the mode errors; " +
		"(R2) openFile derives (readable, writable) from the access mode exactly as O_RDWR→(T,T), O_RDONLY→(T,F), O_WRONLY→(F,T), rejects other modes, returns ErrFileExists for O_EXCL on an existing name and truncates only writable non-directories; " +
		"(R3) the file-content state (segments, size, memsize, repacked) is written only by filenode's own methods and the flush machinery; (R4) a freshly built (zero-repacked) pointer is only given to seek after fn.repacked was incremented, so that seek recomputes the segment position; (R5/R6) the background-flush completion re-validates the segment before replacing it and buffers being flushed are copied on write (same rules as C13-R2/R3), which keeps size == sum of segment lengths."
	r.NotDec = []string{"bytes read / sizes / directory semantics / error exactness for arbitrary operation sequences (model equivalence)", "block-boundary behaviour"}
	r.Assume = []string{}

	// ---- R1
	r.Rule("C08-R1", "filehandle.Read → inode.Read only if readable (else ErrWriteOnlyMode); filehandle.Write → inode.Write only if writable (else ErrReadOnlyFile)", 2)
	for _, spec := range []struct{ meth, field, errv string }{{"Read", "readable", "ErrWriteOnlyMode"}, {"Write", "writable", "ErrReadOnlyFile"}} {
		if fn := r.NeedFn("C08-R1", "(*"+arv+".filehandle)."+spec.meth); fn != nil {
			fact := TrueC("f."+spec.field, FieldVP(arv+".filehandle", spec.field, nil))
			n := 0
			for _, c := range CallsMatching(fn, func(nm string, c *ssa.CallCommon) bool { return nm == "("+arv+".inode)."+spec.meth }) {
				n++
				g, _ := Guard(fn, nil, c.(ssa.Instruction), fact)
				r.Check(g, "C08-R1", fn, "inode."+spec.meth, c.Pos(), "guarded by f."+spec.field, "handle "+strings.ToLower(spec.meth)+"s although it was not opened for that mode")
			}
			okErr := false
			for _, ret := range Returns(fn) {
				for _, v := range returnOperand(ret, ret.Results[len(ret.Results)-1]) {
					if g, ok := LoadedGlobal(v); ok && g == arv+"."+spec.errv {
						gd, _ := Guard(fn, nil, ret, NotC(fact))
						okErr = okErr || gd
					}
				}
			}
			r.Check(n > 0 && okErr, "C08-R1", fn, "mode error", fn.Pos(), "returns "+spec.errv+" when the mode forbids", "the mode error is no longer returned")
		}
	}

	// ---- R2
	r.Rule("C08-R2", "openFile: (readable, writable) per access mode = RDWR→(T,T), RDONLY→(T,F), WRONLY→(F,T); other modes error; O_EXCL on existing ⇒ ErrFileExists; Truncate only if writable and not a directory", 1)
	if fn := r.NeedFn("C08-R2", "(*"+arv+".fileSystem).openFile"); fn != nil {
		rdwr, _ := osConst(w, "O_RDWR")
		rdonly, _ := osConst(w, "O_RDONLY")
		wronly, _ := osConst(w, "O_WRONLY")
		excl, _ := osConst(w, "O_EXCL")
		trunc, _ := osConst(w, "O_TRUNC")
		// the final composite
		var rd, wr ssa.Value
		for _, st := range StoresToField(fn, arv+".filehandle", "readable") {
			rd = st.Val
		}
		for _, st := range StoresToField(fn, arv+".filehandle", "writable") {
			wr = st.Val
		}
		table := map[int64][2]int{} // mode → (readable, writable) as 0/1, -1 unknown
		modeOf := func(b *ssa.BasicBlock) (int64, bool) {
			// the case constant whose true edge leads (uniquely) into b
			for _, p := range b.Preds {
				iff, ok := lastInstr(p).(*ssa.If)
				if !ok || p.Succs[0] != b {
					continue
				}
				bo, ok := Strip(iff.Cond).(*ssa.BinOp)
				if !ok || bo.Op != token.EQL {
					continue
				}
				if k, ok := ConstInt(bo.Y); ok {
					if m, isB := Strip(bo.X).(*ssa.BinOp); isB && m.Op == token.AND {
						return k, true
					}
				}
			}
			return 0, false
		}
		fill := func(v ssa.Value, idx int) bool {
			p, ok := Strip(v).(*ssa.Phi)
			if !ok {
				return false
			}
			for i, e := range p.Edges {
				b, okb := ConstBool(e)
				if !okb {
					return false
				}
				pred := p.Block().Preds[i]
				k, okm := modeOf(pred)
				if !okm {
					// default path (not a case body): ignore only if that edge is the switch's fallthrough returning an error — handled by reachability below
					continue
				}
				t, seen := table[k]
				if !seen {
					t = [2]int{0, 0}
				}
				if b {
					t[idx] = 1
				}
				table[k] = t
			}
			return true
		}
		ok := rd != nil && wr != nil && fill(rd, 0) && fill(wr, 1)
		// modes that set nothing for one of the flags do not appear as phi edges with true; make sure all three modes are present
		want := map[int64][2]int{rdwr: {1, 1}, rdonly: {1, 0}, wronly: {0, 1}}
		if ok {
			for k, v := range want {
				if got, seen := table[k]; !seen || got != v {
					ok = false
				}
			}
			if len(table) != 3 {
				ok = false
			}
		}
		var keys []string
		for k, v := range table {
			keys = append(keys, itoa(int(k))+"→("+itoa(v[0])+","+itoa(v[1])+")")
		}
		sort.Strings(keys)
		r.Check(ok, "C08-R2", fn, "access-mode table", fn.Pos(), "modes "+strings.Join(keys, " "), "open flags map to the wrong (readable, writable) pair: "+strings.Join(keys, " "))
		// O_EXCL
		okExcl := false
		for _, ret := range Returns(fn) {
			for _, v := range returnOperand(ret, ret.Results[1]) {
				if g, isG := LoadedGlobal(v); isG && g == arv+".ErrFileExists" {
					g1, _ := Guard(fn, nil, ret, NeqC("flag&O_EXCL != 0", func(x ssa.Value) bool {
						b, isB := Resolve1(x).(*ssa.BinOp)
						if !isB || b.Op != token.AND {
							return false
						}
						k, _ := ConstInt(b.Y)
						return k == excl
					}, ConstIntVP(0)))
					g2, _ := Guard(fn, nil, ret, NeqC("n != nil (name exists)", func(x ssa.Value) bool { return isInodeIface(x) }, NilV))
					okExcl = g1 && g2
				}
			}
		}
		r.Check(okExcl, "C08-R2", fn, "O_EXCL on existing name", fn.Pos(), "returns ErrFileExists", "O_EXCL no longer fails on an existing name")
		for _, c := range CallsMatching(fn, func(nm string, c *ssa.CallCommon) bool { return nm == "("+arv+".inode).Truncate" }) {
			g1, _ := Guard(fn, nil, c.(ssa.Instruction), TrueC("writable", Is(wr)))
			g2, _ := Guard(fn, nil, c.(ssa.Instruction), NeqC("flag&O_TRUNC != 0", func(x ssa.Value) bool {
				b, isB := Resolve1(x).(*ssa.BinOp)
				if !isB || b.Op != token.AND {
					return false
				}
				k, _ := ConstInt(b.Y)
				return k == trunc
			}, ConstIntVP(0)))
			g3, _ := Guard(fn, nil, c.(ssa.Instruction), FalseC("n.IsDir()", CallVP("("+arv+".inode).IsDir")))
			z, _ := ConstInt(CallArgs(c.Common())[0])
			r.Check(g1 && g2 && g3 && z == 0, "C08-R2", fn, "n.Truncate(0)", c.Pos(), "only with O_TRUNC, writable, not a directory", "open truncates without (O_TRUNC="+boolS(g2)+" writable="+boolS(g1)+" notdir="+boolS(g3)+")")
		}
		// invalid mode ⇒ error: the composite is unreachable without passing one of the three case edges
		gMode := GuardOrPass(fn, nil, StoresToField(fn, arv+".filehandle", "readable")[0], nil,
			EqC("mode==O_RDWR", AnyV, ConstIntVP(rdwr)), EqC("mode==O_RDONLY", maskVP, ConstIntVP(rdonly)), EqC("mode==O_WRONLY", maskVP, ConstIntVP(wronly)))
		r.Check(gMode, "C08-R2", fn, "invalid access mode ⇒ error", fn.Pos(), "a handle is built only for one of the three modes", "a handle can be returned for an invalid access mode")
	}

	// ---- R3
	r.Rule("C08-R3", "file content state (filenode.segments/memsize/repacked, filenode.fileinfo.size) is written only by filenode methods and the flush machinery (dirnode.commitBlock/flush)", 6)
	allowed := func(root string) bool {
		return strings.HasPrefix(root, "(*"+arv+".filenode).") || root == "(*"+arv+".dirnode).commitBlock" || root == "(*"+arv+".dirnode).flush"
	}
	for _, fn := range w.FuncsIn(arv) {
		root := fnShort(rootFn(fn))
		for _, a := range FieldAccesses(fn, map[string]map[string]bool{arv + ".filenode": {"segments": true, "memsize": true, "repacked": true}}) {
			if !a.Write || isFreshObject(a.Base) {
				continue
			}
			r.Check(allowed(root), "C08-R3", fn, a.What+" filenode."+a.Field, a.Instr.Pos(), "owner: filenode / flush machinery", "file content state is modified outside filenode's methods and the flush machinery")
		}
		allInstrs(fn, func(in ssa.Instruction) {
			st, ok := in.(*ssa.Store)
			if !ok {
				return
			}
			t, f, base, ok := FieldName(st.Addr)
			if !ok || t != arv+".fileinfo" || f != "size" {
				return
			}
			bt, bf, bb, ok2 := FieldName(base)
			if !ok2 || bt != arv+".filenode" || bf != "fileinfo" || isFreshObject(bb) {
				return
			}
			r.Check(allowed(root), "C08-R3", fn, "store filenode.fileinfo.size", in.Pos(), "owner: filenode", "file size is modified outside filenode's methods")
		})
		// also atomic.AddInt64(&fn.memsize)
		for _, c := range CallsIn(fn, "sync/atomic.AddInt64") {
			if t, f, _, ok := FieldName(c.Common().Args[0]); ok && t == arv+".filenode" && f == "memsize" {
				r.Check(allowed(root), "C08-R3", fn, "atomic add filenode.memsize", c.Pos(), "owner: flush machinery", "memsize is modified outside the owners")
			}
		}
	}

	// ---- R4
	r.Rule("C08-R4", "seek is given a freshly built pointer (only .off set, repacked left zero) only after fn.repacked++ on every path, so the segment position is recomputed rather than trusted", 1)
	for _, fn := range w.FuncsIn(arv) {
		for _, c := range CallsIn(fn, "(*"+arv+".filenode).seek") {
			arg := CallArgs(c.Common())[0]
			cf := compositeFields(arg)
			u, isLoad := Strip(arg).(*ssa.UnOp)
			if !isLoad {
				continue
			}
			if _, isAlloc := u.X.(*ssa.Alloc); !isAlloc {
				continue
			}
			if _, hasOff := cf["off"]; !hasOff || cf["repacked"] != nil || cf["segmentIdx"] != nil {
				continue // not a literal with only .off
			}
			var incs []ssa.Instruction
			for _, st := range StoresToField(fn, arv+".filenode", "repacked") {
				if bo, ok := Strip(st.Val).(*ssa.BinOp); ok && bo.Op == token.ADD {
					if k, _ := ConstInt(bo.Y); k == 1 && IsFieldLoad(bo.X, arv+".filenode", "repacked") {
						incs = append(incs, st)
					}
				}
			}
			ok := len(incs) > 0 && MustPassFromEntry(fn, c.(ssa.Instruction), incs)
			r.Check(ok, "C08-R4", fn, "seek(filenodePtr{off: …})", c.Pos(), "fn.repacked was incremented first, so the zero-valued pointer cannot be mistaken for an up-to-date one", "a zero-valued filenodePtr reaches seek while fn.repacked may still be 0 (file loaded from a manifest and never written): seek trusts segmentIdx=0/segmentOff=0 and the caller then drops every segment")
		}
	}

	// ---- R5 (shared with C13-R2/R3: the copy-on-write / background-flush mechanism is one of C08's anchors)
	r.Rule("C08-R5", "background flush completion swaps a memory segment for a stored one only after re-validating lock, PutB result, index, identity, flushing token and length (size == sum of segment lengths is preserved)", 2)
	r.Rule("C08-R6", "copy-on-write: a buffer being flushed is never modified in place (memSegment.WriteAt/Truncate)", 4)
	flushSwapRules(r, "C08-R5", "C08-R6")
}

func maskVP(v ssa.Value) bool {
	b, ok := Resolve1(v).(*ssa.BinOp)
	return ok && b.Op == token.AND
}
