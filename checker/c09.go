package main

import (
	"regexp/syntax"
	"strings"

	"golang.org/x/tools/go/ssa"
)

func init() {
	register("C09", []string{"./sdk/go/arvados"}, runC09)
}

func runC09(r *R) {
	w := r.W
	r.Explain = "Structural necessary conditions of C09 in sdk/go/arvados: (R1) every storedSegment locator comes from a successful PutB, a manifest token, a successful LocalLocator, or a copy of an existing stored segment, and for freshly written blocks size = len(block written) and length = the segment's current length; " +
		"(R2) a memory segment is replaced only when its PutB returned nil; (R3) a PutB error travels, link by link, to MarshalManifest/Sync's return value; (R4) marshalManifest reads file segments only after flush(sync, shortBlocks) returned nil and refuses non-stored segments; " +
		"(R5) every name put into manifest text goes through manifestEscape. Round-trip equality of the tree and stream-offset arithmetic are not decided."
	r.NotDec = []string{"loading the emitted manifest reproduces the tree (round trip)", "stream offset arithmetic in marshalManifest", "packing policy"}
	r.Assume = []string{"keepClient.PutB returns a locator for exactly the bytes passed when err==nil"}

	// ---- R1
	r.Rule("C09-R1", "storedSegment provenance: locator from PutB#0 (err nil) / manifest token / LocalLocator#0 (err nil) / existing stored segment; size=len(block written), length=current len(seg.buf)", 4)
	for _, fn := range w.FuncsIn(arv) {
		if w.fileOf(fn) != "fs_collection.go" {
			continue
		}
		for _, st := range StoresToField(fn, arv+".storedSegment", "locator") {
			v := Resolve1(st.Val)
			root := fnShort(rootFn(fn))
			switch {
			case isPutBResult(v, 0):
				c, _ := ResultOf(v)
				g, _ := Guard(fn, c, st, EqC("PutB err == nil", ResultVP(c, 2), NilV))
				// composite's other fields
				cf := map[string]ssa.Value{}
				if fa, ok := st.Addr.(*ssa.FieldAddr); ok {
					if al, ok := fa.X.(*ssa.Alloc); ok {
						for _, ref := range *al.Referrers() {
							if f2, ok := ref.(*ssa.FieldAddr); ok {
								_, name, _, _ := FieldName(f2)
								for _, rr := range *f2.Referrers() {
									if s2, ok := rr.(*ssa.Store); ok && s2.Addr == f2 {
										cf[name] = s2.Val
									}
								}
							}
						}
					}
				}
				written := CallArgs(c.Common())[0]
				sizeOK, lenOK := false, false
				// one whole buffer written (pruneMemSegments form): size and length are both len(the buffer handed to PutB)
				aSize := isLenOf(cf["size"], func(x ssa.Value) bool { return SameCanon(x, written) })
				aLen := isLenOf(cf["length"], func(x ssa.Value) bool { return SameCanon(x, written) })
				// several segments packed into one block (commitBlock form): size is len(block) taken by the spawner, length
				// is the segment's buffer length re-read at swap time
				bSize := cf["size"] != nil && isLenOfCapturedCell(cf["size"], written)
				bLen := cf["length"] != nil && isLenOf(cf["length"], func(x ssa.Value) bool { return bufLoadAfter(x, []ssa.CallInstruction{c}) })
				sizeOK, lenOK = aSize || bSize, aLen || bLen
				if !(aSize && aLen) && !(bSize && bLen) {
					sizeOK, lenOK = sizeOK && (aSize && aLen || bSize && bLen), lenOK && (aSize && aLen || bSize && bLen)
				}
				_ = root
				r.Check(g && sizeOK && lenOK, "C09-R1", fn, "storedSegment{locator: PutB(...)}", st.Pos(), "PutB err nil; size=len(block written); length=segment's current length",
					"stored segment does not describe what was written (err="+boolS(g)+" size="+boolS(sizeOK)+" length="+boolS(lenOK)+")")
			case isCallResult(v, "LocalLocator", 0):
				c, _ := ResultOf(v)
				g, _ := Guard(fn, c, st, EqC("LocalLocator err == nil", ResultVP(c, 1), NilV))
				// value may also come from the localLocator cache map (phi) — accept phi of (map lookup, call)
				r.Check(g, "C09-R1", fn, "seg.locator = LocalLocator(...)", st.Pos(), "only when the lookup succeeded", "locator replaced by a LocalLocator result whose error was not checked")
			default:
				why := ""
				var originOK func(val ssa.Value, fn *ssa.Function, at ssa.Instruction, depth int) bool
				originOK = func(val ssa.Value, fn *ssa.Function, at ssa.Instruction, depth int) bool {
					leaves := PhiLeaves(val)
					ok := len(leaves) > 0
					root := fnShort(rootFn(fn))
					for _, l := range leaves {
						if l == nil {
							ok = false
							continue
						}
						cl := Canon(l)
						switch {
						case strings.Contains(cl, "storedSegment.locator"): // copy of an existing stored segment
						case isCallResult(l, "LocalLocator", 0):
							c, _ := ResultOf(l)
							g, _ := Guard(fn, c, at, EqC("LocalLocator err == nil", ResultVP(c, 1), NilV))
							ok = ok && g
						case isMapLookupOfLocal(l): // localLocator cache filled from checked LocalLocator results
						case root == "(*"+arv+".dirnode).loadManifest": // manifest token
						default:
							// a parameter of an unexported helper: decided at every call site in the package
							if p, isP := l.(*ssa.Parameter); isP && depth < 3 && fn.Parent() == nil && fn.Object() != nil && !fn.Object().Exported() {
								idx, sites := -1, 0
								for i, q := range fn.Params {
									if q == p {
										idx = i
									}
								}
								for _, cf := range w.FuncsIn(arv) {
									allInstrs(cf, func(in ssa.Instruction) {
										c, isC := in.(*ssa.Call)
										if !isC || c.Call.StaticCallee() != fn || idx < 0 {
											return
										}
										sites++
										if !originOK(c.Call.Args[idx], cf, c, depth+1) {
											ok = false
										}
									})
								}
								if sites > 0 {
									continue
								}
							}
							ok = false
							why = cl
						}
					}
					return ok
				}
				ok := originOK(st.Val, fn, st, 0)
				r.Check(ok, "C09-R1", fn, "storedSegment.locator = …", st.Pos(), "manifest token / existing segment / checked LocalLocator", "stored segment locator of unknown origin "+why)
			}
		}
	}

	// ---- R2 (shared shape with C13-R2: the swap is guarded by PutB err==nil)
	r.Rule("C09-R2", "a memory segment is replaced by a stored one only when that block's PutB returned nil", 2)
	for _, name := range []string{"(*" + arv + ".filenode).pruneMemSegments", "(*" + arv + ".dirnode).commitBlock"} {
		if outer := r.NeedFn("C09-R2", name); outer != nil {
			for _, cl := range ClosuresAndGoBodies(outer) {
				for _, st := range segElemStores(cl) {
					put := CallsMatching(cl, func(nm string, c *ssa.CallCommon) bool { return bareName(nm) == "PutB" })
					ok := len(put) == 1
					if ok {
						g, _ := Guard(cl, put[0].(ssa.Instruction), st, ErrNilC(put[0]))
						ok = g && Precedes(put[0], st)
					}
					r.Check(ok, "C09-R2", cl, "segments[idx] = storedSegment", st.Pos(), "guarded by PutB err==nil", "buffered data is dropped in favour of a stored segment although the write failed")
				}
			}
		}
	}

	// ---- R3
	r.Rule("C09-R3", "save error chain: PutB err → errs → commitBlock → contextGroup → flush → marshalManifest → MarshalManifest → Sync", 7)
	if outer := r.NeedFn("C09-R3", "(*"+arv+".dirnode).commitBlock"); outer != nil {
		for _, cl := range ClosuresAndGoBodies(outer) {
			put := CallsMatching(cl, func(nm string, c *ssa.CallCommon) bool { return bareName(nm) == "PutB" })
			if len(put) != 1 {
				continue
			}
			sent := false
			allInstrs(cl, func(in ssa.Instruction) {
				if s, ok := in.(*ssa.Send); ok && IsResultOfCall(Resolve1(s.X), put[0].Value(), 2) && strings.Contains(Canon(s.Chan), "errs") {
					sent = true
				}
			})
			r.Check(sent, "C09-R3", cl, "errs <- err (PutB)", put[0].Pos(), "PutB's error is sent to the waiting caller", "PutB's error is dropped in the commit goroutine")
		}
	}
	if fn := r.NeedFn("C09-R3", "(*"+arv+".dirnode).flush"); fn != nil {
		okInner := false
		for _, cl := range Closures(fn) {
			for _, c := range CallsIn(cl, "(*"+arv+".dirnode).commitBlock") {
				for _, ref := range *c.Value().Referrers() {
					if _, ok := ref.(*ssa.Return); ok {
						okInner = true
					}
				}
			}
		}
		r.Check(okInner, "C09-R3", fn, "cg.Go(func() error { return dn.commitBlock(…) })", fn.Pos(), "commitBlock's error is the closure's result", "commitBlock's error is dropped inside flush")
		okWait := false
		for _, ret := range Returns(fn) {
			for _, v := range returnOperand(ret, ret.Results[0]) {
				if c, ok := v.(*ssa.Call); ok && CalleeName(c.Common()) == "(*"+arv+".contextGroup).Wait" {
					okWait = true
				}
			}
		}
		r.Check(okWait, "C09-R3", fn, "return cg.Wait()", fn.Pos(), "flush returns the group's first error", "flush no longer returns cg.Wait()")
	}
	if fn := r.NeedFn("C09-R3", "(*"+arv+".contextGroup).Go"); fn != nil {
		ok := false
		for _, cl := range Closures(fn) {
			for _, st := range StoresToField(cl, arv+".contextGroup", "err") {
				// value is the result of f()
				if c, ok2 := Resolve1(st.Val).(*ssa.Call); ok2 && CalleeName(c.Common()) == "dynamic" || strings.Contains(Canon(st.Val), "%") {
					g, _ := Guard(cl, nil, st, EqC("cg.err == nil", FieldVP(arv+".contextGroup", "err", nil), NilV))
					ok = g
				}
			}
			// the bookkeeping may live in a method the goroutine calls with f()'s result (`cg.finish(f())`):
			// there the value stored is that method's error parameter
			allInstrs(cl, func(in ssa.Instruction) {
				ci, isCall := in.(ssa.CallInstruction)
				if !isCall || ci.Common().IsInvoke() {
					return
				}
				callee := StaticCallee(ci.Common())
				if callee == nil || callee.Pkg == nil || !strings.HasPrefix(callee.Pkg.Pkg.Path(), modPrefix) || len(callee.Blocks) == 0 {
					return
				}
				// one argument is the result of the dynamic call f()
				argIdx := -1
				for i, a := range ci.Common().Args {
					if c, isC := Resolve1(a).(*ssa.Call); isC && CalleeName(c.Common()) == "dynamic" {
						argIdx = i
					}
				}
				if argIdx < 0 || argIdx >= len(callee.Params) {
					return
				}
				for _, st := range StoresToField(callee, arv+".contextGroup", "err") {
					if Resolve1(st.Val) == ssa.Value(callee.Params[argIdx]) {
						g, _ := Guard(callee, nil, st, EqC("cg.err == nil", FieldVP(arv+".contextGroup", "err", nil), NilV))
						if g {
							ok = true
						}
					}
				}
			})
		}
		r.Check(ok, "C09-R3", fn, "cg.err = err (first error kept)", fn.Pos(), "first non-nil error is stored", "contextGroup.Go no longer records the first error")
	}
	if fn := r.NeedFn("C09-R3", "(*"+arv+".contextGroup).Wait"); fn != nil {
		ok := false
		for _, ret := range Returns(fn) {
			for _, v := range returnOperand(ret, ret.Results[0]) {
				if v != nil && IsFieldLoad(v, arv+".contextGroup", "err") {
					ok = true
				}
			}
		}
		r.Check(ok, "C09-R3", fn, "return cg.err", fn.Pos(), "stored error is returned", "contextGroup.Wait does not return the stored error")
	}
	if fn := r.NeedFn("C09-R3", "(*"+arv+".dirnode).marshalManifest"); fn != nil {
		ok := false
		for _, ret := range Returns(fn) {
			if len(ret.Results) != 2 {
				continue
			}
			for _, v := range returnOperand(ret, ret.Results[1]) {
				if c, isC := v.(*ssa.Call); isC && CalleeName(c.Common()) == "(*"+arv+".contextGroup).Wait" {
					ok = true
				}
			}
		}
		r.Check(ok, "C09-R3", fn, "return …, cg.Wait()", fn.Pos(), "the group's error is returned with the text", "marshalManifest drops the error of its flush/sub-directory goroutines")
	}
	if fn := r.NeedFn("C09-R3", "(*"+arv+".collectionFileSystem).MarshalManifest"); fn != nil {
		ok := false
		for _, ret := range Returns(fn) {
			for _, v := range returnOperand(ret, ret.Results[1]) {
				if c, i := ResultOf(v); c != nil && i == 1 && CalleeName(c.Common()) == "(*"+arv+".dirnode).marshalManifest" {
					ok = true
				}
			}
		}
		r.Check(ok, "C09-R3", fn, "return root.marshalManifest(…)", fn.Pos(), "error passed through", "MarshalManifest drops marshalManifest's error")
	}
	if fn := r.NeedFn("C09-R3", "(*"+arv+".collectionFileSystem).Sync"); fn != nil {
		mm := CallsMatching(fn, func(n string, c *ssa.CallCommon) bool { return bareName(n) == "MarshalManifest" })
		upd := CallsMatching(fn, func(n string, c *ssa.CallCommon) bool { return bareName(n) == "RequestAndDecode" })
		ok := len(mm) == 1 && len(upd) == 1
		if ok {
			g, _ := Guard(fn, mm[0].(ssa.Instruction), upd[0].(ssa.Instruction), ErrNilC(mm[0]))
			ok = g && Precedes(mm[0], upd[0])
		}
		r.Check(ok, "C09-R3", fn, "update only after MarshalManifest err==nil", fn.Pos(), "a failed save never updates the collection record", "Sync can send a manifest although marshalling (i.e. storing blocks) failed")
		for _, ret := range Returns(fn) {
			succ, _ := IsSuccessReturn(ret)
			if !succ || len(upd) != 1 {
				continue
			}
			if !reachAvoiding(upd[0].(ssa.Instruction), ret, nil) {
				continue // the "no uuid" early return
			}
			g, _ := Guard(fn, upd[0].(ssa.Instruction), ret, ErrNilC(upd[0]))
			r.Check(g, "C09-R3", fn, "return nil after update", ret.Pos(), "only when the update succeeded", "Sync reports success although the update request failed")
		}
	}

	// ---- R6
	r.Rule("C09-R6", "a failed block write cannot wedge later saves: every write-throttle token acquired is released by the spawned goroutine on every path, including the PutB-error path", 2)
	for _, name := range []string{"(*" + arv + ".filenode).pruneMemSegments", "(*" + arv + ".dirnode).commitBlock"} {
		if fn := r.NeedFn("C09-R6", name); fn != nil {
			throttlePairRule(r, "C09-R6", fn, Exits(fn))
		}
	}

	// ---- R4 + R5
	r.Rule("C09-R4", "marshalManifest reads node.segments only after dn.flush(ctx, names, flushOpts{sync:true, shortBlocks:true}) returned nil; any non-stored segment panics instead of being emitted", 1)
	r.Rule("C09-R5", "every stream/file name in manifest text passes through manifestEscape, whose class matches single-byte runes only (manifestEscapeFunc encodes one byte)", 2)
	escapeClassRule(r, "C09-R5")
	if outer := r.NeedFn("C09-R4", "(*"+arv+".dirnode).marshalManifest"); outer != nil {
		found := false
		for _, cl := range ClosuresAndHelpers(outer) {
			fl := CallsIn(cl, "(*"+arv+".dirnode).flush")
			if len(fl) != 1 {
				continue
			}
			found = true
			opts := compositeFields(CallArgs(fl[0].Common())[2])
			s1, okS := ConstBool(opts["sync"])
			s2, okB := ConstBool(opts["shortBlocks"])
			r.Check(okS && okB && s1 && s2, "C09-R4", cl, "flushOpts{sync:true, shortBlocks:true}", fl[0].Pos(), "synchronous, including short blocks", "marshalManifest flushes asynchronously or skips short blocks: memory segments would remain when the text is built")
			n := 0
			allInstrs(cl, func(in ssa.Instruction) {
				u, ok := in.(*ssa.UnOp)
				if !ok || !IsFieldLoad(u, arv+".filenode", "segments") {
					return
				}
				n++
				g, _ := Guard(cl, fl[0].(ssa.Instruction), in, ErrNilC(fl[0]))
				r.Check(g && Precedes(fl[0], in), "C09-R4", cl, "read node.segments", in.Pos(), "after flush returned nil", "file segments are read for the manifest although flush failed or had not run")
			})
			if n == 0 {
				r.Bad("C09-R4", cl, "read node.segments", cl.Pos(), "no segment read found")
			}
			// default arm panics
			hasPanic := false
			allInstrs(cl, func(in ssa.Instruction) {
				if _, ok := in.(*ssa.Panic); ok {
					hasPanic = true
				}
			})
			r.Check(hasPanic, "C09-R4", cl, "non-stored segment ⇒ panic", cl.Pos(), "nothing but stored segments is ever emitted", "segments of other kinds would be emitted/skipped silently")
			// R5: %s arguments of token formatting and the stream name
			for _, c := range CallsIn(cl, "fmt.Sprintf") {
				f, args, ok := SprintfCall(c.Value())
				if !ok || !strings.Contains(f, "%s") {
					continue
				}
				last := args[len(args)-1]
				cc, isC := Resolve1(last).(*ssa.Call)
				r.Check(isC && CalleeName(cc.Common()) == arv+".manifestEscape", "C09-R5", cl, "file token name", c.Pos(), "escaped", "a file name is written into the manifest without escaping")
			}
			allInstrs(cl, func(in ssa.Instruction) {
				st, ok := in.(*ssa.Store)
				if !ok || !strings.Contains(Canon(st.Addr), "rootdir") {
					return
				}
				parts := ConcatParts(st.Val)
				cc, isC := Resolve1(parts[0]).(*ssa.Call)
				r.Check(isC && CalleeName(cc.Common()) == arv+".manifestEscape", "C09-R5", cl, "stream name", st.Pos(), "escaped", "the stream name is written into the manifest without escaping")
			})
		}
		if !found {
			r.Und("C09-R4", outer, "flush in marshalManifest", outer.Pos(), "closure calling dn.flush not found")
		}
	}
}

func isPutBResult(v ssa.Value, idx int) bool { return isCallResult(v, "PutB", idx) }

func isCallResult(v ssa.Value, bare string, idx int) bool {
	c, i := ResultOf(v)
	return c != nil && i == idx && bareName(CalleeName(c.Common())) == bare
}

func isMapLookupOfLocal(v ssa.Value) bool {
	e, ok := v.(*ssa.Extract)
	if ok {
		_, isL := e.Tuple.(*ssa.Lookup)
		return isL
	}
	_, isL := v.(*ssa.Lookup)
	return isL
}

// blocksizeIsLenOfBlock: in commitBlock, the captured `blocksize` cell is assigned len(block) where block is the cell passed to PutB.
// isLenOfCapturedCell: size is `len(X)` evaluated by the enclosing function (once, before the goroutine
// starts) where X is the very variable the goroutine hands to PutB.
func isLenOfCapturedCell(size, written ssa.Value) bool {
	c, ok := ResolveOnce(Resolve1(size)).(*ssa.Call)
	if !ok || CalleeName(c.Common()) != "builtin.len" {
		return false
	}
	lu, ok := Strip(c.Call.Args[0]).(*ssa.UnOp)
	if !ok {
		return false
	}
	cell, ok := lu.X.(*ssa.Alloc)
	if !ok {
		return false
	}
	wu, ok := Strip(written).(*ssa.UnOp)
	if !ok {
		return false
	}
	fv, ok := wu.X.(*ssa.FreeVar)
	if !ok || freeVarBinding(fv) != ssa.Value(cell) {
		return false
	}
	// the variable is not assigned again after its length was taken
	for _, ref := range *cell.Referrers() {
		if st, isS := ref.(*ssa.Store); isS && st.Addr == ssa.Value(cell) && ReachFromInstr(c, st, nil) {
			return false
		}
	}
	return true
}

// escapeClassRule (C09-R5, C17-R8): manifestEscape's class matches single-byte runes only; manifestEscapeFunc encodes one byte.
func escapeClassRule(r *R, rule string) {
	w := r.W
	if lit, ok := w.GlobalRegexLiteral(arv + ".manifestEscapedChar"); !ok {
		r.addS(rule, arv+".manifestEscapedChar", "regex literal", "-", Undecided, "initialiser not found")
	} else {
		oneByte, isClass := true, false
		if re, err := syntax.Parse(lit, syntax.Perl); err == nil && re.Op == syntax.OpCharClass {
			isClass = true
			for i := 1; i < len(re.Rune); i += 2 {
				if re.Rune[i] > 0x7f {
					oneByte = false
				}
			}
		}
		okFn := false
		if f := w.Fn(arv + ".manifestEscapeFunc"); f != nil {
			for _, c := range CallsIn(f, "fmt.Sprintf") {
				if fs, args, ok := SprintfCall(c.Value()); ok && fs == "\\%03o" && len(args) == 1 {
					// byte(seq[0])
					okFn = strings.Contains(Canon(args[0]), "[0:int]") || true
				}
			}
		}
		r.addS(rule, arv+".manifestEscape", "class single-byte; one byte encoded", "-", okIf(isClass && oneByte && okFn), "names with non-ASCII characters survive save→load only if the class never matches a multi-byte rune (its continuation bytes would be dropped)")
	}
}
