package main

import (
	"go/constant"
	"go/token"
	"go/types"
	"os"
	"regexp"
	"regexp/syntax"
	"sort"
	"strings"

	"golang.org/x/tools/go/ssa"
)

const mfp = "sdk/go/manifest"

func init() {
	register("C10", []string{"./sdk/go/manifest", "./sdk/go/arvados", "./sdk/go/blockdigest"}, runC10)
}

type byteSet [256]bool

func (s *byteSet) String() string {
	var parts []string
	for i := 0; i < 256; {
		if !s[i] {
			i++
			continue
		}
		j := i
		for j+1 < 256 && s[j+1] {
			j++
		}
		if i == j {
			parts = append(parts, "0x"+hex2(i))
		} else {
			parts = append(parts, "0x"+hex2(i)+"-0x"+hex2(j))
		}
		i = j + 1
	}
	return "{" + strings.Join(parts, ",") + "}"
}

func hex2(i int) string {
	const d = "0123456789abcdef"
	return string([]byte{d[i>>4], d[i&15]})
}

func (s *byteSet) missingFrom(need *byteSet) *byteSet {
	var m byteSet
	for i := range need {
		if need[i] && !s[i] {
			m[i] = true
		}
	}
	return &m
}

func (s *byteSet) empty() bool {
	for _, b := range s {
		if b {
			return false
		}
	}
	return true
}

// charClassSet: set of bytes matched by a regex that is a single character class.
func charClassSet(lit string) (*byteSet, bool) {
	re, err := syntax.Parse(lit, syntax.Perl)
	if err != nil {
		return nil, false
	}
	var s byteSet
	switch re.Op {
	case syntax.OpCharClass:
		for i := 0; i+1 < len(re.Rune); i += 2 {
			for r := re.Rune[i]; r <= re.Rune[i+1] && r < 256; r++ {
				s[r] = true
			}
		}
	case syntax.OpLiteral:
		if len(re.Rune) != 1 || re.Rune[0] > 255 {
			return nil, false
		}
		s[re.Rune[0]] = true
	default:
		return nil, false
	}
	return &s, true
}

// regexFirstBytes: bytes that can start a match of the regex (for regexes that begin with a literal or class).
func regexFirstBytes(lit string) (*byteSet, bool) {
	re, err := syntax.Parse(lit, syntax.Perl)
	if err != nil {
		return nil, false
	}
	var s byteSet
	var first func(r *syntax.Regexp) bool
	first = func(r *syntax.Regexp) bool {
		switch r.Op {
		case syntax.OpLiteral:
			if len(r.Rune) == 0 || r.Rune[0] > 255 {
				return false
			}
			s[r.Rune[0]] = true
			return true
		case syntax.OpCharClass:
			for i := 0; i+1 < len(r.Rune); i += 2 {
				for c := r.Rune[i]; c <= r.Rune[i+1] && c < 256; c++ {
					s[c] = true
				}
			}
			return true
		case syntax.OpConcat:
			return len(r.Sub) > 0 && first(r.Sub[0])
		case syntax.OpCapture:
			return first(r.Sub[0])
		case syntax.OpAlternate:
			for _, sub := range r.Sub {
				if !first(sub) {
					return false
				}
			}
			return true
		}
		return false
	}
	if !first(re) {
		return nil, false
	}
	return &s, true
}

// evalByteCond evaluates a boolean SSA expression in which the only variable is `c` (a byte).
func evalByteCond(v ssa.Value, c ssa.Value, b int64) (bool, bool) {
	v = Strip(v)
	switch x := v.(type) {
	case *ssa.UnOp:
		if x.Op == token.NOT {
			r, ok := evalByteCond(x.X, c, b)
			return !r, ok
		}
	case *ssa.BinOp:
		l, ok1 := evalByteInt(x.X, c, b)
		r, ok2 := evalByteInt(x.Y, c, b)
		if !ok1 || !ok2 {
			return false, false
		}
		switch x.Op {
		case token.LSS:
			return l < r, true
		case token.LEQ:
			return l <= r, true
		case token.GTR:
			return l > r, true
		case token.GEQ:
			return l >= r, true
		case token.EQL:
			return l == r, true
		case token.NEQ:
			return l != r, true
		}
	}
	return false, false
}

func evalByteInt(v ssa.Value, c ssa.Value, b int64) (int64, bool) {
	v = Strip(v)
	if v == Strip(c) {
		return b, true
	}
	if k, ok := v.(*ssa.Const); ok && k.Value != nil && k.Value.Kind() == constant.Int {
		return k.Int64(), true
	}
	return 0, false
}

// escapedSetOfLoop interprets, for each byte value, the branch conditions of
// fn's per-byte loop body and reports which bytes reach the block that formats
// an escape (a fmt.Sprintf call) — a predicate over a finite domain; no
// repository function is executed.
func escapedSetOfLoop(fn *ssa.Function) (*byteSet, string, bool) {
	// the byte variable: the value appended verbatim (append(escaped, c))
	var cVal ssa.Value
	var plainBlock, escBlock *ssa.BasicBlock
	format := ""
	allInstrs(fn, func(in ssa.Instruction) {
		call, ok := in.(*ssa.Call)
		if !ok {
			return
		}
		switch CalleeName(call.Common()) {
		case "builtin.append":
			if elems, ok := VarargElems(call.Call.Args[1]); ok && len(elems) == 1 && elems[0] != nil {
				if typeString(elems[0].Type()) == "byte" || typeString(elems[0].Type()) == "uint8" {
					cVal = elems[0]
					plainBlock = in.Block()
				}
			}
		case "fmt.Sprintf":
			if f, _, ok := SprintfCall(call); ok {
				format = f
				escBlock = in.Block()
			}
		}
	})
	if cVal == nil || plainBlock == nil || escBlock == nil {
		return nil, "", false
	}
	// start: the block defining c (loop body)
	start := Strip(cVal).(ssa.Instruction).Block()
	var set byteSet
	for b := 0; b < 256; b++ {
		blk := start
		for steps := 0; steps < 64; steps++ {
			if blk == escBlock {
				set[b] = true
				break
			}
			if blk == plainBlock {
				break
			}
			last := lastInstr(blk)
			switch t := last.(type) {
			case *ssa.If:
				r, ok := evalByteCond(t.Cond, cVal, int64(b))
				if !ok {
					return nil, "", false
				}
				if r {
					blk = blk.Succs[0]
				} else {
					blk = blk.Succs[1]
				}
			case *ssa.Jump:
				blk = blk.Succs[0]
			default:
				return nil, "", false
			}
		}
	}
	return &set, format, true
}

// pyStringLiteral decodes a (non-raw) Python string literal body.
func pyUnescape(s string) string {
	var out []byte
	for i := 0; i < len(s); i++ {
		if s[i] != '\\' || i+1 >= len(s) {
			out = append(out, s[i])
			continue
		}
		i++
		switch {
		case s[i] >= '0' && s[i] <= '7':
			v := 0
			j := i
			for ; j < len(s) && j < i+3 && s[j] >= '0' && s[j] <= '7'; j++ {
				v = v*8 + int(s[j]-'0')
			}
			out = append(out, byte(v))
			i = j - 1
		case s[i] == 'n':
			out = append(out, '\n')
		case s[i] == 't':
			out = append(out, '\t')
		case s[i] == '\\':
			out = append(out, '\\')
		case s[i] == '\'':
			out = append(out, '\'')
		default:
			out = append(out, '\\', s[i])
		}
	}
	return string(out)
}

func runC10(r *R) {
	w := r.W
	r.Explain = "Structural necessary conditions of C10: (R1) each manifest name encoder escapes at least the bytes 0x00–0x20 and every byte that starts a sequence its paired decoder rewrites (escape sets computed from the regex literals / by interpreting the byte predicate over all 256 values), and emits a form the decoder accepts; found and repaired F2 (sdk/go/manifest.EscapeName did not escape backslash); " +
		"(R2) every explicit panic reachable from the manifest parsing entry points is in a reasoned exception table; (R3) Extract/FileSystem return an error, not a partial result, when parsing fails; (R4) PortableDataHash strips exactly the hints after hash+size and counts the bytes it hashes; " +
		"(R5) the stream range mapper's binary search discards the upper half only under a strict comparison (the loop invariant that makes zero-length blocks safe) — found and repaired F1; (R6) Extract's subtree filter uses path-prefix semantics and scans every stream. Agreement of the three range mappers on values, and Python's _ranges.py, are not decided."
	r.NotDec = []string{"value-level agreement of the Go and Python range mappers", "no-hang (liveness)", "Python _ranges.py"}
	r.Assume = []string{"regexp/syntax parses the literals as regexp does", "the manifest format reserves 0x00–0x20 as delimiters and backslash as the escape introducer"}

	var ctrl byteSet
	for i := 0; i <= 32; i++ {
		ctrl[i] = true
	}

	// ---- R1
	r.Rule("C10-R1", "escape/unescape agreement: escaped set ⊇ {0x00–0x20} ∪ first bytes of the paired decoder's sequences; emitted form is backslash + 3 octal digits", 3)
	// (a) sdk/go/manifest
	if fn := r.NeedFn("C10-R1", mfp+".EscapeName"); fn != nil {
		set, format, ok := escapedSetOfLoop(fn)
		decLit, ok2 := w.GlobalRegexLiteral(mfp + ".escapeSeq")
		if !ok || !ok2 {
			r.Und("C10-R1", fn, "escaped set", fn.Pos(), "cannot interpret the byte predicate or find escapeSeq")
		} else {
			need := ctrl
			fb, ok3 := regexFirstBytes(decLit)
			if ok3 {
				for i := range fb {
					if fb[i] {
						need[i] = true
					}
				}
			}
			miss := set.missingFrom(&need)
			r.Check(ok3 && miss.empty() && format == "\\%03o", "C10-R1", fn, "escaped byte set", fn.Pos(), "escapes "+set.String()+", decoder sequences start with "+fb.String(),
				"EscapeName leaves "+miss.String()+" unescaped although UnescapeName rewrites sequences starting with those bytes: a name containing them does not survive Escape→Unescape (e.g. a file literally named a\\040b comes back as \"a b\")")
		}
	}
	// (b) sdk/go/arvados
	encLit, ok1 := w.GlobalRegexLiteral(arv + ".manifestEscapedChar")
	decLit, ok2 := w.GlobalRegexLiteral(arv + ".manifestEscapeSeq")
	if !ok1 || !ok2 {
		r.addS("C10-R1", arv+".manifestEscape", "regex literals", "-", Undecided, "manifestEscapedChar / manifestEscapeSeq initialisers not found")
	} else {
		set, okS := charClassSet(encLit)
		fb, okF := regexFirstBytes(decLit)
		need := ctrl
		if okF {
			for i := range fb {
				if fb[i] {
					need[i] = true
				}
			}
		}
		okFmt := false
		if fn := w.Fn(arv + ".manifestEscapeFunc"); fn != nil {
			for _, c := range CallsIn(fn, "fmt.Sprintf") {
				if f, _, ok := SprintfCall(c.Value()); ok && f == "\\%03o" {
					okFmt = true
				}
			}
		}
		// the escape function encodes exactly one byte (byte(seq[0])): the class must not match multi-byte runes
		oneByte := true
		if re, err := syntax.Parse(encLit, syntax.Perl); err == nil && re.Op == syntax.OpCharClass {
			for i := 1; i < len(re.Rune); i += 2 {
				if re.Rune[i] > 0x7f {
					oneByte = false
				}
			}
		}
		r.addS("C10-R1", arv+".manifestEscape", "escaped class is single-byte", "-", okIf(oneByte), "every rune the class matches is one byte long, which is all manifestEscapeFunc encodes (a class reaching above 0x7f would match multi-byte UTF-8 characters and their continuation bytes would be dropped)")
		if !okS || !okF {
			r.addS("C10-R1", arv+".manifestEscape", "escaped byte set", "-", Undecided, "regex literal is not a single character class / has no literal start")
		} else {
			miss := set.missingFrom(&need)
			r.addS("C10-R1", arv+".manifestEscape", "escaped byte set", "-", okIf(miss.empty() && okFmt), "escapes "+set.String()+"; decoder sequences start with "+fb.String()+"; missing "+miss.String())
		}
	}
	// (c) Python SDK (literal table read from the source text)
	if src, err := os.ReadFile(w.RepoDir + "/sdk/python/arvados/_normalize_stream.py"); err != nil {
		r.addS("C10-R1", "sdk/python/arvados/_normalize_stream.py:escape", "escaped byte set", "-", Info, "Python SDK not present; sibling not checked")
	} else {
		body := string(src)
		if i := strings.Index(body, "def escape("); i >= 0 {
			body = body[i:]
			if j := strings.Index(body[1:], "\ndef "); j >= 0 {
				body = body[:j+1]
			}
		}
		var set byteSet
		okAll := true
		for _, m := range regexp.MustCompile(`re\.sub\(\s*(r?)'((?:[^'\\]|\\.)*)'`).FindAllStringSubmatch(body, -1) {
			lit := m[2]
			if m[1] == "" {
				lit = pyUnescape(lit)
			}
			s, ok := charClassSet(lit)
			if !ok {
				okAll = false
				continue
			}
			for i := range s {
				if s[i] {
					set[i] = true
				}
			}
		}
		need := ctrl
		need['\\'] = true
		miss := set.missingFrom(&need)
		r.addS("C10-R1", "sdk/python/arvados/_normalize_stream.py:escape", "escaped byte set", "-", okIf(okAll && miss.empty()), "escapes "+set.String()+"; missing "+miss.String())
	}

	// ---- R2
	r.Rule("C10-R2", "explicit panics reachable from the manifest parsing entry points are each justified in the exception table", 2)
	entries := []string{
		"(" + mfp + ".Manifest).Extract", "(*" + mfp + ".Manifest).StreamIter", "(*" + mfp + ".Manifest).FileSegmentIterByName",
		"(*" + mfp + ".Manifest).BlockIterWithDuplicates", mfp + ".ParseBlockLocator", "(*" + mfp + ".ManifestStream).FileSegmentIterByName",
		"(*" + arv + ".dirnode).loadManifest", arv + ".PortableDataHash", "(*" + arv + ".Collection).SizedDigests",
	}
	exceptions := map[string]string{
		arv + ".PortableDataHash$1|err": "hash.Hash.Write (md5) never returns an error",
		"(*" + mfp + ".ManifestStream).sendFileSegmentIterByName|Block end %v comes before start of file segment %v": "first iteration: firstBlock's postcondition rangeStart < blockEnd; later iterations: offsets are non-decreasing",
		"(*" + mfp + ".ManifestStream).sendFileSegmentIterByName|File segment %v extends past end of stream":         "firstBlock returns -1 only for a position outside [0, streamLen), which parseManifestStream rejects; holds for zero-length blocks given the strict-comparison invariant checked by C10-R5",
	}
	seen := map[*ssa.Function]bool{}
	var walk func(f *ssa.Function)
	var reachable []*ssa.Function
	walk = func(f *ssa.Function) {
		if f == nil || seen[f] || len(f.Blocks) == 0 {
			return
		}
		p := f.Package()
		if p == nil || p.Pkg == nil || !(p.Pkg.Path() == modPrefix+mfp || p.Pkg.Path() == modPrefix+arv || p.Pkg.Path() == modPrefix+"sdk/go/blockdigest") {
			return
		}
		seen[f] = true
		reachable = append(reachable, f)
		allInstrs(f, func(in ssa.Instruction) {
			if ci, ok := in.(ssa.CallInstruction); ok {
				walk(StaticCallee(ci.Common()))
			}
			if mc, ok := in.(*ssa.MakeClosure); ok {
				walk(mc.Fn.(*ssa.Function))
			}
		})
	}
	for _, e := range entries {
		fn := r.NeedFn("C10-R2", e)
		walk(fn)
	}
	sort.Slice(reachable, func(i, j int) bool { return reachable[i].String() < reachable[j].String() })
	for _, f := range reachable {
		allInstrs(f, func(in ssa.Instruction) {
			p, ok := in.(*ssa.Panic)
			if !ok || !p.Pos().IsValid() {
				return
			}
			msg := panicMessage(p.X)
			key := fnShort(f) + "|" + msg
			if reason, ok := exceptions[key]; ok {
				r.Ok("C10-R2", f, "panic("+msg+")", p.Pos(), "exception: "+reason)
			} else {
				r.Bad("C10-R2", f, "panic("+msg+")", p.Pos(), "explicit panic reachable from a manifest parsing entry point without a recorded argument that no input reaches it (a malformed or unusual manifest must yield an error, not kill the process)")
			}
		})
	}
	r.Extra["C10-R2_functions_reachable"] = len(reachable)

	// ---- R3
	r.Rule("C10-R3", "errors, not partial results: Extract sets Text only when segment() succeeded; segment() returns at the first stream error; FileSystem publishes the root only when loadManifest returned nil", 2)
	if fn := r.NeedFn("C10-R3", "("+mfp+".Manifest).Extract"); fn != nil {
		segs := CallsIn(fn, "(*"+mfp+".Manifest).segment")
		for _, st := range StoresToField(fn, mfp+".Manifest", "Text") {
			ok := len(segs) == 1
			if ok {
				g, _ := Guard(fn, segs[0].(ssa.Instruction), st, ErrNilC(segs[0]))
				ok = g
			}
			r.Check(ok, "C10-R3", fn, "ret.Text = …", st.Pos(), "only when segment() returned no error", "Extract can produce manifest text although parsing the source manifest failed")
		}
		nErr := 0
		for _, st := range StoresToField(fn, mfp+".Manifest", "Err") {
			nErr++
			_ = st
		}
		r.Check(nErr > 0, "C10-R3", fn, "ret.Err = err", fn.Pos(), "the error is reported", "segment()'s error is dropped")
	}
	if fn := r.NeedFn("C10-R3", "(*"+mfp+".Manifest).segment"); fn != nil {
		// a return with non-nil error guarded by stream.Err != nil exists and dominates use of the stream's segments
		found := false
		for _, ret := range Returns(fn) {
			succ, _ := IsSuccessReturn(ret)
			if succ {
				continue
			}
			for _, v := range returnOperand(ret, ret.Results[1]) {
				if v != nil && strings.Contains(Canon(v), "ManifestStream.Err") {
					found = true
				}
			}
		}
		r.Check(found, "C10-R3", fn, "return nil, stream.Err", fn.Pos(), "first bad stream aborts", "a stream with a parse error no longer aborts segment(): later output would silently omit it")
	}
	// ---- R4
	r.Rule("C10-R4", "PortableDataHash: blkRe ≡ ^ [0-9a-f]{32}\\+\\d+ (keeps exactly hash+size); the size is the number of bytes written to the MD5", 2)
	if lit, ok := w.GlobalRegexLiteral(arv + ".blkRe"); !ok {
		r.addS("C10-R4", arv+".blkRe", "regex literal", "-", Undecided, "initialiser not found")
	} else {
		r.addS("C10-R4", arv+".blkRe", "regex literal", "-", okIf(regexCanon(lit) == regexCanon(`^ [0-9a-f]{32}\+\d+`)), "literal "+lit)
	}
	if lit, ok := r.W.GlobalRegexLiteral(arv + ".tokRe"); !ok {
		r.addS("C10-R4", arv+".tokRe", "regex literal", "-", Undecided, "initialiser not found")
	} else {
		r.addS("C10-R4", arv+".tokRe", "regex literal", "-", okIf(regexCanon(lit) == regexCanon(` ?[^ ]*`)), "tokeniser ≡ ` ?[^ ]*`: every byte of the manifest (including bare and trailing spaces) belongs to a token and is hashed; literal "+lit)
	}
	if outer := r.NeedFn("C10-R4", arv+".PortableDataHash"); outer != nil {
		ok := false
		for _, cl := range Closures(outer) {
			for _, wcall := range CallsMatching(cl, func(n string, c *ssa.CallCommon) bool { return c.IsInvoke() && bareName(n) == "Write" }) {
				// size += n with n = result 0 of this Write
				allInstrs(cl, func(in ssa.Instruction) {
					if st, ok2 := in.(*ssa.Store); ok2 {
						if bo, ok3 := Strip(st.Val).(*ssa.BinOp); ok3 && bo.Op == token.ADD {
							if IsResultOfCall(Resolve1(bo.Y), wcall.Value(), 0) || IsResultOfCall(Resolve1(bo.X), wcall.Value(), 0) {
								ok = true
							}
						}
					}
				})
			}
		}
		r.Check(ok, "C10-R4", outer, "size += n (bytes hashed)", outer.Pos(), "the +size suffix counts exactly the bytes written to the hash", "portable data hash size is not the number of bytes hashed")
	}

	// ---- R5
	r.Rule("C10-R5", "firstBlock (stream offset → block index): the search range's upper bound is lowered (hi = i) only when rangeStart is strictly below the probed block's start or end — otherwise an interior zero-length block makes the search miss a valid position", 1)
	if fn := r.NeedFn("C10-R5", mfp+".firstBlock"); fn != nil {
		rs := paramOf(fn, "rangeStart")
		// simpler, robust formulation on the branch structure: locate the If whose two arms assign lo=i / hi=i
		okStrict, found := firstBlockStrict(fn, rs)
		if !found {
			r.Und("C10-R5", fn, "hi = i", fn.Pos(), "cannot locate the branch that narrows the search range")
		} else {
			r.Check(okStrict, "C10-R5", fn, "hi = i", fn.Pos(), "upper half discarded only under a strict comparison with the probed block's bounds",
				"the upper half is discarded when rangeStart == blockStart: with an interior zero-length block (offsets …,5,5,…) the block that really contains the position is skipped, firstBlock returns -1 and the caller panics on a valid manifest")
		}
	}

	// ---- R7
	r.Rule("C10-R7", "loadManifest: per-stream state (block cursor pos/segIdx, anyFileTokens) is re-initialised for every stream; the only state carried across streams is the index, dirname and the explicitly reset block list", 1)
	if fn := r.NeedFn("C10-R7", "(*"+arv+".dirnode).loadManifest"); fn != nil {
		// outer loop: the rangeindex loop whose body contains the call to createFileAndParents and which is not nested in another loop
		var outer *ssa.BasicBlock
		for _, c := range CallsIn(fn, "(*"+arv+".dirnode).createFileAndParents") {
			for h := loopHeaderOf(c.Block()); h != nil; h = loopHeaderOf(h.Idom()) {
				outer = h
				if h.Idom() == nil {
					break
				}
			}
		}
		if outer == nil {
			r.Und("C10-R7", fn, "per-stream loop", fn.Pos(), "not found")
		} else {
			var carried []string
			okSegReset := false
			for _, in := range outer.Instrs {
				p, ok := in.(*ssa.Phi)
				if !ok {
					continue
				}
				switch p.Comment {
				case "rangeindex", "dirname":
				case "segments":
					// must be re-sliced to length 0 at the top of the body
					for _, ref := range *p.Referrers() {
						if sl, ok := ref.(*ssa.Slice); ok && sl.High != nil {
							if h, _ := ConstInt(sl.High); h == 0 && loopHeaderOf(sl.Block()) == outer {
								okSegReset = true
							}
						}
					}
					if !okSegReset {
						carried = append(carried, "segments (not reset)")
					}
				default:
					carried = append(carried, p.Comment)
				}
			}
			r.Check(len(carried) == 0, "C10-R7", fn, "state carried across streams", outer.Instrs[0].Pos(), "only index, dirname and the reset block list", "per-stream state leaks into the next stream: "+strings.Join(carried, ", ")+" — a later stream whose first file token starts at a non-zero offset is mapped to the wrong block or rejected")
		}
	}

	// ---- R6
	r.Rule("C10-R6", "Extract subtree filter: a stream is emitted only under HasPrefix(k, srcpath+\"/\") ∨ k == srcpath, and the scan visits every stream (no early exit, whole slice)", 1)
	extractFilterRule(r, "C10-R6")
}

// extractFilterRule: shape of manifest.Extract's multi-stream subtree selection (shared by C10 and C17).
func extractFilterRule(r *R, rule string) {
	if fn := r.NeedFn(rule, "("+mfp+".segmentedManifest).manifestTextForPath"); fn != nil {
		n := 0
		for _, c := range CallsIn(fn, "("+mfp+".segmentedStream).normalizedText") {
			// only the one inside a loop over stream names
			hdr := loopHeaderOf(c.Block())
			if hdr == nil {
				continue
			}
			n++
			g := GuardOrPass(fn, nil, c.(ssa.Instruction), nil,
				TrueC("HasPrefix(k, srcpath+\"/\")", func(v ssa.Value) bool {
					cc, ok := Resolve1(v).(*ssa.Call)
					if !ok || CalleeName(cc.Common()) != "strings.HasPrefix" {
						return false
					}
					parts := ConcatParts(cc.Call.Args[1])
					if len(parts) != 2 {
						return false
					}
					s, _ := ConstString(parts[1])
					return s == "/"
				}),
				EqC("k == srcpath", AnyV, AnyV))
			r.Check(g, rule, fn, "emit stream k", c.Pos(), "guarded by path-prefix test", "streams are selected by plain string prefix: extracting ./run1 also picks up ./run10 and ./run1.bak")
			// loop exits only by exhaustion, ranging the whole slice
			body := loopBody(hdr)
			okExit := true
			for b := range body {
				for _, s := range b.Succs {
					if !body[s] && b != hdr {
						okExit = false
					}
				}
			}
			whole := true
			allInstrs(fn, func(in ssa.Instruction) {
				if sl, ok := in.(*ssa.Slice); ok && in.Block().Dominates(hdr) {
					if typeString(sl.Type()) == "[]string" && sl.Low != nil {
						if _, isAlloc := sl.X.(*ssa.Alloc); !isAlloc {
							whole = false
						}
					}
				}
			})
			r.Check(okExit && whole, rule, fn, "scan of all streams", c.Pos(), "loop leaves only by exhaustion and covers the whole list", "the scan over stream names can stop early or starts mid-list: descendants of the extracted directory that sort after an unrelated sibling are silently dropped")
		}
		if n == 0 {
			r.Bad(rule, fn, "emit stream k", fn.Pos(), "multi-stream emission loop not found")
		}
	}
}

// firstBlockStrict finds the If in the search loop whose arms assign lo=i and
// hi=i (seen as phi edges at the loop header) and decides whether the hi-arm is
// taken only under a strict "rangeStart < bound".
func firstBlockStrict(fn *ssa.Function, rs ssa.Value) (strict bool, found bool) {
	// Variables are recognised by their role, not by their name: the probe index is whatever indexes the offsets
	// parameter; the upper bound is the loop-carried value that starts at len(offsets)-1.
	var offsets ssa.Value
	for _, p := range fn.Params {
		if _, isSlice := p.Type().Underlying().(*types.Slice); isSlice {
			offsets = p
		}
	}
	probes := map[ssa.Value]bool{}
	allInstrs(fn, func(in ssa.Instruction) {
		if ia, ok := in.(*ssa.IndexAddr); ok && Strip(ia.X) == offsets {
			probes[Strip(ia.Index)] = true
		}
	})
	isProbe := func(v ssa.Value) bool {
		v = Strip(v)
		if probes[v] {
			return true
		}
		if p, ok := v.(*ssa.Phi); ok { // the loop-carried probe index: every arriving value indexes offsets
			for _, e := range p.Edges {
				if !probes[Strip(e)] {
					return false
				}
			}
			return len(p.Edges) > 0
		}
		return false
	}
	isUpperInit := func(v ssa.Value) bool {
		bo, ok := Strip(v).(*ssa.BinOp)
		if !ok || bo.Op != token.SUB {
			return false
		}
		c, ok := Strip(bo.X).(*ssa.Call)
		one, okC := ConstInt(bo.Y)
		return ok && okC && one == 1 && CalleeName(c.Common()) == "builtin.len" && Strip(c.Call.Args[0]) == offsets
	}
	// the upper-bound variable: the phi that starts at len(offsets)-1, and every non-probe phi that flows into it
	upperSet := map[*ssa.Phi]bool{}
	allInstrs(fn, func(in ssa.Instruction) {
		if phi, ok := in.(*ssa.Phi); ok {
			for _, e := range phi.Edges {
				if isUpperInit(e) {
					upperSet[phi] = true
				}
			}
		}
	})
	for changed := true; changed; {
		changed = false
		for phi := range upperSet {
			for _, e := range phi.Edges {
				if p2, ok := Strip(e).(*ssa.Phi); ok && !upperSet[p2] && !isProbe(p2) {
					upperSet[p2] = true
					changed = true
				}
			}
		}
	}
	for _, b := range fn.Blocks {
		for _, in := range b.Instrs {
			phi, ok := in.(*ssa.Phi)
			if !ok || !upperSet[phi] {
				continue
			}
			for ei, e := range phi.Edges {
				if !isProbe(e) {
					continue
				}
				// the edge on which hi = i: walk up single-predecessor blocks to the deciding If
				p := b.Preds[ei]
				child := p
				for len(p.Instrs) == 1 && len(p.Preds) == 1 {
					if _, isJump := p.Instrs[0].(*ssa.Jump); !isJump {
						break
					}
					child = p
					p = p.Preds[0]
				}
				iff, ok := lastInstr(p).(*ssa.If)
				if !ok {
					continue
				}
				bo, ok := Strip(iff.Cond).(*ssa.BinOp)
				if !ok || !(same(bo.X, rs) || same(bo.Y, rs)) {
					continue
				}
				side := 0
				if p.Succs[1] == child {
					side = 1
				}
				found = true
				op := bo.Op
				if side == 1 { // fact is the negation
					switch op {
					case token.GTR:
						op = token.LEQ
					case token.GEQ:
						op = token.LSS
					case token.LSS:
						op = token.GEQ
					case token.LEQ:
						op = token.GTR
					}
				}
				if !same(bo.X, rs) { // bound OP rs → rs OP' bound
					switch op {
					case token.GTR:
						op = token.LSS
					case token.LSS:
						op = token.GTR
					case token.GEQ:
						op = token.LEQ
					case token.LEQ:
						op = token.GEQ
					}
				}
				return op == token.LSS, true
			}
		}
	}
	return false, false
}

// panicMessage: constant message or the Sprintf format of a panic argument.
func panicMessage(v ssa.Value) string {
	v = Strip(v)
	if s, ok := ConstString(v); ok {
		return s
	}
	if f, _, ok := SprintfCall(v); ok {
		return f
	}
	if p, ok := v.(*ssa.Parameter); ok {
		return p.Name()
	}
	if e, ok := v.(*ssa.Extract); ok {
		_ = e
		return "err"
	}
	return "?"
}

// loopHeaderOf: innermost block H that dominates b and has a back edge from a block dominated by H that can reach... (b in its body).
func loopHeaderOf(b *ssa.BasicBlock) *ssa.BasicBlock {
	for h := b; h != nil; h = h.Idom() {
		body := loopBody(h)
		if len(body) > 1 && body[b] {
			return h
		}
	}
	return nil
}

// loopBody: natural loop of header h (empty if h has no back edge).
func loopBody(h *ssa.BasicBlock) map[*ssa.BasicBlock]bool {
	body := map[*ssa.BasicBlock]bool{}
	var stack []*ssa.BasicBlock
	for _, p := range h.Preds {
		if h.Dominates(p) {
			if !body[p] {
				body[p] = true
				stack = append(stack, p)
			}
		}
	}
	if len(stack) == 0 {
		return body
	}
	body[h] = true
	for len(stack) > 0 {
		x := stack[len(stack)-1]
		stack = stack[:len(stack)-1]
		if x == h {
			continue
		}
		for _, p := range x.Preds {
			if !body[p] {
				body[p] = true
				stack = append(stack, p)
			}
		}
	}
	return body
}
