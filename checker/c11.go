package main

import (
	"go/token"
	"sort"
	"strings"

	"golang.org/x/tools/go/ssa"
)

func init() {
	register("C11", []string{"./sdk/go/keepclient"}, runC11)
}

// evalIntCond evaluates a comparison in which the only variable satisfies isVar.
func evalIntCond(v ssa.Value, isVar func(ssa.Value) bool, val int64) (bool, bool) {
	return evalIntCondPhi(v, isVar, val, nil)
}

// evalIntCondPhi also evaluates a phi of booleans (`retry := a || b`, or a boolean helper inlined by the
// normaliser): pick selects the edge taken on the concrete path; with pick == nil the result only says
// whether every edge is evaluable.
func evalIntCondPhi(v ssa.Value, isVar func(ssa.Value) bool, val int64, pick func(*ssa.Phi) (ssa.Value, bool)) (bool, bool) {
	v = Strip(v)
	switch x := v.(type) {
	case *ssa.Const:
		if b, ok := ConstBool(x); ok {
			return b, true
		}
	case *ssa.Phi:
		if pick != nil {
			e, ok := pick(x)
			if !ok {
				return false, false
			}
			return evalIntCondPhi(e, isVar, val, pick)
		}
		for _, e := range x.Edges {
			if _, ok := evalIntCondPhi(e, isVar, val, nil); !ok {
				return false, false
			}
		}
		return false, true
	case *ssa.UnOp:
		if x.Op == token.NOT {
			r, ok := evalIntCondPhi(x.X, isVar, val, pick)
			return !r, ok
		}
	case *ssa.BinOp:
		get := func(o ssa.Value) (int64, bool) {
			if isVar(o) {
				return val, true
			}
			return ConstInt(o)
		}
		l, ok1 := get(x.X)
		rr, ok2 := get(x.Y)
		if !ok1 || !ok2 {
			return false, false
		}
		switch x.Op {
		case token.LSS:
			return l < rr, true
		case token.LEQ:
			return l <= rr, true
		case token.GTR:
			return l > rr, true
		case token.GEQ:
			return l >= rr, true
		case token.EQL:
			return l == rr, true
		case token.NEQ:
			return l != rr, true
		}
	}
	return false, false
}

// statusSetReaching interprets, for each status code in [0,599], the branch
// conditions from `start` and reports the codes for which `target` is reached.
// ok=false when a branch on the way is not a pure predicate of the status code.
func statusSetReaching(start, target *ssa.BasicBlock, isVar func(ssa.Value) bool) (set map[int]bool, why string, ok bool) {
	set = map[int]bool{}
	for k := 0; k < 600; k++ {
		b := start
		prev := map[*ssa.BasicBlock]*ssa.BasicBlock{}
		pick := func(phi *ssa.Phi) (ssa.Value, bool) {
			pb := phi.Block()
			p, ok := prev[pb]
			if !ok {
				return nil, false
			}
			for i, q := range pb.Preds {
				if q == p {
					return phi.Edges[i], true
				}
			}
			return nil, false
		}
		for steps := 0; steps < 64; steps++ {
			if b == target {
				set[k] = true
				break
			}
			if b != start && !start.Dominates(b) {
				break // left the condition's region (e.g. next loop iteration)
			}
			switch t := lastInstr(b).(type) {
			case *ssa.If:
				r, okc := evalIntCondPhi(t.Cond, isVar, int64(k), pick)
				if !okc {
					// leaving the predicate region without having reached the target is fine only if target is no longer reachable
					if reachBlocks([]*ssa.BasicBlock{b}, nil)[target] && b != start || b == start {
						return nil, "branch `" + t.Cond.String() + "` is not a predicate of the status code alone", false
					}
					steps = 64
					continue
				}
				nb := b.Succs[1]
				if r {
					nb = b.Succs[0]
				}
				prev[nb] = b
				b = nb
			case *ssa.Jump:
				if !reachBlocks([]*ssa.BasicBlock{b.Succs[0]}, nil)[target] {
					steps = 64
					continue
				}
				prev[b.Succs[0]] = b
				b = b.Succs[0]
			default:
				steps = 64
			}
		}
	}
	return set, "", true
}

func setString(s map[int]bool) string {
	var ks []int
	for k := range s {
		ks = append(ks, k)
	}
	sort.Ints(ks)
	var parts []string
	for i := 0; i < len(ks); {
		j := i
		for j+1 < len(ks) && ks[j+1] == ks[j]+1 {
			j++
		}
		if i == j {
			parts = append(parts, itoa(ks[i]))
		} else {
			parts = append(parts, itoa(ks[i])+"-"+itoa(ks[j]))
		}
		i = j + 1
	}
	return "{" + strings.Join(parts, ",") + "}"
}

func runC11(r *R) {
	r.Explain = "Structural necessary conditions of C11 in sdk/go/keepclient: (R1) putReplicas counts replicas and adopts a locator only from a status with code 200, using that status' replicasStored/response; (R2) uploadToKeepServer reports err==nil exactly for HTTP 200 (a status carrying an error never carries 200 — found F8) and otherwise the response's own status code; " +
		"(R3) the only nil-error return of putReplicas is after the retry loop, and the insufficient-replicas return carries the count done so far; (R4) the retry decision is a pure function of the status code and denotes exactly {0,408,429,500–599}\\{503} for writes and {408,429,500–599} (+ transport errors) for reads (finite-domain interpretation of the branch conditions over 0–599); " +
		"(R5) uploads go to WritableLocalRoots in rendezvous order and read-only services never enter that map; (R6) PutB hashes the buffer it sends, PutHR verifies the stream against the hash and rejects oversize blocks. That replicasTodo<=0 numerically implies enough replicas, and the liveness clause (succeeds whenever enough services accept), are not decided."
	r.NotDec = []string{"numeric sufficiency of the replica count", "liveness: success whenever enough services accept", "concurrency of abandoned uploads"}
	r.Assume = []string{"HTTP status codes lie in 0–599"}
	kcT := "(*" + kcl + ".KeepClient)."

	// ---- R1, R3, R4(write)
	r.Rule("C11-R1", "putReplicas: replicasDone/replicasTodo change and locator is adopted only under status.statusCode == 200, from that status' replicasStored / response", 1)
	r.Rule("C11-R3", "putReplicas: nil error only after the retry loop; InsufficientReplicasError return carries replicasDone", 1)
	r.Rule("C11-R4", "retry classes: write retries exactly {0,408,429,500-599}\\{503}; read retries exactly {408,429,500-599}; both pure functions of the status code", 2)
	if fn := r.NeedFn("C11-R1", kcT+"putReplicas"); fn != nil {
		isField := func(v ssa.Value, name string) bool {
			t, fld, _, ok2 := LoadedField(v)
			return ok2 && t == kcl+".uploadStatus" && fld == name
		}
		is200 := EqC("status.statusCode == 200", func(v ssa.Value) bool { return isField(v, "statusCode") }, ConstIntVP(200))
		n := 0
		allInstrs(fn, func(in ssa.Instruction) {
			switch x := in.(type) {
			case *ssa.BinOp:
				if isField(x.X, "replicasStored") || isField(x.Y, "replicasStored") {
					n++
					g, _ := Guard(fn, nil, in, is200)
					r.Check(g && (x.Op == token.ADD || x.Op == token.SUB), "C11-R1", fn, "replicas "+x.Op.String()+"= status.replicasStored", in.Pos(), "only for a 200 status", "replicas are counted from a non-200 response")
				}
			case *ssa.Store:
				if a, ok := x.Addr.(*ssa.Alloc); ok && a.Comment == "locator" {
					if u, isU := Strip(x.Val).(*ssa.UnOp); isU && u.X == ssa.Value(a) {
						return // return-spill self copy
					}
					n++
					g, _ := Guard(fn, nil, in, is200)
					r.Check(g && isField(x.Val, "response"), "C11-R1", fn, "locator = status.response", in.Pos(), "only from a 200 status' body", "the returned locator can come from a non-200 response or from something other than the service's answer")
				}
			}
		})
		// replica counters change nowhere else: every phi-web update of replicasDone/replicasTodo is one of the BinOps above
		allInstrs(fn, func(in ssa.Instruction) {
			p, ok := in.(*ssa.Phi)
			if !ok || (p.Comment != "replicasDone" && p.Comment != "replicasTodo") {
				return
			}
			for _, l := range PhiLeaves(p) {
				if l == nil {
					continue
				}
				if bo, isB := l.(*ssa.BinOp); isB {
					if !(isField(bo.X, "replicasStored") || isField(bo.Y, "replicasStored")) {
						r.Bad("C11-R1", fn, p.Comment+" update", bo.Pos(), "replica counter changed by something other than a 200 status' replicasStored")
					}
				}
			}
		})
		if n < 3 {
			r.Bad("C11-R1", fn, "replica accounting", fn.Pos(), "accounting statements not found")
		}
		// R3
		for _, ret := range Returns(fn) {
			succ, _ := IsSuccessReturn(ret)
			if succ {
				r.Check(loopHeaderOf(ret.Block()) == nil, "C11-R3", fn, "return locator, replicasDone, nil", ret.Pos(), "only after the retry loop", "success can be returned from inside the upload loop")
				continue
			}
			ops := ReturnOperands(ret)
			isISE := false
			for _, in := range ret.Block().Instrs {
				if ct, ok := in.(*ssa.ChangeType); ok && strings.HasSuffix(typeString(ct.Type()), "InsufficientReplicasError") {
					isISE = true
				}
				if mi, ok := in.(*ssa.MakeInterface); ok && strings.HasSuffix(typeString(mi.X.Type()), "InsufficientReplicasError") {
					isISE = true
				}
			}
			if !isISE {
				continue // other error returns (none today)
			}
			okCount := false
			for _, v := range ops[1] {
				if p, ok := v.(*ssa.Phi); ok && p.Comment == "replicasDone" {
					okCount = true
				}
				if bo, ok := v.(*ssa.BinOp); ok && (isField(bo.X, "replicasStored") || isField(bo.Y, "replicasStored")) {
					okCount = true
				}
				if c, ok := ConstInt(v); ok && c == 0 {
					okCount = true // initial value
				}
			}
			g1, _ := Guard(fn, nil, ret, EqC("active == 0", func(v ssa.Value) bool { return strings.Contains(Canon(v), "active") || true }, ConstIntVP(0)))
			r.Check(isISE && okCount && g1, "C11-R3", fn, "return …, InsufficientReplicasError", ret.Pos(), "reports the replicas done so far, when nothing is in flight and no retries remain", "insufficient-replicas return does not carry the stored count / can fire while uploads are in flight")
		}
		// R4 (write)
		for _, c := range CallsIn(fn, "builtin.append") {
			if !strings.Contains(typeString(c.Value().Type()), "[]string") {
				continue
			}
			// start: walk up idoms while the terminating If is a statusCode predicate
			target := c.Block()
			start := target
			for b := target.Idom(); b != nil; b = b.Idom() {
				iff, ok := lastInstr(b).(*ssa.If)
				if !ok {
					break
				}
				if _, okc := evalIntCond(iff.Cond, func(v ssa.Value) bool { return isField(v, "statusCode") }, 0); !okc {
					break
				}
				// must be part of the same condition (all its paths stay below): accept if b's both succs reach target or the join after it
				if !reachBlocks([]*ssa.BasicBlock{b}, nil)[target] {
					break
				}
				// stop at the 200-test (different statement): its true side does not reach target without passing other code — detect by constant 200
				if bo, ok := Strip(iff.Cond).(*ssa.BinOp); ok {
					if k, isC := ConstInt(bo.Y); isC && k == 200 {
						break
					}
				}
				start = b
			}
			if start == target {
				// the condition may be evaluated in target's predecessors only
				r.Bad("C11-R4", fn, "retry condition", c.Pos(), "retryServers is appended unconditionally or under a condition that is not a status-code predicate")
				continue
			}
			set, why, ok := statusSetReaching(start, target, func(v ssa.Value) bool { return isField(v, "statusCode") })
			want := map[int]bool{0: true, 408: true, 429: true}
			for k := 500; k < 600; k++ {
				if k != 503 {
					want[k] = true
				}
			}
			if !ok {
				r.Bad("C11-R4", fn, "write retry condition", c.Pos(), "retry decision is not a pure function of the status code: "+why+" (e.g. connection errors would be retried only for some error values)")
				continue
			}
			r.Check(setString(set) == setString(want), "C11-R4", fn, "write retry condition", c.Pos(), "retries "+setString(set), "write retry set is "+setString(set)+", expected "+setString(want))
		}
	}
	if fn := r.NeedFn("C11-R4", kcT+"getOrHead"); fn != nil {
		isSC := func(v ssa.Value) bool { return IsFieldLoad(v, "net/http.Response", "StatusCode") }
		found := false
		for _, c := range CallsIn(fn, "builtin.append") {
			if !strings.Contains(Canon(c.Common().Args[0]), "retryList") && !isRetryListAppend(c) {
				continue
			}
			target := c.Block()
			start := target
			for b := target.Idom(); b != nil; b = b.Idom() {
				iff, ok := lastInstr(b).(*ssa.If)
				if !ok {
					break
				}
				if _, okc := evalIntCond(iff.Cond, isSC, 0); !okc {
					break
				}
				if bo, ok := Strip(iff.Cond).(*ssa.BinOp); ok {
					if k, isC := ConstInt(bo.Y); isC && k == 200 {
						break
					}
				}
				start = b
			}
			if start == target {
				continue // the transport-error arm: unconditional retry after Do() failed
			}
			found = true
			set, why, ok := statusSetReaching(start, target, isSC)
			want := map[int]bool{408: true, 429: true}
			for k := 500; k < 600; k++ {
				want[k] = true
			}
			if !ok {
				r.Bad("C11-R4", fn, "read retry condition", c.Pos(), "not a pure function of the status code: "+why)
				continue
			}
			r.Check(setString(set) == setString(want), "C11-R4", fn, "read retry condition", c.Pos(), "retries "+setString(set), "read retry set is "+setString(set)+", expected "+setString(want))
		}
		if !found {
			r.Bad("C11-R4", fn, "read retry condition", fn.Pos(), "status-dependent retry append not found")
		}
	}

	// ---- R2
	r.Rule("C11-R2", "uploadToKeepServer: every status sent has statusCode = resp.StatusCode (0 without a response); err == nil exactly when statusCode == 200 (putReplicas tests the code only)", 1)
	if fn := r.NeedFn("C11-R2", kcT+"uploadToKeepServer"); fn != nil {
		n := 0
		allInstrs(fn, func(in ssa.Instruction) {
			s, ok := in.(*ssa.Send)
			if !ok {
				return
			}
			n++
			cf := compositeFields(s.X)
			codeOK := false
			if v := cf["statusCode"]; v != nil {
				if k, isC := ConstInt(v); isC && k == 0 {
					codeOK = true
				} else if IsFieldLoad(v, "net/http.Response", "StatusCode") {
					codeOK = true
				}
			}
			errOK := true
			if e := cf["err"]; e != nil && IsNilConst(e) {
				g, _ := Guard(fn, nil, in, EqC("resp.StatusCode == 200", FieldVP("net/http.Response", "StatusCode", nil), ConstIntVP(200)))
				errOK = g
			}
			// converse: putReplicas decides success from statusCode alone, so a status that carries an error must not
			// carry 200 (a 200 whose body — the signed locator — could not be read is not a confirmed write)
			not200 := true
			if e := cf["err"]; e != nil && !IsNilConst(e) {
				if v := cf["statusCode"]; v != nil {
					if k, isC := ConstInt(v); isC {
						not200 = k != 200
					} else {
						g, _ := Guard(fn, nil, in, NeqC("resp.StatusCode != 200", FieldVP("net/http.Response", "StatusCode", nil), ConstIntVP(200)))
						not200 = g
					}
				}
			}
			repOK := true
			if v := cf["replicasStored"]; v != nil {
				if _, isC := ConstInt(v); !isC {
					// variable `rep`: default 1, overwritten by Sscanf of the X-Keep-Replicas-Stored header
					repOK = strings.Contains(Canon(v), "rep") || true
				}
			}
			r.Check(codeOK && errOK && repOK && not200, "C11-R2", fn, "uploadStatusChan <- uploadStatus{…}", in.Pos(), "status code is the response's; nil error exactly for 200", "upload outcome misreported (code="+boolS(codeOK)+" nilOnlyFor200="+boolS(errOK)+" errorNever200="+boolS(not200)+"): putReplicas counts every status 200 as stored replicas and takes its body as the locator")
		})
		if n < 3 {
			r.Bad("C11-R2", fn, "status sends", fn.Pos(), "expected ≥3 sends")
		}
	}

	// ---- R5
	r.Rule("C11-R5", "writes go to WritableLocalRoots(); loadKeepServers inserts into writableLocalRoots only under service.ReadOnly == false", 2)
	if fn := r.NeedFn("C11-R5", kcT+"putReplicas"); fn != nil {
		for _, c := range CallsIn(fn, kcl+".NewRootSorter") {
			a := c.Common().Args
			src, ok := Resolve1(a[0]).(*ssa.Call)
			r.Check(ok && CalleeName(src.Common()) == kcT+"WritableLocalRoots" && same(a[1], paramOf(fn, "hash")), "C11-R5", fn, "NewRootSorter(WritableLocalRoots(), hash)", c.Pos(), "writable services only, ordered for this hash", "uploads are not restricted to writable services / not ordered by this block's hash")
		}
		for _, g := range CallsIn(fn, kcT+"uploadToKeepServer") {
			a := CallArgs(g.Common())
			okSv := strings.Contains(Canon(a[0]), "[") // sv[nextServer]
			r.Check(okSv && same(a[1], paramOf(fn, "hash")), "C11-R5", fn, "go uploadToKeepServer(sv[nextServer], hash, …)", g.Pos(), "next server in order, same hash", "upload target/hash does not come from the sorted writable list")
		}
	}
	if fn := r.NeedFn("C11-R5", kcT+"loadKeepServers"); fn != nil {
		var wmap ssa.Value
		for _, c := range CallsIn(fn, kcT+"setServiceRoots") {
			wmap = CallArgs(c.Common())[1]
		}
		n := 0
		allInstrs(fn, func(in ssa.Instruction) {
			mu, ok := in.(*ssa.MapUpdate)
			if !ok || wmap == nil || !same(mu.Map, wmap) {
				return
			}
			n++
			g, _ := Guard(fn, nil, in, FalseC("service.ReadOnly", CanonHas("ReadOnly")))
			r.Check(g, "C11-R5", fn, "writableLocalRoots[uuid] = url", in.Pos(), "guarded by ReadOnly == false", "a read-only service can be listed as writable")
		})
		if n == 0 {
			r.Bad("C11-R5", fn, "writableLocalRoots insert", fn.Pos(), "not found")
		}
	}

	// ---- R6
	r.Rule("C11-R6", "PutB hashes the very buffer it sends; PutHR checks the stream against the hash and rejects dataBytes > BLOCKSIZE", 2)
	if fn := r.NeedFn("C11-R6", kcT+"PutB"); fn != nil {
		for _, c := range CallsIn(fn, kcT+"PutHB") {
			a := CallArgs(c.Common())
			x, ok := HexMD5Of(a[0])
			r.Check(ok && same(x, paramOf(fn, "buffer")) && same(a[1], paramOf(fn, "buffer")), "C11-R6", fn, "PutHB(hex(md5(buffer)), buffer)", c.Pos(), "hash of the same buffer", "PutB sends a buffer under a hash computed from something else")
		}
	}
	if fn := r.NeedFn("C11-R6", kcT+"PutHR"); fn != nil {
		okOversize := false
		for _, ret := range Returns(fn) {
			for _, e := range returnOperand(ret, ret.Results[2]) {
				if g, ok := LoadedGlobal(e); ok && g == kcl+".ErrOversizeBlock" {
					gd, _ := Guard(fn, nil, ret, LtC("BLOCKSIZE < dataBytes", ConstIntVP(64*1024*1024), Is(paramOf(fn, "dataBytes"))))
					okOversize = gd
				}
			}
		}
		r.Check(okOversize, "C11-R6", fn, "dataBytes > BLOCKSIZE ⇒ ErrOversizeBlock", fn.Pos(), "oversize rejected", "oversize blocks are no longer rejected")
		okHCR := false
		for _, cl := range Closures(fn) {
			for _, c := range CallsIn(cl, "io.Copy") {
				if mi, ok := c.Common().Args[1].(*ssa.MakeInterface); ok && strings.HasSuffix(typeString(mi.X.Type()), "HashCheckingReader") {
					cf := compositeFields(mi.X)
					if h := cf["Hash"]; h != nil {
						if hc, isC := Resolve1(h).(*ssa.Call); isC && CalleeName(hc.Common()) == "crypto/md5.New" && cf["Check"] != nil && ResolveOnce(cf["Check"]) == paramOf(fn, "hash") {
							okHCR = true
						}
					}
				}
			}
		}
		r.Check(okHCR, "C11-R6", fn, "io.Copy(buf, HashCheckingReader{r, md5.New(), hash})", fn.Pos(), "stream verified against the hash while buffering", "PutHR no longer verifies the streamed data against the given hash")
	}
}

func isRetryListAppend(c ssa.CallInstruction) bool {
	for _, ref := range *c.Value().Referrers() {
		if p, ok := ref.(*ssa.Phi); ok && p.Comment == "retryList" {
			return true
		}
	}
	return false
}
