package main

import (
	"go/token"
	"os"
	"regexp"
	"strings"

	"golang.org/x/tools/go/ssa"
)

func init() {
	register("C12", []string{"./sdk/go/keepclient", "./services/keep-balance"}, runC12)
}

func runC12(r *R) {
	w := r.W
	kcT := "(*" + kcl + ".KeepClient)."
	rsT := "(" + kcl + ".RootSorter)."
	r.Explain = "Structural necessary conditions of C12: (R1) every ordering of Keep services for probing in the Go client and keep-balance is produced by NewRootSorter(...).GetSortedRoots() with the block's 32-character hash, over LocalRoots (reads), WritableLocalRoots (writes) and uuid↦uuid (balancer); readers iterate that list in index order and writers start uploads at sv[nextServer] with nextServer only incremented; " +
		"(R2) the weight is hex(md5(hash + uuid[12:])) for 27-character UUIDs (hash+uuid otherwise) and Less sorts by descending weight; the Python SDK uses the last 15 characters too; (R3) weights depend only on (hash, uuid) and roots only on the map value; " +
		"(R4) usable +K@ hints are appended before the sorted local roots and an unusable hint never stops the scan of later hints; (R5) the balancer's server ranking is the index in that sorted list. Stability under membership change follows mathematically from R3 (not separately checked); request order on the wire under concurrency is not decided."
	r.NotDec = []string{"stability under membership change (follows from R3, stated not checked)", "order of requests on the wire under concurrency"}
	r.Assume = []string{"sort.Sort orders by Less", "crypto/md5"}

	// ---- R1
	r.Rule("C12-R1", "single sorter: probe orders come from NewRootSorter(map, 32-char hash).GetSortedRoots() over LocalRoots / WritableLocalRoots / uuid↦uuid; readers iterate in index order; writers advance nextServer monotonically", 5)
	nSites := 0
	for _, fn := range w.ModuleFuncs() {
		p := fn.Package().Pkg.Path()
		if p != modPrefix+kcl && p != modPrefix+kb {
			continue
		}
		if strings.HasSuffix(w.Fset.Position(fn.Pos()).Filename, "_test.go") {
			continue
		}
		for _, c := range CallsIn(fn, kcl+".NewRootSorter") {
			nSites++
			a := c.Common().Args
			name := fnShort(fn)
			okMap, okHash := false, false
			switch name {
			case kcT + "getSortedRoots":
				src, ok := Resolve1(a[0]).(*ssa.Call)
				okMap = ok && CalleeName(src.Common()) == kcT+"LocalRoots"
				x, lo, hi, isS := SliceParts(a[1])
				h, _ := ConstInt(hi)
				l := int64(0)
				if lo != nil {
					l, _ = ConstInt(lo)
				}
				okHash = isS && same(x, paramOf(fn, "locator")) && l == 0 && h == 32
			case kcT + "putReplicas":
				src, ok := Resolve1(a[0]).(*ssa.Call)
				okMap = ok && CalleeName(src.Common()) == kcT+"WritableLocalRoots"
				okHash = same(a[1], paramOf(fn, "hash"))
			case "(*" + kb + ".Balancer).balanceBlock":
				okMap = IsFieldLoad(a[0], kb+".Balancer", "serviceRoots")
				x, lo, hi, isS := SliceParts(Strip(a[1]))
				h, _ := ConstInt(hi)
				okHash = isS && lo == nil && h == 32 && strings.Contains(Canon(x), "blkid")
			default:
				r.Bad("C12-R1", fn, "NewRootSorter call", c.Pos(), "a new probe-order site: not one of read / write / balance")
				continue
			}
			// result used via GetSortedRoots
			usedOK := false
			for _, ref := range *c.Value().Referrers() {
				if u, ok := ref.(*ssa.UnOp); ok {
					for _, rr := range *u.Referrers() {
						if cc, ok := rr.(*ssa.Call); ok && CalleeName(cc.Common()) == rsT+"GetSortedRoots" {
							usedOK = true
						}
					}
				}
				if cc, ok := ref.(*ssa.Call); ok && strings.HasSuffix(CalleeName(cc.Common()), "GetSortedRoots") {
					usedOK = true
				}
			}
			r.Check(okMap && okHash && usedOK, "C12-R1", fn, "NewRootSorter(map, hash).GetSortedRoots()", c.Pos(), "right service map, the block's 32-char hash", "probe order computed from the wrong service set or hash (map="+boolS(okMap)+" hash="+boolS(okHash)+" used="+boolS(usedOK)+")")
		}
	}
	if nSites < 3 {
		r.addS("C12-R1", "-", "NewRootSorter sites", "-", Violation, "expected read, write and balance sites; found "+itoa(nSites))
	}
	if fn := r.NeedFn("C12-R1", "(*"+kb+".Balancer).setupLookupTables"); fn != nil {
		n := 0
		allInstrs(fn, func(in ssa.Instruction) {
			mu, ok := in.(*ssa.MapUpdate)
			if !ok || !IsFieldLoad(mu.Map, kb+".Balancer", "serviceRoots") {
				return
			}
			n++
			r.Check(SameCanon(mu.Key, mu.Value) && strings.Contains(Canon(mu.Key), "KeepService.UUID"), "C12-R1", fn, "serviceRoots[srv.UUID] = srv.UUID", in.Pos(), "keyed and valued by the service UUID", "balancer's sorter input is not uuid ↦ uuid")
		})
		if n == 0 {
			r.Bad("C12-R1", fn, "serviceRoots fill", fn.Pos(), "not found")
		}
	}
	if fn := r.NeedFn("C12-R1", kcT+"getOrHead"); fn != nil {
		gs := CallsIn(fn, kcT+"getSortedRoots")
		ok := len(gs) == 1 && same(CallArgs(gs[0].Common())[0], paramOf(fn, "locator"))
		// ranged in index order: a rangeindex phi over serversToTry (phi of getSortedRoots result / retryList)
		okRange := false
		allInstrs(fn, func(in ssa.Instruction) {
			ia, isIA := in.(*ssa.IndexAddr)
			if !isIA {
				return
			}
			if p, isP := Strip(ia.X).(*ssa.Phi); isP && p.Comment == "serversToTry" {
				if idx, isB := Strip(ia.Index).(*ssa.BinOp); isB && idx.Op == token.ADD {
					if k, _ := ConstInt(idx.Y); k == 1 {
						okRange = true
					}
				}
			}
		})
		r.Check(ok && okRange, "C12-R1", fn, "for _, host := range getSortedRoots(locator)", fn.Pos(), "servers tried in list order", "readers do not walk the sorted list in order")
	}
	if fn := r.NeedFn("C12-R1", kcT+"putReplicas"); fn != nil {
		okMono := true
		nInc := 0
		allInstrs(fn, func(in ssa.Instruction) {
			p, ok := in.(*ssa.Phi)
			if !ok || p.Comment != "nextServer" {
				return
			}
			for _, l := range PhiLeaves(p) {
				if l == nil {
					okMono = false
					continue
				}
				if k, isC := ConstInt(l); isC {
					if k != 0 {
						okMono = false
					}
					continue
				}
				bo, isB := l.(*ssa.BinOp)
				if !isB || bo.Op != token.ADD {
					okMono = false
					continue
				}
				if k, _ := ConstInt(bo.Y); k != 1 {
					okMono = false
				}
				nInc++
			}
		})
		r.Check(okMono && nInc > 0, "C12-R1", fn, "nextServer++", fn.Pos(), "writers take servers in list order (index only reset to 0 or incremented by 1)", "the upload index is changed other than by +1 / reset: writers may skip or reorder servers")
	}

	// ---- R2 + R3
	r.Rule("C12-R2", "weight = Md5String(hash + uuid[12:]) when len(uuid)==27, else Md5String(hash+uuid); Md5String = hex md5; Less(i,j) = weight[order[j]] < weight[order[i]] (descending); Python sibling uses service_uuid[-15:]", 4)
	r.Rule("C12-R3", "order depends on (hash, uuid) only: weight[i] from the hash parameter and the map key; root[i] from the map value", 1)
	if fn := r.NeedFn("C12-R2", rsT+"getWeight"); fn != nil {
		hash, uuid := paramOf(fn, "hash"), paramOf(fn, "uuid")
		n := 0
		for _, ret := range Returns(fn) {
			for _, v := range ReturnOperands(ret)[0] {
				n++
				c, ok := v.(*ssa.Call)
				if !ok || CalleeName(c.Common()) != kcl+".Md5String" {
					r.Bad("C12-R2", fn, "return weight", ret.Pos(), "weight is not Md5String(...)")
					continue
				}
				parts := ConcatParts(c.Call.Args[0])
				okv := len(parts) == 2 && same(parts[0], hash)
				if okv {
					// the suffix may be chosen first (`suffix := uuid; if len(uuid)==27 { suffix = uuid[12:] }`): decide per arriving value
					var phi *ssa.Phi
					leaves := []ssa.Value{parts[1]}
					if p, isPhi := Strip(parts[1]).(*ssa.Phi); isPhi {
						phi = p
						leaves = p.Edges
						n += len(leaves) - 1
					}
					for k, leaf := range leaves {
						guard := func(cp CP) bool {
							if phi != nil {
								return GuardLeaf(fn, phi, k, ret, cp)
							}
							g, _ := Guard(fn, nil, ret, cp)
							return g
						}
						if same(leaf, uuid) {
							okv = okv && guard(NeqC("len(uuid) != 27", lenVP, ConstIntVP(27)))
						} else {
							x, lo, hi, isS := SliceParts(leaf)
							l, _ := ConstInt(lo)
							okv = okv && isS && same(x, uuid) && hi == nil && lo != nil && l == 27-15 && guard(EqC("len(uuid) == 27", lenVP, ConstIntVP(27)))
						}
					}
				}
				r.Check(okv, "C12-R2", fn, "return Md5String(hash + uuid[12:])", ret.Pos(), "hash followed by the last 15 characters of a 27-character uuid", "weight is not md5(hash + last 15 chars of the uuid)")
			}
		}
		if n != 2 {
			r.Bad("C12-R2", fn, "weights", fn.Pos(), "expected two weight returns")
		}
	}
	if fn := r.NeedFn("C12-R2", kcl+".Md5String"); fn != nil {
		for _, ret := range Returns(fn) {
			x, ok := HexMD5Of(ret.Results[0])
			okv := ok
			if ok {
				cv, isC := Strip(x).(*ssa.Convert)
				_ = cv
				okv = isC || same(x, paramOf(fn, "s"))
				if isC {
					okv = same(x, paramOf(fn, "s"))
				}
			}
			r.Check(okv, "C12-R2", fn, "hex(md5(s))", ret.Pos(), "lowercase hex MD5 of the string", "Md5String is not the lowercase hex MD5 of its argument")
		}
	}
	if fn := r.NeedFn("C12-R2", rsT+"Less"); fn != nil {
		for _, ret := range Returns(fn) {
			lo, hi, strict, ok := NormLess(ret.Results[0])
			okv := ok && strict
			if okv {
				// lo = weight[order[j]], hi = weight[order[i]]  (written `lo < hi` or `hi > lo`)
				isW := func(v ssa.Value, p string) bool {
					c := Canon(v)
					return strings.Contains(c, "param:"+p) && strings.Contains(c, "RootSorter.weight") && strings.Contains(c, "RootSorter.order")
				}
				okv = isW(lo, "j") && isW(hi, "i") && !strings.Contains(Canon(lo), "param:i") && !strings.Contains(Canon(hi), "param:j")
			}
			r.Check(okv, "C12-R2", fn, "weight[order[j]] < weight[order[i]]", ret.Pos(), "descending by weight", "sort direction or key changed")
		}
	}
	if src, err := os.ReadFile(w.RepoDir + "/sdk/python/arvados/keep.py"); err != nil {
		r.addS("C12-R2", "sdk/python/arvados/keep.py", "weight slice", "-", Info, "Python SDK not present")
	} else {
		m := regexp.MustCompile(`hashlib\.md5\(\(data_hash \+ service_uuid\[(-?\d+):\]\)`).FindStringSubmatch(string(src))
		r.addS("C12-R2", "sdk/python/arvados/keep.py:_service_weight", "service_uuid[-15:]", "-", okIf(m != nil && m[1] == "-15"), "Python sibling hashes data_hash + last 15 characters")
	}
	if fn := r.NeedFn("C12-R3", kcl+".NewRootSorter"); fn != nil {
		hash := paramOf(fn, "hash")
		allInstrs(fn, func(in ssa.Instruction) {
			st, ok := in.(*ssa.Store)
			if !ok {
				return
			}
			ia, isIA := st.Addr.(*ssa.IndexAddr)
			if !isIA {
				return
			}
			_, f, _, okf := LoadedField(ia.X)
			if !okf {
				return
			}
			switch f {
			case "weight":
				c, isC := Resolve1(st.Val).(*ssa.Call)
				okv := isC && CalleeName(c.Common()) == rsT+"getWeight"
				if okv {
					a := CallArgs(c.Common())
					e, isE := Resolve1(a[1]).(*ssa.Extract)
					okv = same(a[0], hash) && isE && e.Index == 1 // key of the ranged map
				}
				r.Check(okv, "C12-R3", fn, "rs.weight[i] = getWeight(hash, uuid)", in.Pos(), "from the hash parameter and the map key only", "weights depend on something other than (hash, uuid)")
			case "root":
				e, isE := Resolve1(st.Val).(*ssa.Extract)
				r.Check(isE && e.Index == 2, "C12-R3", fn, "rs.root[i] = root", in.Pos(), "the map value", "roots are not the map's values")
			}
		})
	}

	// ---- R4
	r.Rule("C12-R4", "getSortedRoots: hint URIs (7-char cluster form; 29-char form with a GatewayRoots hit) are appended before the sorted local roots; the hint loop has no exit other than exhaustion", 1)
	if fn := r.NeedFn("C12-R4", kcT+"getSortedRoots"); fn != nil {
		var sorterAppend ssa.Instruction
		var hintAppends []ssa.Instruction
		for _, c := range CallsIn(fn, "builtin.append") {
			if strings.Contains(Canon(c.Common().Args[1]), "GetSortedRoots") || appendOfSorted(c) {
				sorterAppend = c.(ssa.Instruction)
			} else {
				hintAppends = append(hintAppends, c.(ssa.Instruction))
			}
		}
		if sorterAppend == nil || len(hintAppends) < 1 {
			r.Bad("C12-R4", fn, "appends", fn.Pos(), "hint appends / sorted-roots append not found")
		} else {
			hdr := loopHeaderOf(hintAppends[0].Block())
			okOrder := hdr != nil && !loopBody(hdr)[sorterAppend.Block()] && hdr.Dominates(sorterAppend.Block())
			okExit := hdr != nil
			if hdr != nil {
				body := loopBody(hdr)
				for b := range body {
					for _, s := range b.Succs {
						if !body[s] && b != hdr {
							okExit = false
						}
					}
				}
			}
			r.Check(okOrder, "C12-R4", fn, "hints before sorted roots", sorterAppend.Pos(), "sorted local roots are appended after the hint loop", "local roots are not appended after all hints")
			r.Check(okExit, "C12-R4", fn, "hint scan covers every hint", hintAppends[0].Pos(), "the hint loop leaves only when all +-fields were examined", "an unusable hint can end the scan: later usable hints in the locator are ignored")
			c7 := EqC("len(hint)==7", lenVP, ConstIntVP(7))
			c29 := EqC("len(hint)==29", lenVP, ConstIntVP(29))
			for _, h := range hintAppends {
				// the URI appended may be one value merged from several outcomes (a helper returning (uri, ok)): each
				// outcome that can reach the append is judged on its own paths
				var phi *ssa.Phi
				if elems, ok := VarargElems(h.(ssa.CallInstruction).Common().Args[1]); ok && len(elems) == 1 && elems[0] != nil {
					phi, _ = Strip(elems[0]).(*ssa.Phi)
				}
				if phi != nil {
					okAll := true
					for k := range phi.Edges {
						if !ReachSel(fn, h, EdgeSet{}, phi.Block(), k) {
							continue
						}
						if !GuardLeaf(fn, phi, k, h, c7, c29) {
							okAll = false
						}
					}
					r.Check(okAll, "C12-R4", fn, "append(found, hintURI)", h.Pos(), "only for 7-char (cluster) or 29-char (gateway) K@ hints", "a hint of another shape is used")
					continue
				}
				g7, _ := Guard(fn, nil, h, c7)
				g29, _ := Guard(fn, nil, h, c29)
				r.Check(g7 || g29, "C12-R4", fn, "append(found, hintURI)", h.Pos(), "only for 7-char (cluster) or 29-char (gateway) K@ hints", "a hint of another shape is used")
			}
		}
	}

	// ---- R6
	r.Rule("C12-R6", "balanceBlock runs concurrently for different blocks (ComputeChangeSets workers): it writes no field of the shared KeepService/KeepMount/Balancer/BlockState objects — per-block ranks live in locals", 1)
	if fn := w.Fn("(*" + kb + ".Balancer).balanceBlock"); fn != nil {
		shared := map[string]bool{kb + ".KeepService": true, kb + ".KeepMount": true, kb + ".Balancer": true, kb + ".BlockState": true, kb + ".Replica": true, "sdk/go/arvados.KeepService": true, "sdk/go/arvados.KeepMount": true}
		nStores, bad := 0, 0
		for _, f := range append([]*ssa.Function{fn}, Closures(fn)...) {
			allInstrs(f, func(in ssa.Instruction) {
				st, ok := in.(*ssa.Store)
				if !ok {
					return
				}
				nStores++
				t, fld, base, okf := FieldName(st.Addr)
				if !okf || !shared[t] || isFreshObject(base) {
					return
				}
				bad++
				r.Bad("C12-R6", f, "store "+t+"."+fld, in.Pos(), "per-block state is written into an object shared by the concurrent balanceBlock workers: one block's ranking is overwritten by another's before its sort finishes")
			})
		}
		if bad == 0 {
			r.Ok("C12-R6", fn, "no shared-object stores", fn.Pos(), itoa(nStores)+" stores examined, all to locals")
		}
	}

	// ---- R5
	r.Rule("C12-R5", "balanceBlock: srvRendezvous[srv] = index in the sorted uuid list; the slot comparator consults it", 1)
	if fn := w.Fn("(*" + kb + ".Balancer).balanceBlock"); fn != nil {
		n := 0
		allInstrs(fn, func(in ssa.Instruction) {
			mu, ok := in.(*ssa.MapUpdate)
			if !ok || !strings.Contains(typeString(mu.Map.Type()), "KeepService]int") {
				return
			}
			n++
			// key = bal.KeepServices[sorted[I]] and value = the same I, sorted = GetSortedRoots() (range or index loop)
			okv := false
			okKey := false
			if lk, isL := Resolve1(mu.Key).(*ssa.Lookup); isL && strings.Contains(Canon(lk.X), "KeepServices") {
				if u, isU := Resolve1(lk.Index).(*ssa.UnOp); isU && u.Op == token.MUL {
					if ia, isIA := u.X.(*ssa.IndexAddr); isIA {
						if cc, isC := Resolve1(ia.X).(*ssa.Call); isC && strings.HasSuffix(CalleeName(cc.Common()), "GetSortedRoots") {
							okKey = true
							okv = Strip(ia.Index) == Strip(mu.Value) || Resolve1(ia.Index) == Resolve1(mu.Value)
						}
					}
				}
			}
			r.Check(okv && okKey, "C12-R5", fn, "srvRendezvous[srv] = i", in.Pos(), "rank = position in the rendezvous order", "server rank is not its position in the rendezvous-sorted list")
		})
		used := false
		for _, cl := range Closures(fn) {
			allInstrs(cl, func(in ssa.Instruction) {
				if l, ok := in.(*ssa.Lookup); ok && strings.Contains(Canon(l.X), "srvRendezvous") {
					used = true
				}
			})
		}
		r.Check(n > 0 && used, "C12-R5", fn, "comparator uses srvRendezvous", fn.Pos(), "slot ranking consults the rendezvous position", "slot ranking no longer uses the rendezvous order")
	} else {
		r.addS("C12-R5", "(*"+kb+".Balancer).balanceBlock", "anchor", "-", Undecided, "not found")
	}
}

// appendOfSorted: append(found, X...) where X is the result of GetSortedRoots.
func appendOfSorted(c ssa.CallInstruction) bool {
	a := c.Common().Args
	if len(a) != 2 {
		return false
	}
	cc, ok := Resolve1(a[1]).(*ssa.Call)
	return ok && strings.HasSuffix(CalleeName(cc.Common()), "GetSortedRoots")
}
