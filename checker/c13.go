package main

import (
	"go/token"
	"go/types"
	"strings"

	"golang.org/x/tools/go/ssa"
)

const arv = "sdk/go/arvados"

func init() {
	register("C13", []string{"./sdk/go/arvados"}, runC13)
}

// inodeLockClass: any inode's RWMutex (filenode/treenode embed sync.RWMutex;
// the inode interface exposes Lock/RLock/Unlock/RUnlock). All inode locks are
// one class: the analysis decides "some inode lock is held in the required
// mode here", not which object's.
func inodeLockClass(annot map[string]int) *LockClass {
	return &LockClass{
		Name: "the inode lock",
		Classify: func(c *ssa.CallCommon) int {
			name := CalleeName(c)
			switch name {
			case "(" + arv + ".inode).Lock", "(sync.Locker).Lock":
				if c.IsInvoke() && isInodeIface(c.Value) {
					return 2
				}
			case "(" + arv + ".inode).Unlock", "(sync.Locker).Unlock":
				if c.IsInvoke() && isInodeIface(c.Value) {
					return -2
				}
			case "(" + arv + ".inode).RLock":
				return 1
			case "(" + arv + ".inode).RUnlock":
				return -1
			}
			op, recv := mutexOp(c)
			if op == 0 {
				return 0
			}
			if t, f, _, ok := FieldName(recv); ok && f == "RWMutex" && (t == arv+".filenode" || t == arv+".treenode") {
				return op
			}
			return 0
		},
		Annotated: annot,
	}
}

func isInodeIface(v ssa.Value) bool {
	s := typeString(v.Type())
	return strings.HasSuffix(s, arv+".inode") || strings.HasSuffix(s, "arvados.inode")
}

// segStores: stores into fn.segments[i] (element stores through a load of filenode.segments).
func segElemStores(fn *ssa.Function) []*ssa.Store {
	var out []*ssa.Store
	allInstrs(fn, func(in ssa.Instruction) {
		if st, ok := in.(*ssa.Store); ok {
			if ia, ok := st.Addr.(*ssa.IndexAddr); ok {
				if t, f, _, ok := LoadedField(ia.X); ok && t == arv+".filenode" && f == "segments" {
					out = append(out, st)
				}
			}
		}
	})
	return out
}

// storedSegmentFields: for a value that is a storedSegment composite (load of a
// local struct filled by field stores), returns field → stored value.
func compositeFields(v ssa.Value) map[string]ssa.Value {
	out := map[string]ssa.Value{}
	u, ok := Strip(v).(*ssa.UnOp)
	if !ok {
		return out
	}
	al, ok := u.X.(*ssa.Alloc)
	if !ok {
		return out
	}
	for _, ref := range *al.Referrers() {
		if fa, ok := ref.(*ssa.FieldAddr); ok {
			_, name, _, _ := FieldName(fa)
			for _, rr := range *fa.Referrers() {
				if st, ok := rr.(*ssa.Store); ok && st.Addr == fa {
					out[name] = st.Val
				}
			}
		}
	}
	return out
}

func isLenOf(v ssa.Value, what func(ssa.Value) bool) bool {
	c, ok := Resolve1(v).(*ssa.Call)
	if !ok {
		c, ok = ResolveOnce(Resolve1(v)).(*ssa.Call) // `n := len(x)` hoisted out of the closure that uses it
	}
	return ok && CalleeName(c.Common()) == "builtin.len" && what(c.Call.Args[0])
}

func runC13(r *R) {
	w := r.W
	r.Explain = "Structural necessary conditions of C13 on sdk/go/arvados' collection filesystem: (R1) filenode.segments/memsize/repacked and memSegment.buf/flushing are written only under an inode write lock and the repo's 'caller must have lock' functions are only called with one (lockset analysis; all inode locks form one class); " +
		"(R2) both background-flush goroutines replace a memory segment by a stored one only under the file's lock, after PutB succeeded, and after re-validating that the segment is still the one that was captured (same index, same object, same flushing token, same length); " +
		"(R3) copy-on-write: memSegment.WriteAt/Truncate never modify in place a buffer that is being flushed, and the buffer handed to PutB is the one captured under the lock; " +
		"(R4) every inode lock taken is released on every path, and every write-throttle token acquired is released by the spawned goroutine on every path; (R5) marshalManifest waits for pending prunes before locking children; Rename takes the filesystem-wide lock first. " +
		"Deadlock freedom in general and final-content linearizability are not decided."
	r.NotDec = []string{"deadlock freedom between arbitrary inode pairs", "final content equals some sequential order (history-level)", "which object's lock is held (locks are one class)"}
	r.Assume = []string{"sync.RWMutex semantics", "contextGroup.Go closures finish before cg.Wait returns"}
	r.Rule("C13-R1", "filenode/memSegment state only written under an inode write lock; 'caller must have lock' functions only called with one", 15)

	annot := map[string]int{
		"(*" + arv + ".filenode).seek":                 lkR,
		"(*" + arv + ".filenode).Read":                 lkR,
		"(*" + arv + ".filenode).Write":                lkW,
		"(*" + arv + ".filenode).truncate":             lkW,
		"(*" + arv + ".filenode).pruneMemSegments":     lkW,
		"(*" + arv + ".dirnode).commitBlock":           lkW,
		"(*" + arv + ".dirnode).flush":                 lkW,
		"(*" + arv + ".dirnode).marshalManifest":       lkW,
		"(*" + arv + ".dirnode).sortedNames":           lkR,
		"(*" + arv + ".dirnode).MemorySize":            lkR,
		"(*" + arv + ".memSegment).Truncate":           lkW,
		"(*" + arv + ".memSegment).WriteAt":            lkW,
		"(*" + arv + ".memSegment).Len":                lkR,
		"(*" + arv + ".memSegment).Slice":              lkR,
		"(*" + arv + ".memSegment).ReadAt":             lkR,
		"(*" + arv + ".memSegment).flushingUnfinished": lkW,
		"(*" + arv + ".filenode).appendSegment":        lkW,
		"(" + arv + ".inode).Read":                     lkR,
		"(" + arv + ".inode).Write":                    lkW,
	}
	lr := &LockRule{
		Rule:  "C13-R1",
		Class: inodeLockClass(annot),
		Guarded: map[string]map[string]bool{
			arv + ".filenode":   {"segments": true, "memsize": true, "repacked": true},
			arv + ".memSegment": {"buf": true, "flushing": true},
		},
		ReadFuncs:     map[string]bool{},
		SyncCallbacks: map[string]bool{"sort.Slice": true, "(*" + arv + ".contextGroup).Go": true},
		Exempt: map[string]string{
			"(*" + arv + ".dirnode).loadManifest": "documented no-lock constructor: the tree is built before FileSystem() publishes it (fs.root is assigned only after loadManifest returns nil — checked below)",
		},
	}
	var fns []*ssa.Function
	for _, fn := range w.FuncsIn(arv) {
		f := w.fileOf(fn)
		if f == "fs_collection.go" || f == "fs_filehandle.go" || f == "fs_base.go" {
			fns = append(fns, fn)
		}
	}
	lr.Run(r, fns)

	// cg.Go closures inherit the lock only because the spawning function waits: every function that calls cg.Go calls cg.Wait on every normal path.
	for _, fn := range fns {
		gos := CallsIn(fn, "(*"+arv+".contextGroup).Go")
		if len(gos) == 0 || fn.Parent() != nil {
			continue
		}
		waits := CallsInDeep(fn, "(*"+arv+".contextGroup).Wait")
		r.Check(len(waits) > 0, "C13-R1", fn, "cg.Go … cg.Wait", fn.Pos(), "the spawning function waits for its contextGroup", "closures run via contextGroup.Go are assumed to run under the caller's lock, but the function never waits for them")
	}
	// publication after construction
	if fn := r.NeedFn("C13-R1", "(*"+arv+".Collection).FileSystem"); fn != nil {
		lm := CallsIn(fn, "(*"+arv+".dirnode).loadManifest")
		for _, st := range StoresToField(fn, arv+".collectionFileSystem", "root") {
			ok := len(lm) == 1 && Precedes(lm[0], st)
			if ok {
				g, _ := Guard(fn, lm[0].(ssa.Instruction), st, ErrNilC(lm[0]))
				ok = g
			}
			r.Check(ok, "C13-R1", fn, "fs.root = root", st.Pos(), "published only after loadManifest returned nil", "the tree is published before/without loadManifest succeeding (the no-lock constructor exemption would be unsound)")
		}
	}

	r.Rule("C13-R3", "copy-on-write: a buffer being flushed is never modified in place (WriteAt, Truncate); PutB receives the buffer captured under the lock", 4)
	// ---- R2
	r.Rule("C13-R2", "flush goroutines: fn.segments[idx] = storedSegment{…} only under fn.Lock(), PutB err==nil, and after re-validating index/identity/flushing token/length", 2)
	flushSwapRules(r, "C13-R2", "C13-R3")
	lc := inodeLockClass(map[string]int{})

	// ---- R4 PAIR
	r.Rule("C13-R4", "every inode Lock/RLock is released on every path (defer or explicit, consistent with immutable mode flags); every throttle Acquire is followed on every path by a goroutine that always Releases", 15)
	for _, fn := range fns {
		exits := Exits(fn)
		allInstrs(fn, func(in ssa.Instruction) {
			c, ok := in.(*ssa.Call)
			if !ok {
				return
			}
			op := lc.Classify(c.Common())
			if op <= 0 {
				return
			}
			switch fn.Name() {
			case "Lock", "RLock":
				return // lock-forwarding wrappers of collectionFileSystem
			}
			_, recv := mutexOp(c.Common())
			if recv == nil {
				recv = c.Common().Value
			}
			key := Canon(recv)
			avoid := map[ssa.Instruction]bool{}
			allInstrs(fn, func(x ssa.Instruction) {
				ci, ok := x.(ssa.CallInstruction)
				if !ok {
					return
				}
				if lc.Classify(ci.Common()) != -op {
					return
				}
				_, rv := mutexOp(ci.Common())
				if rv == nil {
					rv = ci.Common().Value
				}
				if Canon(rv) == key {
					avoid[x] = true // explicit unlock, or defer of unlock (registered ⇒ runs at exit)
				}
			})
			cut := CorrelatedCut(fn, in)
			leak := false
			for _, e := range exits {
				if Reach(fn, in, e, cut, avoid) {
					leak = true
				}
			}
			r.Check(!leak && len(avoid) > 0, "C13-R4", fn, "Lock "+key, in.Pos(), "released on every path", "an inode lock can be left held at function exit (later operations on this inode block forever)")
		})
		throttlePairRule(r, "C13-R4", fn, exits)
		if fn.Parent() == nil && len(CallsIn(fn, "(*"+arv+".throttle).Acquire")) > 0 {
			throttleBeforeLockRule(r, "C13-R4", fn)
		}
	}

	// ---- R5
	r.Rule("C13-R5", "marshalManifest calls waitPrune() on file children before locking them; Rename takes the filesystem-wide lock before any inode lock", 2)
	if fn := r.NeedFn("C13-R5", "(*"+arv+".dirnode).marshalManifest"); fn != nil {
		wps := CallsIn(fn, "(*"+arv+".filenode).waitPrune")
		var firstLock ssa.Instruction
		for _, c := range CallsMatching(fn, func(nm string, c *ssa.CallCommon) bool { return lc.Classify(c) == 2 }) {
			if firstLock == nil || Before(c.(ssa.Instruction), firstLock) {
				firstLock = c.(ssa.Instruction)
			}
		}
		ok := len(wps) > 0 && firstLock != nil
		if ok {
			for _, wp := range wps {
				if reachAvoiding(firstLock, wp.(ssa.Instruction), nil) && !reachAvoiding(wp.(ssa.Instruction), firstLock, nil) {
					ok = false
				}
			}
		}
		r.Check(ok, "C13-R5", fn, "waitPrune() before child.Lock()", fn.Pos(), "pending background writes are awaited before the children are locked", "waitPrune is called while a child lock is held (its flush goroutine needs that lock: deadlock) or not at all")
	}
	if fn := r.NeedFn("C13-R5", "(*"+arv+".fileSystem).Rename"); fn != nil {
		var fsLock ssa.Instruction
		isLockerCall := func(v ssa.Value) bool {
			cc, ok := Resolve1(v).(*ssa.Call)
			return ok && bareName(CalleeName(cc.Common())) == "locker"
		}
		for _, c := range CallsMatching(fn, func(nm string, c *ssa.CallCommon) bool {
			return nm == "(sync.Locker).Lock" && isLockerCall(c.Value)
		}) {
			fsLock = c.(ssa.Instruction)
		}
		ok := fsLock != nil
		nInode := 0
		if ok {
			for _, c := range CallsMatching(fn, func(nm string, c *ssa.CallCommon) bool {
				return lc.Classify(c) > 0 || (nm == "(sync.Locker).Lock" && !isLockerCall(c.Value))
			}) {
				nInode++
				if !MustPassFromEntry(fn, c.(ssa.Instruction), []ssa.Instruction{fsLock}) {
					ok = false
				}
			}
		}
		ok = ok && nInode > 0
		// root-first order: both ancestor chains are collected in full (the walk has no exit other than reaching the
		// filesystem root) and duplicates are skipped only in the lock loop, which runs from the last index down
		okWalk, okDedup, okDown := false, false, false
		for _, c := range CallsMatching(fn, func(nm string, c *ssa.CallCommon) bool { return nm == "("+arv+".inode).Parent" }) {
			if hdr := loopHeaderOf(c.Block()); hdr != nil {
				okWalk = true
				for b := range loopBody(hdr) {
					for _, in := range b.Instrs {
						if _, isL := in.(*ssa.Lookup); isL {
							okWalk = false // de-duplicating while walking up cuts a chain short: an ancestor is then locked after its descendant
						}
					}
				}
			}
		}
		for _, c := range CallsMatching(fn, func(nm string, c *ssa.CallCommon) bool { return nm == "(sync.Locker).Lock" && !isLockerCall(c.Value) }) {
			g, _ := Guard(fn, nil, c.(ssa.Instruction), FalseC("locked[n]", func(v ssa.Value) bool { _, isL := Resolve1(v).(*ssa.Lookup); return isL }))
			okDedup = g
			if hdr := loopHeaderOf(c.Block()); hdr != nil {
				for _, in := range hdr.Instrs {
					if p, isP := in.(*ssa.Phi); isP && p.Comment == "i" {
						for _, e := range p.Edges {
							if bo, isB := Strip(e).(*ssa.BinOp); isB && bo.Op == token.SUB {
								okDown = true
							}
						}
					}
				}
			}
		}
		ok = ok && okWalk && okDedup && okDown
		r.Check(ok, "C13-R5", fn, "fs.locker().Lock() first", fn.Pos(), "rename-wide lock first; full ancestor chains, locked root-first with de-duplication in the lock loop", "Rename does not lock root-first: the filesystem-wide lock is missing, or an ancestor chain is cut short / de-duplicated while walking, so a common ancestor can be locked after a descendant — deadlock against parent-then-child operations (Sync, Flush, Readdir)")
	}
}

// bufLoadAfter: x is a load of memSegment.buf located after the PutB call (i.e. re-read at swap time).
func bufLoadAfter(x ssa.Value, put []ssa.CallInstruction) bool {
	u, ok := Strip(x).(*ssa.UnOp)
	if !ok || len(put) != 1 {
		return false
	}
	return IsFieldLoad(u, arv+".memSegment", "buf") && Before(put[0].(ssa.Instruction), u)
}

// flushRoles finds, in the function that starts a background flush, the segments whose `flushing` field it
// assigns and the tokens assigned — by structure (stores to memSegment.flushing), not by variable name.
type flushRoles struct {
	outer  *ssa.Function
	bases  []ssa.Value // segment values (resolved) whose .flushing is assigned
	tokens []ssa.Value // values assigned (resolved; a MakeChan)
}

func stripIface(v ssa.Value) ssa.Value {
	for {
		v = Strip(v)
		switch x := v.(type) {
		case *ssa.MakeInterface:
			v = x.X
			continue
		case *ssa.ChangeInterface:
			v = x.X
			continue
		}
		return v
	}
}

func findFlushRoles(outer *ssa.Function) *flushRoles {
	fr := &flushRoles{outer: outer}
	allInstrs(outer, func(in ssa.Instruction) {
		st, ok := in.(*ssa.Store)
		if !ok {
			return
		}
		fa, ok := st.Addr.(*ssa.FieldAddr)
		if !ok {
			return
		}
		if t, f, _, ok := FieldName(fa); !ok || t != arv+".memSegment" || f != "flushing" {
			return
		}
		tok := ResolveOnce(st.Val)
		if _, isMC := tok.(*ssa.MakeChan); !isMC {
			return
		}
		fr.bases = append(fr.bases, ResolveOnce(fa.X))
		fr.tokens = append(fr.tokens, tok)
	})
	return fr
}

func (fr *flushRoles) isToken(v ssa.Value) bool {
	x := ResolveOnce(v)
	for _, t := range fr.tokens {
		if x == t {
			return true
		}
	}
	return false
}

func (fr *flushRoles) isSeg(v ssa.Value) bool {
	x := ResolveOnce(stripIface(v))
	for _, b := range fr.bases {
		if x == b {
			return true
		}
	}
	return false
}

// isCapturedBuf: v is the value `seg.buf` had when the enclosing function read it (under the lock) for a
// segment whose flush it started — not a re-read in the goroutine.
func (fr *flushRoles) isCapturedBuf(v ssa.Value) bool {
	x := ResolveOnce(v)
	u, ok := x.(*ssa.UnOp)
	if !ok || u.Parent() != fr.outer || !IsFieldLoad(u, arv+".memSegment", "buf") {
		return false
	}
	fa, ok := u.X.(*ssa.FieldAddr)
	return ok && fr.isSeg(fa.X)
}

// capturedOfType: v is a load of a captured variable (free variable) of the given type.
func capturedOfType(v ssa.Value, typ string) bool {
	u, ok := Strip(v).(*ssa.UnOp)
	if !ok || u.Op != token.MUL {
		return false
	}
	fv, ok := u.X.(*ssa.FreeVar)
	return ok && typeString(u.Type()) == typ && fv != nil
}

// capturedBoolParam: v is the enclosing function's boolean parameter, seen through the closure.
func capturedBoolParam(v ssa.Value) bool {
	p, ok := ResolveOnce(v).(*ssa.Parameter)
	if !ok {
		return false
	}
	b, ok := p.Type().Underlying().(*types.Basic)
	return ok && b.Kind() == types.Bool
}

// flushSwapRules: the background-flush completion handlers and memSegment copy-on-write (shared by C13 and C08).
func flushSwapRules(r *R, ruleSwap, ruleCOW string) {
	lc := inodeLockClass(map[string]int{})
	if outer := r.NeedFn(ruleSwap, "(*"+arv+".filenode).pruneMemSegments"); outer != nil {
		n := 0
		fr := findFlushRoles(outer)
		for _, cl := range ClosuresAndGoBodies(outer) {
			for _, st := range segElemStores(cl) {
				n++
				ls := ComputeLocks(cl, lc, lkNone)
				put := CallsMatching(cl, func(nm string, c *ssa.CallCommon) bool { return bareName(nm) == "PutB" })
				okPut := len(put) == 1
				var gErr bool
				if okPut {
					gErr, _ = Guard(cl, put[0].(ssa.Instruction), st, ErrNilC(put[0]))
				}
				gFl, _ := Guard(cl, nil, st, EqC("seg.flushing == done", FieldVP(arv+".memSegment", "flushing", nil), fr.isToken))
				ia := st.Addr.(*ssa.IndexAddr)
				idxC := Canon(ia.Index)
				gIdx, _ := Guard(cl, nil, st, LtC("idx < len(fn.segments)", CanonVP(idxC), func(v ssa.Value) bool {
					return isLenOf(v, func(x ssa.Value) bool { return IsFieldLoad(x, arv+".filenode", "segments") })
				}))
				gSame, _ := Guard(cl, nil, st, EqC("fn.segments[idx] == seg", func(v ssa.Value) bool {
					u, ok := Strip(v).(*ssa.UnOp)
					if !ok {
						return false
					}
					a, ok := u.X.(*ssa.IndexAddr)
					return ok && IsFieldLoad(a.X, arv+".filenode", "segments") && Canon(a.Index) == idxC
				}, fr.isSeg))
				gLen, _ := Guard(cl, nil, st, EqC("len(seg.buf) == len(buf)", func(v ssa.Value) bool {
					return isLenOf(v, func(x ssa.Value) bool { return IsFieldLoad(x, arv+".memSegment", "buf") })
				}, func(v ssa.Value) bool { return isLenOf(v, fr.isCapturedBuf) }))
				locked := ls.At(st) >= lkW
				r.Check(locked && okPut && gErr && gFl && gIdx && gSame && gLen, ruleSwap, cl, "fn.segments[idx] = storedSegment", st.Pos(),
					"under fn.Lock, PutB ok, flushing token / index / identity / length re-validated",
					"segment swap without (lock="+boolS(locked)+" putErr="+boolS(gErr)+" flushing="+boolS(gFl)+" idx="+boolS(gIdx)+" identity="+boolS(gSame)+" length="+boolS(gLen)+")")
				// R3 part: PutB gets the buffer captured under the lock
				if okPut {
					r.Check(fr.isCapturedBuf(CallArgs(put[0].Common())[0]), ruleCOW, cl, "PutB(buf)", put[0].Pos(), "writes the buffer captured under the lock", "PutB is given a buffer re-read after the lock was released")
				}
			}
		}
		if n == 0 {
			r.Bad(ruleSwap, outer, "segment swap", outer.Pos(), "no store into fn.segments[idx] found in the flush goroutine")
		}
	}
	if outer := r.NeedFn(ruleSwap, "(*"+arv+".dirnode).commitBlock"); outer != nil {
		n := 0
		fr := findFlushRoles(outer)
		for _, cl := range ClosuresAndGoBodies(outer) {
			for _, st := range segElemStores(cl) {
				n++
				cut := CorrelatedCut(cl, st) // consistent valuations of the captured, never-written `sync`
				_ = cut
				ia := st.Addr.(*ssa.IndexAddr)
				idxC := Canon(ia.Index)
				// async mode: all paths on which !sync is true
				asyncFact := TrueC("sync (synchronous mode: caller holds the lock and waits)", capturedBoolParam)
				gIdx := GuardOrPass(cl, nil, st, nil, asyncFact, LtC("ref.idx < len(segments)", CanonVP(idxC), func(v ssa.Value) bool {
					return isLenOf(v, func(x ssa.Value) bool { return IsFieldLoad(x, arv+".filenode", "segments") })
				}))
				gSame := GuardOrPass(cl, nil, st, nil, asyncFact, EqC("seg == segs[idx]", func(v ssa.Value) bool {
					e, ok := Resolve1(v).(*ssa.Extract)
					if !ok {
						return false
					}
					_, isTA := e.Tuple.(*ssa.TypeAssert)
					return isTA
				}, func(v ssa.Value) bool {
					// an element of the captured list of segments being flushed
					u, ok := stripIface(v).(*ssa.UnOp)
					if !ok {
						return false
					}
					ia, ok := u.X.(*ssa.IndexAddr)
					return ok && capturedOfType(ia.X, "[]*"+modPrefix+arv+".memSegment")
				}))
				gFl := GuardOrPass(cl, nil, st, nil, asyncFact, EqC("seg.flushing == done", FieldVP(arv+".memSegment", "flushing", nil), fr.isToken))
				// lock: on async paths Lock() precedes
				var locks []ssa.Instruction
				for _, c := range CallsMatching(cl, func(nm string, c *ssa.CallCommon) bool { return lc.Classify(c) == 2 }) {
					locks = append(locks, c.(ssa.Instruction))
				}
				gLock := GuardOrPass(cl, nil, st, locks, asyncFact)
				put := CallsMatching(cl, func(nm string, c *ssa.CallCommon) bool { return bareName(nm) == "PutB" })
				gErr := false
				if len(put) == 1 {
					gErr, _ = Guard(cl, put[0].(ssa.Instruction), st, ErrNilC(put[0]))
					r.Check(capturedOfType(CallArgs(put[0].Common())[0], "[]byte"), ruleCOW, cl, "PutB(block)", put[0].Pos(), "writes the block assembled under the lock", "PutB is given something other than the block assembled under the lock")
				}
				r.Check(gIdx && gSame && gFl && gLock && gErr, ruleSwap, cl, "ref.fn.segments[ref.idx] = storedSegment", st.Pos(),
					"PutB ok; in async mode: under ref.fn.Lock with index / identity / flushing token re-validated",
					"segment swap without (putErr="+boolS(gErr)+" lock="+boolS(gLock)+" idx="+boolS(gIdx)+" identity="+boolS(gSame)+" flushing="+boolS(gFl)+")")
				// stored length is the segment's *current* buffer length read at swap time
				cf := compositeFields(st.Val)
				lenOK := cf["length"] != nil && isLenOf(cf["length"], func(x ssa.Value) bool {
					return IsFieldLoad(x, arv+".memSegment", "buf") && Before(put[0].(ssa.Instruction), Strip(x).(ssa.Instruction)) || bufLoadAfter(x, put)
				})
				r.Check(lenOK, ruleSwap, cl, "storedSegment.length", st.Pos(), "len of the segment's buffer re-read under the lock at swap time", "stored length is not the segment's current length (a truncate during the background write would be undone)")
			}
		}
		if n == 0 {
			r.Bad(ruleSwap, outer, "segment swap", outer.Pos(), "no store into ref.fn.segments[ref.idx] found in the commit goroutine")
		}
		// sync mode: spawning function blocks on errs
		sawWait := false
		for _, ret := range Returns(outer) {
			for _, v := range returnOperand(ret, ret.Results[0]) {
				if u, ok := v.(*ssa.UnOp); ok && u.Op == token.ARROW {
					g, _ := Guard(outer, nil, ret, TrueC("sync", CanonVP("param:sync")))
					sawWait = sawWait || g
				}
			}
		}
		r.Check(sawWait, ruleSwap, outer, "if sync { return <-errs }", outer.Pos(), "in sync mode the lock holder waits for the goroutine", "sync-mode commitBlock no longer waits for its goroutine: the goroutine would write without any lock held")
		// every non-waiting return is in async mode or before the goroutine started
	}
	// ---- R3 memSegment
	if fn := r.NeedFn(ruleCOW, "(*"+arv+".memSegment).WriteAt"); fn != nil {
		var repl []ssa.Instruction
		for _, st := range StoresToField(fn, arv+".memSegment", "buf") {
			// replacement by a fresh slice (append to nil / make)
			if c, ok := Resolve1(st.Val).(*ssa.Call); ok && CalleeName(c.Common()) == "builtin.append" && IsNilConst(c.Call.Args[0]) {
				repl = append(repl, st)
			}
			if _, ok := Resolve1(st.Val).(*ssa.MakeSlice); ok {
				repl = append(repl, st)
			}
		}
		for _, c := range CallsIn(fn, "builtin.copy") {
			ok := GuardOrPass(fn, nil, c.(ssa.Instruction), repl, EqC("me.flushing == nil", FieldVP(arv+".memSegment", "flushing", nil), NilV))
			r.Check(ok, ruleCOW, fn, "copy(me.buf[off:], p)", c.Pos(), "only when not flushing, or after me.buf was replaced by a private copy", "WriteAt can modify a buffer that a background Keep write is reading")
		}
	}
	if fn := r.NeedFn(ruleCOW, "(*"+arv+".memSegment).Truncate"); fn != nil {
		n := paramOf(fn, "n")
		for _, st := range StoresToField(fn, arv+".memSegment", "buf") {
			sl, ok := Resolve1(st.Val).(*ssa.Slice)
			if !ok || !IsFieldLoad(sl.X, arv+".memSegment", "buf") {
				continue // fresh buffer
			}
			gCap, _ := Guard(fn, nil, st, LeC("n <= cap(me.buf)", Is(n), func(v ssa.Value) bool {
				c, ok := Resolve1(v).(*ssa.Call)
				return ok && CalleeName(c.Common()) == "builtin.cap"
			}))
			gFl, _ := Guard(fn, nil, st, EqC("me.flushing == nil", FieldVP(arv+".memSegment", "flushing", nil), NilV), LeC("n <= len(me.buf)", Is(n), lenVP))
			r.Check(gCap && gFl, ruleCOW, fn, "me.buf = me.buf[:n] (in place)", st.Pos(), "only within capacity and (not flushing or not growing)", "a segment being flushed can grow in place and keep its flushing token: the background write's completion would then install stale/foreign bytes (capacity="+boolS(gCap)+" flushing="+boolS(gFl)+")")
		}
		// the reallocation arm clears the token
		cleared := false
		for _, st := range StoresToField(fn, arv+".memSegment", "flushing") {
			if IsNilConst(st.Val) {
				cleared = true
			}
		}
		r.Check(cleared, ruleCOW, fn, "me.flushing = nil on reallocation", fn.Pos(), "token cleared when the buffer is replaced", "buffer replaced without clearing the flushing token")
	}

}

// throttleBeforeLockRule: in a flush goroutine the throttle token is given back before the goroutine waits for an inode
// lock (the spawning writer may hold that lock while it waits for a token).
func throttleBeforeLockRule(r *R, rule string, outer *ssa.Function) {
	lc := inodeLockClass(map[string]int{})
	for _, cl := range ClosuresAndGoBodies(outer) {
		rels := CallsIn(cl, "(*"+arv+".throttle).Release")
		if len(rels) == 0 {
			continue
		}
		for _, l := range CallsMatching(cl, func(n string, c *ssa.CallCommon) bool { return lc.Classify(c) > 0 }) {
			ok := true
			for _, rel := range rels {
				if _, isDefer := rel.(*ssa.Defer); isDefer {
					ok = false // runs at exit, i.e. after the lock was taken
				}
			}
			if ok {
				var thr []ssa.Instruction
				for _, rel := range rels {
					thr = append(thr, rel.(ssa.Instruction))
				}
				ok = MustPassFromEntry(cl, l.(ssa.Instruction), thr)
			}
			r.Check(ok, rule, cl, "throttle.Release() before inode Lock()", l.Pos(), "token returned before waiting for the file lock", "the flush goroutine waits for the file lock while still holding its throttle token: a writer that holds that lock and waits for a token deadlocks with it once all tokens are out")
		}
	}
}

// throttlePairRule: every throttle token acquired in fn is handed to a goroutine that releases it on every path (shared by C13 and C09).
func throttlePairRule(r *R, rule string, fn *ssa.Function, exits []ssa.Instruction) {
	for _, acq := range CallsIn(fn, "(*"+arv+".throttle).Acquire") {
		// every path from Acquire to exit starts a goroutine whose every path calls Release
		avoid := map[ssa.Instruction]bool{}
		allInstrs(fn, func(x ssa.Instruction) {
			g, ok := x.(*ssa.Go)
			if !ok {
				return
			}
			cl := StaticCallee(g.Common())
			if cl == nil {
				return
			}
			rels := CallsIn(cl, "(*"+arv+".throttle).Release")
			if len(rels) == 0 {
				return
			}
			var thr []ssa.Instruction
			for _, rl := range rels {
				thr = append(thr, rl.(ssa.Instruction))
			}
			all := true
			for _, e := range Exits(cl) {
				if !MustPassFromEntry(cl, e, thr) {
					all = false
				}
			}
			if all {
				avoid[x] = true
			}
		})
		// an explicit Release in this function (early return before the writer is started) also gives the token back
		for _, rl := range CallsIn(fn, "(*"+arv+".throttle).Release") {
			if _, isDefer := rl.(*ssa.Defer); !isDefer {
				avoid[rl.(ssa.Instruction)] = true
			}
		}
		leak := false
		for _, e := range exits {
			if Reach(fn, acq.(ssa.Instruction), e, nil, avoid) {
				leak = true
			}
		}
		r.Check(!leak, rule, fn, "throttle.Acquire", acq.Pos(), "handed to a goroutine that always releases (or released before returning)", "a write-throttle token can leak: after enough leaks every writer blocks forever")
	}
}
