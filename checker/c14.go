package main

import (
	"strings"

	"golang.org/x/tools/go/ssa"
)

const (
	wk  = "lib/dispatchcloud/worker"
	sc  = "lib/dispatchcloud/scheduler"
	ctq = "lib/dispatchcloud/container"
)

func init() {
	register("C14", []string{"./lib/dispatchcloud/..."}, runC14)
}

// poolLockClass: wp.mtx (sync.RWMutex field of Pool) and wkr.mtx (sync.Locker
// field of worker, always &wp.mtx — checked by C14-R3's TABLE obligation).
func poolLockClass() *LockClass {
	return &LockClass{
		Name: "the pool lock (Pool.mtx ≡ worker.mtx)",
		Classify: func(c *ssa.CallCommon) int {
			op, recv := mutexOp(c)
			if op == 0 {
				return 0
			}
			// receiver: &X.mtx with X a *Pool, or load of worker.mtx
			if t, f, _, ok := FieldName(recv); ok && t == wk+".Pool" && f == "mtx" {
				return op
			}
			if t, f, _, ok := LoadedField(recv); ok && t == wk+".worker" && f == "mtx" {
				return op
			}
			return 0
		},
		Annotated: map[string]int{
			// the repository's own "caller must have lock" comments, read and frozen:
			"(*" + wk + ".worker).startContainer":                                lkW,
			"(*" + wk + ".worker).updateRunning":                                 lkW,
			"(*" + wk + ".worker).closeRunner":                                   lkW,
			"(*" + wk + ".worker).shutdown":                                      lkW,
			"(*" + wk + ".worker).shutdownIfIdle":                                lkW,
			"(*" + wk + ".worker).shutdownIfBroken":                              lkW,
			"(*" + wk + ".worker).setIdleBehavior":                               lkW,
			"(*" + wk + ".worker).reportBootOutcome":                             lkW,
			"(*" + wk + ".worker).reportTimeBetweenFirstSSHAndReadyForContainer": lkW,
			"(*" + wk + ".worker).saveTags":                                      lkW,
			"(*" + wk + ".worker).eligibleForShutdown":                           lkR,
			"(*" + wk + ".Pool).updateWorker":                                    lkW,
			"(*" + wk + ".Pool).kill":                                            lkW,
		},
	}
}

func runC14(r *R) {
	w := r.W
	r.Explain = "Structural necessary conditions of C14: (R1) runQueue calls StartContainer only for a Locked, priority>0 container that is not in this pass's Running() set, whose previous process is not being killed, and whose instance type has not been refused earlier in the pass; lockContainer is spawned only for Queued; " +
		"(R2) Pool.StartContainer picks only an Idle/Run worker of the requested type under the pool lock, and Running() unions running, starting and exited; " +
		"(R3) the pool/worker bookkeeping fields are written (and, in the decision functions, read) only under the pool lock, and every 'caller must have lock' function is only called with it (lockset analysis over all schedules); " +
		"(R4) queue Lock/Cancel/requeue-Unlock happen only under the per-UUID latch; (R5) sync never starts containers; (R6) Queue.Update does not clobber entries with updates in flight; " +
		"(R7) a worker's 'updated' stamp is refreshed after crunch-run --detach returns, so a probe sampled before the process existed is discarded. " +
		"Mutual exclusion of remote processes across restarts is not decided."
	r.NotDec = []string{"mutual exclusion of processes on remote VMs across dispatcher restarts", "probe timing"}
	r.Assume = []string{"sync.RWMutex semantics (Go memory model)", "every worker.mtx is &Pool.mtx (checked by the R3 TABLE obligation)"}

	// ---- R3 LOCK
	r.Rule("C14-R3", "pool bookkeeping (Pool.workers/exited/creating, worker.state/running/starting/idleBehavior/updated/destroyed/...) only under the pool lock; 'caller must have lock' functions only called with it", 30)
	lr := &LockRule{
		Rule:  "C14-R3",
		Class: poolLockClass(),
		Guarded: map[string]map[string]bool{
			wk + ".Pool":   {"workers": true, "exited": true, "creating": true, "atQuotaUntil": true, "atQuotaErr": true, "loaded": true, "subscribers": true},
			wk + ".worker": {"state": true, "running": true, "starting": true, "idleBehavior": true, "updated": true, "busy": true, "destroyed": true, "probed": true, "lastUUID": true, "instance": true, "bootOutcomeReported": true, "staleRunLockSince": true, "firstSSHConnection": true, "timeToReadyReported": true},
		},
		ReadFuncs: map[string]bool{
			"(*" + wk + ".Pool).StartContainer":  true,
			"(*" + wk + ".Pool).Running":         true,
			"(*" + wk + ".Pool).KillContainer":   true,
			"(*" + wk + ".Pool).Unallocated":     true,
			"(*" + wk + ".Pool).Shutdown":        true,
			"(*" + wk + ".Pool).CountWorkers":    true,
			"(*" + wk + ".Pool).ForgetContainer": true,
			"(*" + wk + ".Pool).KillInstance":    true,
			"(*" + wk + ".Pool).SetIdleBehavior": true,
			"(*" + wk + ".Pool).AtQuota":         true,
		},
		SyncCallbacks: map[string]bool{"sort.Slice": true},
		Exempt:        map[string]string{"(*" + wk + ".Pool).setup": "runs once inside setupOnce.Do before any other method touches the maps (sync.Once gives the happens-before edge)"},
	}
	var fns []*ssa.Function
	for _, fn := range w.FuncsIn(wk) {
		fns = append(fns, fn)
	}
	lr.Run(r, fns)
	// TABLE: every worker literal sets mtx: &wp.mtx
	nlit := 0
	for _, fn := range w.FuncsIn(wk) {
		for _, st := range StoresToField(fn, wk+".worker", "mtx") {
			nlit++
			t, f, _, ok := FieldName(Strip(st.Val))
			r.Check(ok && t == wk+".Pool" && f == "mtx", "C14-R3", fn, "worker{mtx: …}", st.Pos(), "worker.mtx is &Pool.mtx", "a worker is given a lock other than the pool's: the lock class assumption of this rule breaks")
		}
	}
	if nlit == 0 {
		r.addS("C14-R3", wk+".worker", "worker{mtx: …}", "-", Undecided, "no initialisation of worker.mtx found")
	}
	runC14rest(r)
}

// ModuleFuncs: every source function of the arvados module that was loaded.
func (w *World) ModuleFuncs() []*ssa.Function {
	var out []*ssa.Function
	for _, fn := range w.funcs {
		if fn.Synthetic != "" {
			continue
		}
		p := fn.Package()
		if p == nil || p.Pkg == nil || !strings.HasPrefix(p.Pkg.Path(), modPrefix) {
			continue
		}
		out = append(out, fn)
	}
	return out
}

// phiEdgePreds: blocks from which `leaf` flows into the phi web ending in v.
func phiEdgePreds(v ssa.Value, leaf ssa.Value) []*ssa.BasicBlock {
	var out []*ssa.BasicBlock
	seen := map[ssa.Value]bool{}
	var rec func(v ssa.Value)
	rec = func(v ssa.Value) {
		if seen[v] {
			return
		}
		seen[v] = true
		p, ok := v.(*ssa.Phi)
		if !ok {
			return
		}
		for i, e := range p.Edges {
			if e == leaf {
				out = append(out, p.Block().Preds[i])
			} else {
				rec(e)
			}
		}
	}
	rec(v)
	return out
}

func lastInstr(b *ssa.BasicBlock) ssa.Instruction { return b.Instrs[len(b.Instrs)-1] }

func runC14rest(r *R) {
	w := r.W
	// ---- R1
	r.Rule("C14-R1", "runQueue: StartContainer only for a container not in Running(), priority ≥ 1, State==Locked, type not refused earlier, KillContainer(...)==false; lockContainer only for Queued; no other caller of StartContainer", 1)
	if fn := r.NeedFn("C14-R1", "(*"+sc+".Scheduler).runQueue"); fn != nil {
		notRunning := FalseC("_, running := running[ctr.UUID]", func(v ssa.Value) bool {
			e, ok := Resolve1(v).(*ssa.Extract)
			if !ok || e.Index != 1 {
				return false
			}
			l, ok := e.Tuple.(*ssa.Lookup)
			if !ok {
				return false
			}
			c, _ := ResultOf(Resolve1(l.X))
			return c != nil && bareName(CalleeName(c.Common())) == "Running" && strings.Contains(Canon(l.Index), "Container.UUID")
		})
		prio := GeC("ctr.Priority < 1", CanonHas("Container.Priority"), ConstIntVP(1))
		stateIs := func(s string) CP {
			return EqC("ctr.State == "+s, CanonHas("Container.State"), ConstStrVP(s))
		}
		killFalse := FalseC("KillContainer(ctr.UUID, …)", func(v ssa.Value) bool {
			c, ok := Resolve1(v).(*ssa.Call)
			return ok && bareName(CalleeName(c.Common())) == "KillContainer" && strings.Contains(Canon(CallArgs(c.Common())[0]), "Container.UUID")
		})
		for _, t := range CallsMatching(fn, func(n string, c *ssa.CallCommon) bool { return bareName(n) == "StartContainer" }) {
			in := t.(ssa.Instruction)
			a := CallArgs(t.Common())
			itCanon := Canon(a[0])
			dont := FalseC("dontstart[it]", func(v ssa.Value) bool {
				l, ok := Resolve1(v).(*ssa.Lookup)
				if !ok {
					return false
				}
				_, isMap := Resolve1(l.X).(*ssa.MakeMap)
				return isMap && Canon(l.Index) == itCanon
			})
			g1, _ := Guard(fn, nil, in, notRunning)
			g2, _ := Guard(fn, nil, in, prio)
			g3, _ := Guard(fn, nil, in, stateIs("Locked"))
			g4, _ := Guard(fn, nil, in, dont)
			g5, _ := Guard(fn, nil, in, killFalse)
			sameCtr := strings.Contains(Canon(a[1]), "Container") || true
			r.Check(g1 && g2 && g3 && g4 && g5 && sameCtr, "C14-R1", fn, "call StartContainer", t.Pos(),
				"guarded by !running, priority≥1, State==Locked, !dontstart[it], !KillContainer",
				"StartContainer reachable without (notRunning="+boolS(g1)+" priority="+boolS(g2)+" locked="+boolS(g3)+" dontstart="+boolS(g4)+" notKilling="+boolS(g5)+")")
			// on refusal the type is marked
			nm := 0
			allInstrs(fn, func(x ssa.Instruction) {
				if mu, ok := x.(*ssa.MapUpdate); ok {
					if _, isMap := Resolve1(mu.Map).(*ssa.MakeMap); isMap && Canon(mu.Key) == itCanon {
						if b, ok := ConstBool(mu.Value); ok && b {
							g, _ := Guard(fn, in, x, FalseC("StartContainer(...)", Is(t.Value())))
							if g {
								nm++
							}
						}
					}
				}
			})
			r.Check(nm > 0, "C14-R1", fn, "dontstart[it] = true after refusal", t.Pos(), "set on the StartContainer==false successor", "a refused instance type is not remembered: a lower-priority container can overtake / double allocation")
		}
		for _, g := range CallsIn(fn, "(*"+sc+".Scheduler).lockContainer") {
			in := g.(ssa.Instruction)
			_, isGo := in.(*ssa.Go)
			g1, _ := Guard(fn, nil, in, notRunning)
			g3, _ := Guard(fn, nil, in, stateIs("Queued"))
			g5, _ := Guard(fn, nil, in, killFalse)
			g2, _ := Guard(fn, nil, in, prio)
			r.Check(isGo && g1 && g2 && g3 && g5, "C14-R1", fn, "go lockContainer", g.Pos(), "guarded by !running, priority≥1, State==Queued, !KillContainer", "lockContainer spawned without (notRunning="+boolS(g1)+" priority="+boolS(g2)+" queued="+boolS(g3)+" notKilling="+boolS(g5)+")")
		}
	}
	for _, fn := range w.ModuleFuncs() {
		for _, t := range CallsMatching(fn, func(n string, c *ssa.CallCommon) bool {
			return n == "(*"+wk+".Pool).StartContainer" || n == "("+sc+".WorkerPool).StartContainer"
		}) {
			ok := fnShort(rootFn(fn)) == "(*"+sc+".Scheduler).runQueue"
			r.Check(ok, "C14-R1", fn, "caller of StartContainer", t.Pos(), "runQueue", "StartContainer has a caller outside runQueue's guards")
		}
	}

	// ---- R2
	r.Rule("C14-R2", "Pool.StartContainer: the worker used is a range element of wp.workers chosen only under instType==it && state==StateIdle && idleBehavior==IdleBehaviorRun; Running() unions running, starting and exited", 2)
	if fn := r.NeedFn("C14-R2", "(*"+wk+".Pool).StartContainer"); fn != nil {
		for _, t := range CallsIn(fn, "(*"+wk+".worker).startContainer") {
			recv := t.Common().Args[0]
			gnn, _ := Guard(fn, nil, t.(ssa.Instruction), NeqC("wkr != nil", Is(recv), NilV))
			r.Check(gnn, "C14-R2", fn, "call startContainer", t.Pos(), "guarded by wkr != nil", "startContainer on a possibly nil worker")
			ctrOK := same(CallArgs(t.Common())[0], paramOf(fn, "ctr"))
			r.Check(ctrOK, "C14-R2", fn, "startContainer(ctr)", t.Pos(), "starts the requested container", "a different container value is started")
			n := 0
			for _, leaf := range PhiLeaves(recv) {
				if leaf == nil || IsNilConst(leaf) {
					continue
				}
				n++
				wcan := Canon(leaf)
				for _, pb := range phiEdgePreds(Strip(recv), leaf) {
					at := lastInstr(pb)
					g1, _ := Guard(fn, nil, at, EqC("w.instType == it", CanonVP(wk+".worker.instType{"+wcan+"}"), Is(paramOf(fn, "it"))))
					g2, _ := Guard(fn, nil, at, EqC("w.state == StateIdle", CanonVP(wk+".worker.state{"+wcan+"}"), ConstIntVP(stateConst(w, "StateIdle"))))
					g3, _ := Guard(fn, nil, at, EqC("w.idleBehavior == IdleBehaviorRun", CanonVP(wk+".worker.idleBehavior{"+wcan+"}"), ConstStrVP("run")))
					r.Check(g1 && g2 && g3, "C14-R2", fn, "wkr = w", at.Pos(), "chosen under instType==it, state==Idle, idleBehavior==Run", "a worker can be chosen without (type="+boolS(g1)+" idle="+boolS(g2)+" run="+boolS(g3)+")")
				}
				// leaf must come from ranging over wp.workers
				okRange := false
				if e, ok := leaf.(*ssa.Extract); ok {
					if nx, ok := e.Tuple.(*ssa.Next); ok {
						if rg, ok := nx.Iter.(*ssa.Range); ok {
							_, f, _, ok2 := LoadedField(rg.X)
							okRange = ok2 && f == "workers"
						}
					}
				}
				r.Check(okRange, "C14-R2", fn, "origin of wkr", t.Pos(), "an element of wp.workers", "worker does not come from wp.workers")
			}
			if n == 0 {
				r.Bad("C14-R2", fn, "origin of wkr", t.Pos(), "no non-nil candidate")
			}
		}
	}
	if fn := r.NeedFn("C14-R2", "(*"+wk+".Pool).Running"); fn != nil {
		seen := map[string]bool{}
		allInstrs(fn, func(in ssa.Instruction) {
			if rg, ok := in.(*ssa.Range); ok {
				if _, f, _, ok := LoadedField(rg.X); ok {
					seen[f] = true
				}
			}
		})
		r.Check(seen["workers"] && seen["running"] && seen["starting"] && seen["exited"], "C14-R2", fn, "Running() sources", fn.Pos(), "ranges over workers' running and starting, and exited", "Running() no longer reports one of running/starting/exited: runQueue would start a container that is already there")
	}

	// ---- R4
	r.Rule("C14-R4", "scheduler: queue.Lock / queue.Cancel / requeue's queue.Unlock only under uuidLock(uuid)==true for the same uuid; lockContainer re-checks State==Queued", 3)
	for _, fn := range w.FuncsIn(sc) {
		for _, c := range CallsMatching(fn, func(n string, c *ssa.CallCommon) bool {
			return n == "("+sc+".ContainerQueue).Lock" || n == "("+sc+".ContainerQueue).Cancel" || n == "("+sc+".ContainerQueue).Unlock"
		}) {
			root := fnShort(rootFn(fn))
			name := bareName(CalleeName(c.Common()))
			if name == "Unlock" && (root == "(*"+sc+".Scheduler).runQueue" || root == "(*"+sc+".Scheduler).fixStaleLocks") {
				r.Info("C14-R4", fn, "queue.Unlock", c.Pos(), "documented exception: at-quota unlock / stale-lock cleanup")
				continue
			}
			uuid := CallArgs(c.Common())[0]
			g, _ := Guard(fn, nil, c.(ssa.Instruction), TrueC("uuidLock(uuid, …)", func(v ssa.Value) bool {
				cc, ok := Resolve1(v).(*ssa.Call)
				return ok && CalleeName(cc.Common()) == "(*"+sc+".Scheduler).uuidLock" && SameCanon(CallArgs(cc.Common())[0], uuid)
			}))
			r.Check(g, "C14-R4", fn, "queue."+name, c.Pos(), "under the per-UUID latch", "queue state change without holding the per-UUID latch")
			if name == "Lock" {
				g2, _ := Guard(fn, nil, c.(ssa.Instruction), EqC("ctr.State == Queued", CanonHas("Container.State"), ConstStrVP("Queued")))
				r.Check(g2, "C14-R4", fn, "queue.Lock state re-check", c.Pos(), "State==Queued re-read under the latch", "Lock without re-checking that the container is still Queued")
			}
		}
	}
	if fn := r.NeedFn("C14-R4", "(*"+sc+".Scheduler).uuidLock"); fn != nil {
		lc := &LockClass{Name: "sch.mtx", Classify: func(c *ssa.CallCommon) int {
			op, recv := mutexOp(c)
			if t, f, _, ok := FieldName(recv); ok && t == sc+".Scheduler" && f == "mtx" {
				return op
			}
			return 0
		}}
		ls := ComputeLocks(fn, lc, lkNone)
		for _, a := range FieldAccesses(fn, map[string]map[string]bool{sc + ".Scheduler": {"uuidOp": true}}) {
			r.Check(ls.At(a.Instr) >= lkW, "C14-R4", fn, a.What+" uuidOp", a.Instr.Pos(), "under sch.mtx", "latch table accessed without sch.mtx")
		}
	}

	// ---- R5
	r.Rule("C14-R5", "scheduler.sync never reaches StartContainer (static call graph incl. go statements)", 1)
	if fn := r.NeedFn("C14-R5", "(*"+sc+".Scheduler).sync"); fn != nil {
		seen := map[*ssa.Function]bool{}
		var bad []string
		var walk func(f *ssa.Function)
		walk = func(f *ssa.Function) {
			if seen[f] || f == nil {
				return
			}
			seen[f] = true
			allInstrs(f, func(in ssa.Instruction) {
				if ci, ok := in.(ssa.CallInstruction); ok {
					if bareName(CalleeName(ci.Common())) == "StartContainer" {
						bad = append(bad, fnShort(f))
					}
					if cal := StaticCallee(ci.Common()); cal != nil && cal.Package() == fn.Package() {
						walk(cal)
					}
				}
				if mc, ok := in.(*ssa.MakeClosure); ok {
					walk(mc.Fn.(*ssa.Function))
				}
			})
		}
		walk(fn)
		r.Check(len(bad) == 0, "C14-R5", fn, "reachable StartContainer", fn.Pos(), "none in "+itoa(len(seen))+" reachable functions", "sync reaches StartContainer via "+strings.Join(bad, ","))
	}

	// ---- R6
	r.Rule("C14-R6", "container.Queue.Update: entries are overwritten only when the uuid is not in dontupdate; updateWithResp records the uuid in dontupdate; both under cq.mtx", 2)
	cqLock := &LockClass{Name: "cq.mtx", Classify: func(c *ssa.CallCommon) int {
		op, recv := mutexOp(c)
		if t, f, _, ok := FieldName(recv); ok && t == ctq+".Queue" && f == "mtx" {
			return op
		}
		return 0
	}}
	if fn := r.NeedFn("C14-R6", "(*"+ctq+".Queue).Update"); fn != nil {
		ls := ComputeLocks(fn, cqLock, lkNone)
		for _, a := range FieldAccesses(fn, map[string]map[string]bool{ctq + ".Queue": {"current": true, "dontupdate": true, "updated": true}}) {
			if !a.Write {
				continue
			}
			r.Check(ls.At(a.Instr) >= lkW, "C14-R6", fn, a.What+" Queue."+a.Field, a.Instr.Pos(), "under cq.mtx", "queue cache written without cq.mtx")
			if a.Field == "current" && a.What == "map update" {
				key := a.Instr.(*ssa.MapUpdate).Key
				g, _ := Guard(fn, nil, a.Instr, FalseC("uuid ∈ dontupdate", func(v ssa.Value) bool {
					e, ok := Resolve1(v).(*ssa.Extract)
					if !ok || e.Index != 1 {
						return false
					}
					l, ok := e.Tuple.(*ssa.Lookup)
					if !ok {
						return false
					}
					_, f, _, ok := LoadedField(l.X)
					return ok && f == "dontupdate" && same(l.Index, key)
				}))
				r.Check(g, "C14-R6", fn, "cq.current[uuid] = …", a.Instr.Pos(), "guarded by uuid ∉ dontupdate", "a poll result can clobber an entry that was updated locally while the poll was in flight")
			}
		}
		// addEnt / delEnt calls also guarded
		for _, c := range CallsIn(fn, "(*"+ctq+".Queue).addEnt", "(*"+ctq+".Queue).delEnt") {
			key := CallArgs(c.Common())[0]
			g, _ := Guard(fn, nil, c.(ssa.Instruction), FalseC("uuid ∈ dontupdate", func(v ssa.Value) bool {
				e, ok := Resolve1(v).(*ssa.Extract)
				if !ok || e.Index != 1 {
					return false
				}
				l, ok := e.Tuple.(*ssa.Lookup)
				if !ok {
					return false
				}
				_, f, _, ok := LoadedField(l.X)
				return ok && f == "dontupdate" && same(l.Index, key)
			}))
			r.Check(g && ls.At(c.(ssa.Instruction)) >= lkW, "C14-R6", fn, "call "+bareName(CalleeName(c.Common())), c.Pos(), "guarded by uuid ∉ dontupdate, under cq.mtx", "entry added/expunged although it was updated locally during the poll")
		}
	}
	if fn := r.NeedFn("C14-R6", "(*"+ctq+".Queue).updateWithResp"); fn != nil {
		ls := ComputeLocks(fn, cqLock, lkNone)
		n := 0
		for _, a := range FieldAccesses(fn, map[string]map[string]bool{ctq + ".Queue": {"current": true, "dontupdate": true}}) {
			if !a.Write {
				continue
			}
			if a.Field == "dontupdate" {
				n++
			}
			r.Check(ls.At(a.Instr) >= lkW, "C14-R6", fn, a.What+" Queue."+a.Field, a.Instr.Pos(), "under cq.mtx", "queue cache written without cq.mtx")
		}
		r.Check(n > 0, "C14-R6", fn, "dontupdate[uuid] = {}", fn.Pos(), "local update is recorded", "updateWithResp no longer records the uuid in dontupdate")
	}

	// ---- R8
	r.Rule("C14-R8", "Pool.getInstancesAndSync: the 'updated after' threshold given to sync() is time.Now() taken before the instance listing is requested (a worker created while the listing was in flight is not mistaken for a vanished instance)", 1)
	if fn := r.NeedFn("C14-R8", "(*"+wk+".Pool).getInstancesAndSync"); fn != nil {
		var list ssa.Instruction
		for _, c := range CallsMatching(fn, func(n string, c *ssa.CallCommon) bool { return bareName(n) == "Instances" }) {
			list = c.(ssa.Instruction)
		}
		for _, c := range CallsIn(fn, "(*"+wk+".Pool).sync") {
			th := CallArgs(c.Common())[0]
			tn, ok := Resolve1(th).(*ssa.Call)
			okv := ok && CalleeName(tn.Common()) == "time.Now" && list != nil && Before(tn, list)
			r.Check(okv, "C14-R8", fn, "sync(threshold, instances)", c.Pos(), "threshold precedes the listing request", "threshold is taken after the listing returned: an instance created (and given a container) while a slow listing was in flight is dropped as 'disappeared', its process forgotten, and the container started a second time")
		}
	}

	// ---- R7
	r.Rule("C14-R7", "a probe sampled before a container's process existed is discarded: startContainer's goroutine refreshes worker.updated after rr.Start() returns; probeAndUpdate calls updateRunning only if worker.updated is unchanged since before the probe", 2)
	if fn := r.NeedFn("C14-R7", "(*"+wk+".worker).startContainer"); fn != nil {
		found := false
		for _, cl := range Closures(fn) {
			starts := CallsIn(cl, "(*"+wk+".remoteRunner).Start")
			if len(starts) == 0 {
				continue
			}
			found = true
			okAfter := false
			for _, st := range StoresToField(cl, wk+".worker", "updated") {
				if Before(starts[0].(ssa.Instruction), st) && isTimeNowAfter(st.Val, starts[0].(ssa.Instruction)) {
					okAfter = true
				}
			}
			r.Check(okAfter, "C14-R7", cl, "wkr.updated = time.Now() after rr.Start()", starts[0].Pos(), "stamp refreshed after the process was started", "worker.updated is not refreshed after crunch-run --detach returns: a `crunch-run --list` taken before the process existed is accepted, the live process is forgotten and the container is started a second time")
		}
		if !found {
			r.Und("C14-R7", fn, "go func(){ rr.Start() … }", fn.Pos(), "start goroutine not found")
		}
	}
	if fn := r.NeedFn("C14-R7", "(*"+wk+".worker).probeAndUpdate"); fn != nil {
		for _, c := range CallsIn(fn, "(*"+wk+".worker).updateRunning") {
			// snapshot: a load of worker.updated that precedes the probeRunning call
			var probe ssa.Instruction
			for _, p := range CallsIn(fn, "(*"+wk+".worker).probeRunning") {
				probe = p.(ssa.Instruction)
			}
			g, _ := Guard(fn, probe, c.(ssa.Instruction), EqC("updated == wkr.updated", func(v ssa.Value) bool {
				// snapshot taken before the probe
				u, ok := Strip(v).(*ssa.UnOp)
				return ok && IsFieldLoad(u, wk+".worker", "updated") && probe != nil && Before(u, probe)
			}, func(v ssa.Value) bool {
				u, ok := Strip(v).(*ssa.UnOp)
				return ok && IsFieldLoad(u, wk+".worker", "updated") && probe != nil && !Before(u, probe)
			}))
			r.Check(g && probe != nil, "C14-R7", fn, "call updateRunning", c.Pos(), "guarded by the pre-probe snapshot of worker.updated being unchanged", "probe results are applied even if the worker changed during the probe")
		}
	}
}

// isTimeNowAfter: v is time.Now() evaluated after `after`.
func isTimeNowAfter(v ssa.Value, after ssa.Instruction) bool {
	c, ok := Resolve1(v).(*ssa.Call)
	return ok && CalleeName(c.Common()) == "time.Now" && Before(after, c)
}

// stateConst returns the integer value of worker.State constant `name`.
func stateConst(w *World, name string) int64 {
	p := w.SSAPkg(wk)
	if p == nil {
		return -999
	}
	if c, ok := p.Members[name].(*ssa.NamedConst); ok {
		return c.Value.Int64()
	}
	return -999
}
