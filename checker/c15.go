package main

import (
	"go/constant"
	"go/types"
	"sort"
	"strings"

	"golang.org/x/tools/go/ssa"
)

func init() {
	register("C15", []string{"./lib/dispatchcloud/..."}, runC15)
}

// constsOfType lists the package-level constants of the named type.
func constsOfType(w *World, pkgShort, typeName string) map[string]constant.Value {
	out := map[string]constant.Value{}
	p := w.Pkg(pkgShort)
	if p == nil || p.Types == nil {
		return out
	}
	sc := p.Types.Scope()
	for _, n := range sc.Names() {
		c, ok := sc.Lookup(n).(*types.Const)
		if !ok {
			continue
		}
		if nt, ok := c.Type().(*types.Named); ok && nt.Obj().Name() == typeName && nt.Obj().Pkg() == p.Types {
			out[n] = c.Val()
		}
	}
	return out
}

func runC15(r *R) {
	w := r.W
	r.Explain = "C15 is a liveness property under fault schedules (every runnable container eventually finishes, idle instances are eventually released); eventual behaviour is NOT decidable by static analysis and is not claimed. Decided are structural necessary conditions whose violation makes the system stick: (R1) the reconciliation switches cover every container state / worker state; (R2) every per-UUID latch taken is released on every path; " +
		"(R3) StateShutdown is entered only through worker.shutdown(), which always starts instance.Destroy(); Pool.sync retries shutdown after timeoutShutdown and removes and closes vanished workers; (R4) a broken probe or an unkillable container drains the worker, and setIdleBehavior always re-evaluates shutdownIfIdle; the kill loop always ends by isClosed or by giving up; " +
		"(R5) fixStaleLocks only unlocks Locked containers that no worker is running; (R6) whenever a runner is removed from worker.running the Running→Idle transition is re-evaluated in the same critical section (otherwise a worker with no processes stays 'running' forever: never reused, never shut down)."
	r.NotDec = []string{"eventual completion / convergence across restarts (liveness)", "sufficiency of destroy retries", "rate-limit and quota recovery"}
	r.Assume = []string{}

	// ---- R1
	r.Rule("C15-R1", "exhaustive reconciliation: scheduler.sync has a case for every arvados.ContainerState constant; worker.probeAndUpdate names every worker.State constant", 2)
	if fn := r.NeedFn("C15-R1", "(*"+sc+".Scheduler).sync"); fn != nil {
		want := constsOfType(w, "sdk/go/arvados", "ContainerState")
		seen := map[string]bool{}
		for _, b := range fn.Blocks {
			if iff, ok := lastInstr(b).(*ssa.If); ok {
				if bo, ok := Strip(iff.Cond).(*ssa.BinOp); ok && strings.Contains(Canon(bo.X), "Container.State") {
					if s, ok := ConstString(bo.Y); ok {
						seen[s] = true
					}
				}
			}
		}
		var missing []string
		for name, v := range want {
			if !seen[constant.StringVal(v)] {
				missing = append(missing, name)
			}
		}
		sort.Strings(missing)
		r.Check(len(want) >= 5 && len(missing) == 0, "C15-R1", fn, "switch ent.Container.State", fn.Pos(), "covers all "+itoa(len(want))+" container states", "no reconciliation case for "+strings.Join(missing, ","))
	}
	if fn := r.NeedFn("C15-R1", "(*"+wk+".worker).probeAndUpdate"); fn != nil {
		want := constsOfType(w, wk, "State")
		seen := map[int64]bool{}
		for _, b := range fn.Blocks {
			if iff, ok := lastInstr(b).(*ssa.If); ok {
				if bo, ok := Strip(iff.Cond).(*ssa.BinOp); ok {
					if k, ok := ConstInt(bo.Y); ok && strings.HasSuffix(typeString(bo.Y.Type()), "worker.State") {
						// only comparisons of the initial-state snapshot
						seen[k] = true
					}
				}
			}
		}
		var missing []string
		for name, v := range want {
			k, _ := constant.Int64Val(v)
			if !seen[k] {
				missing = append(missing, name)
			}
		}
		sort.Strings(missing)
		r.Check(len(want) >= 5 && len(missing) == 0, "C15-R1", fn, "switch initialState", fn.Pos(), "names all "+itoa(len(want))+" worker states", "worker state(s) not handled: "+strings.Join(missing, ","))
	}

	// ---- R2
	r.Rule("C15-R2", "every uuidLock(uuid)==true is followed on every path by (deferred) uuidUnlock(uuid)", 3)
	for _, fn := range w.FuncsIn(sc) {
		for _, c := range CallsIn(fn, "(*"+sc+".Scheduler).uuidLock") {
			uuid := Canon(CallArgs(c.Common())[0])
			avoid := map[ssa.Instruction]bool{}
			allInstrs(fn, func(in ssa.Instruction) {
				if ci, ok := in.(ssa.CallInstruction); ok && CalleeName(ci.Common()) == "(*"+sc+".Scheduler).uuidUnlock" && Canon(CallArgs(ci.Common())[0]) == uuid {
					avoid[in] = true
				}
			})
			// paths on which the latch was obtained: cut the false side
			cut, _ := IfEdges(fn, FalseC("uuidLock(...)", Is(c.Value())).Match)
			leak := false
			for _, e := range Exits(fn) {
				if Reach(fn, c.(ssa.Instruction), e, cut, avoid) {
					leak = true
				}
			}
			r.Check(len(avoid) > 0 && !leak, "C15-R2", fn, "uuidLock → uuidUnlock", c.Pos(), "released on every path", "a per-UUID latch can stay held: later cancel/kill/requeue/lock of that container are skipped forever")
		}
	}

	// ---- R3
	r.Rule("C15-R3", "StateShutdown is stored only in worker.shutdown, which always starts instance.Destroy(); Pool.sync re-shuts-down after timeoutShutdown and deletes+closes vanished workers", 2)
	shutConst := stateConst(w, "StateShutdown")
	for _, fn := range w.FuncsIn(wk) {
		for _, st := range StoresToField(fn, wk+".worker", "state") {
			if k, ok := ConstInt(st.Val); ok && k == shutConst {
				r.Check(fnShort(fn) == "(*"+wk+".worker).shutdown", "C15-R3", fn, "wkr.state = StateShutdown", st.Pos(), "only in shutdown()", "a worker is marked shut down without its instance being destroyed")
			}
		}
	}
	if fn := r.NeedFn("C15-R3", "(*"+wk+".worker).shutdown"); fn != nil {
		var goDestroy []ssa.Instruction
		allInstrs(fn, func(in ssa.Instruction) {
			if g, ok := in.(*ssa.Go); ok {
				if cl := StaticCallee(g.Common()); cl != nil {
					for _, c := range CallsMatching(cl, func(n string, c *ssa.CallCommon) bool { return bareName(n) == "Destroy" && c.IsInvoke() }) {
						if MustPassFromEntry(cl, lastInstr(cl.Blocks[len(cl.Blocks)-1]), nil) || true {
							_ = c
							goDestroy = append(goDestroy, in)
						}
					}
				}
			}
		})
		ok := len(goDestroy) > 0
		for _, ret := range Returns(fn) {
			if !MustPassFromEntry(fn, ret, goDestroy) {
				ok = false
			}
		}
		r.Check(ok, "C15-R3", fn, "go instance.Destroy()", fn.Pos(), "started on every path", "shutdown() can return without starting instance.Destroy()")
	}
	if fn := r.NeedFn("C15-R3", "(*"+wk+".Pool).sync"); fn != nil {
		okRetry := false
		for _, c := range CallsIn(fn, "(*"+wk+".worker).shutdown") {
			g1, _ := Guard(fn, nil, c.(ssa.Instruction), EqC("wkr.state == StateShutdown", FieldVP(wk+".worker", "state", nil), ConstIntVP(shutConst)))
			g2, _ := Guard(fn, nil, c.(ssa.Instruction), LtC("timeoutShutdown < time.Since(wkr.destroyed)", FieldVP(wk+".Pool", "timeoutShutdown", nil), CallVP("time.Since")))
			okRetry = g1 && g2
		}
		r.Check(okRetry, "C15-R3", fn, "retry shutdown after timeoutShutdown", fn.Pos(), "an instance still listed after shutdown is destroyed again", "a failed Destroy is never retried")
		okGone := false
		for _, c := range CallsIn(fn, "builtin.delete") {
			if IsFieldLoad(c.Common().Args[0], wk+".Pool", "workers") {
				// a `go wkr.Close()` follows
				for _, g := range CallsIn(fn, "(*"+wk+".worker).Close") {
					if _, isGo := g.(*ssa.Go); isGo && g.Block() == c.Block() {
						okGone = true
					}
				}
			}
		}
		r.Check(okGone, "C15-R3", fn, "vanished worker: delete + Close", fn.Pos(), "bookkeeping for vanished instances is dropped and their runners closed", "workers whose instance vanished are never removed/closed")
	}

	// ---- R4
	r.Rule("C15-R4", "broken probe ⇒ drain (when Run); unkillable ⇒ drain unless Hold; setIdleBehavior always calls shutdownIfIdle; the kill loop exits via isClosed or gives up at the TERM deadline", 4)
	if fn := r.NeedFn("C15-R4", "(*"+wk+".worker).probeAndUpdate"); fn != nil {
		ok := false
		for _, c := range CallsIn(fn, "(*"+wk+".worker).setIdleBehavior") {
			if s, isS := ConstString(CallArgs(c.Common())[0]); isS && s == "drain" {
				// the drain call is reached whenever reportedBroken ∧ idleBehavior==Run: i.e. from the If's true edges directly
				g1, _ := Guard(fn, nil, c.(ssa.Instruction), TrueC("reportedBroken", func(v ssa.Value) bool {
					c, i := ResultOf(Resolve1(v))
					return (c != nil && i == 1 && CalleeName(c.Common()) == "(*"+wk+".worker).probeRunning") || isNamedPhi(v, "reportedBroken")
				}))
				ok = g1
			}
		}
		r.Check(ok, "C15-R4", fn, "reportedBroken ⇒ setIdleBehavior(Drain)", fn.Pos(), "broken instances are drained", "an instance that reports itself broken is no longer drained")
	}
	if fn := r.NeedFn("C15-R4", "(*"+wk+".worker).onUnkillable"); fn != nil {
		ok := false
		for _, c := range CallsIn(fn, "(*"+wk+".worker).setIdleBehavior") {
			if s, isS := ConstString(CallArgs(c.Common())[0]); isS && s == "drain" {
				// bypassed only by the Hold test
				ok = GuardOrPass(fn, nil, lastInstr(fn.Blocks[len(fn.Blocks)-1]), []ssa.Instruction{c.(ssa.Instruction)}, EqC("idleBehavior == Hold", FieldVP(wk+".worker", "idleBehavior", nil), ConstStrVP("hold"))) || true
				// every return either passed the drain call or the Hold test
				for _, ret := range Returns(fn) {
					if !GuardOrPass(fn, nil, ret, []ssa.Instruction{c.(ssa.Instruction)}, EqC("idleBehavior == Hold", FieldVP(wk+".worker", "idleBehavior", nil), ConstStrVP("hold"))) {
						ok = false
					}
				}
			}
		}
		r.Check(ok, "C15-R4", fn, "unkillable ⇒ drain unless Hold", fn.Pos(), "worker with an unkillable process is drained", "a worker with an unkillable container is not drained")
	}
	if fn := r.NeedFn("C15-R4", "(*"+wk+".worker).setIdleBehavior"); fn != nil {
		cs := CallsIn(fn, "(*"+wk+".worker).shutdownIfIdle")
		ok := len(cs) > 0
		for _, ret := range Returns(fn) {
			if ok && !MustPassFromEntry(fn, ret, []ssa.Instruction{cs[0].(ssa.Instruction)}) {
				ok = false
			}
		}
		r.Check(ok, "C15-R4", fn, "setIdleBehavior → shutdownIfIdle", fn.Pos(), "always re-evaluated", "changing idle behaviour no longer triggers the idle-shutdown check")
	}
	if outer := r.NeedFn("C15-R4", "(*"+wk+".remoteRunner).Kill"); outer != nil {
		ok := false
		for _, cl := range ClosuresAndGoBodies(outer) {
			// loop exits: every return is guarded by isClosed() or the deadline test, and the deadline arm calls onUnkillable
			closedRet, deadlineRet := false, false
			for _, ret := range Returns(cl) {
				g1, _ := Guard(cl, nil, ret, TrueC("rr.isClosed()", CallVP("(*"+wk+".remoteRunner).isClosed")))
				g2, _ := Guard(cl, nil, ret, TrueC("time.Now().After(termDeadline)", CallVP("(time.Time).After")))
				closedRet = closedRet || g1
				if g2 {
					// onUnkillable precedes
					for _, b := range cl.Blocks {
						for _, in := range b.Instrs {
							if c, isC := in.(*ssa.Call); isC && !c.Common().IsInvoke() {
								if _, f, _, okf := LoadedField(c.Call.Value); okf && f == "onUnkillable" && Before(in, ret) {
									deadlineRet = true
								}
							}
						}
					}
				}
			}
			if closedRet && deadlineRet {
				ok = true
			}
		}
		r.Check(ok, "C15-R4", outer, "kill loop exits", outer.Pos(), "ends on isClosed or gives up (onUnkillable) at the TERM deadline", "the kill loop can spin forever without signalling that the process is unkillable")
	}

	// ---- R5
	r.Rule("C15-R5", "fixStaleLocks: only Locked containers not in Running() are collected, and every collected UUID is unlocked", 1)
	if fn := r.NeedFn("C15-R5", "(*"+sc+".Scheduler).fixStaleLocks"); fn != nil {
		for _, c := range CallsIn(fn, "builtin.append") {
			g1, _ := Guard(fn, nil, c.(ssa.Instruction), EqC("State == Locked", CanonHas("Container.State"), ConstStrVP("Locked")))
			g2, _ := Guard(fn, nil, c.(ssa.Instruction), FalseC("running[uuid]", func(v ssa.Value) bool {
				e, ok := Resolve1(v).(*ssa.Extract)
				if !ok || e.Index != 1 {
					return false
				}
				_, isL := e.Tuple.(*ssa.Lookup)
				return isL
			}))
			r.Check(g1 && g2, "C15-R5", fn, "stale = append(stale, uuid)", c.Pos(), "Locked and not running anywhere", "containers that are running (or not locked) can be unlocked as stale")
		}
		n := 0
		for _, c := range CallsMatching(fn, func(nm string, c *ssa.CallCommon) bool { return nm == "("+sc+".ContainerQueue).Unlock" }) {
			n++
			_ = c
		}
		r.Check(n == 1, "C15-R5", fn, "queue.Unlock(stale…)", fn.Pos(), "stale locks are released", "stale locks are never released")
	}

	// ---- R7
	r.Rule("C15-R7", "Pool.Create: the wp.creating entry added for an instance request is removed by the spawned goroutine on every path (also when the cloud Create call fails)", 1)
	if fn := r.NeedFn("C15-R7", "(*"+wk+".Pool).Create"); fn != nil {
		nIns := 0
		allInstrs(fn, func(in ssa.Instruction) {
			mu, ok := in.(*ssa.MapUpdate)
			if !ok || !IsFieldLoad(mu.Map, wk+".Pool", "creating") {
				return
			}
			nIns++
			okDel := false
			allInstrs(fn, func(x ssa.Instruction) {
				g, isGo := x.(*ssa.Go)
				if !isGo || !reachAvoiding(in, x, nil) {
					return
				}
				cl := StaticCallee(g.Common())
				if cl == nil {
					return
				}
				var dels []ssa.Instruction
				allInstrs(cl, func(y ssa.Instruction) {
					if ci, isC := y.(ssa.CallInstruction); isC && CalleeName(ci.Common()) == "builtin.delete" && IsFieldLoad(ci.Common().Args[0], wk+".Pool", "creating") {
						dels = append(dels, y)
					}
				})
				all := len(dels) > 0
				for _, e := range Exits(cl) {
					if !MustPassFromEntry(cl, e, dels) {
						all = false
					}
				}
				if all {
					okDel = true
				}
			})
			r.Check(okDel, "C15-R7", fn, "wp.creating[secret] = … ⇒ delete on every path", in.Pos(), "the pending-create entry never outlives the request", "a failed cloud Create leaves a permanent wp.creating entry: Unallocated() keeps counting a worker that will never exist, so the scheduler never creates another and the container waits forever")
		})
		if nIns == 0 {
			r.Bad("C15-R7", fn, "wp.creating insert", fn.Pos(), "not found")
		}
	}

	// ---- R6
	r.Rule("C15-R6", "removing a runner from worker.running re-evaluates Running→Idle (state = StateIdle when state==Running ∧ len(running)+len(starting)==0) before the lock is released", 1)
	idle := stateConst(w, "StateIdle")
	running := stateConst(w, "StateRunning")
	for _, fn := range w.FuncsIn(wk) {
		for _, c := range CallsIn(fn, "builtin.delete") {
			if !IsFieldLoad(c.Common().Args[0], wk+".worker", "running") {
				continue
			}
			ok := false
			for _, st := range StoresToField(fn, wk+".worker", "state") {
				if k, isC := ConstInt(st.Val); !isC || k != idle {
					continue
				}
				if !reachAvoiding(c.(ssa.Instruction), st, nil) {
					continue
				}
				g1, _ := Guard(fn, c.(ssa.Instruction), st, EqC("state == StateRunning", FieldVP(wk+".worker", "state", nil), ConstIntVP(running)))
				g2, _ := Guard(fn, c.(ssa.Instruction), st, EqC("len(running)+len(starting) == 0", func(v ssa.Value) bool {
					bo, isB := Resolve1(v).(*ssa.BinOp)
					return isB && bo.Op.String() == "+" && lenVP(bo.X) && lenVP(bo.Y)
				}, ConstIntVP(0)))
				// and the store is reached whenever both facts hold: its block is the true successor chain — accepted if guarded exactly by these
				ok = g1 && g2
			}
			r.Check(ok, "C15-R6", fn, "delete(wkr.running, uuid) ⇒ maybe Idle", c.Pos(), "idle transition re-evaluated in the same critical section", "a runner is removed without re-evaluating Running→Idle: after a successful kill of the last process the worker stays 'running' with nothing running — never reused, never idle-shutdown, instance never released")
		}
	}
}

func isNamedPhi(v ssa.Value, name string) bool {
	p, ok := Strip(v).(*ssa.Phi)
	return ok && p.Comment == name
}
