package main

import (
	"go/token"
	"strings"

	"golang.org/x/tools/go/ssa"
)

const dc = "lib/dispatchcloud"

func init() {
	register("C16", []string{"./lib/dispatchcloud/..."}, runC16)
}

func addLeaves(v ssa.Value) []ssa.Value {
	v = Resolve1(v)
	if b, ok := v.(*ssa.BinOp); ok && b.Op == token.ADD {
		return append(addLeaves(b.X), addLeaves(b.Y)...)
	}
	return []ssa.Value{v}
}

func runC16(r *R) {
	r.Explain = "Structural necessary conditions of C16: (R1) ChooseInstanceType adopts a type only when scratch, RAM, VCPUs and preemptibility are adequate and it is not more expensive than the current best; the RAM requirement is (RAM + KeepCacheRAM + ReserveExtraRAM)·100/(100−discount) and scratch/VCPU requirements come from the container; " +
		"(R2) a nil error is returned only when some type was adopted; otherwise the error lists all configured types; an empty table is a distinct error; (R3) runQueue visits containers in descending Priority order; (R4) a type refused once in a pass is not tried for later (lower-priority) containers; (R5) on hitting quota the rest of the queue from the current index is unlocked. " +
		"Optimality beyond the price guard, boundary arithmetic of the image-size estimate and tie-breaking are not decided."
	r.NotDec = []string{"global optimality (no cheaper adequate type)", "image-size estimate arithmetic", "tie-breaking"}
	r.Assume = []string{}

	// ---- R1, R2
	r.Rule("C16-R1", "ChooseInstanceType: best = it only under NOT scratch<need, NOT RAM<need, NOT VCPUs<need, preemptible equal, NOT (ok ∧ price > best.price); needRAM = (RAM+KeepCacheRAM+ReserveExtraRAM)*100/(100-discount)", 1)
	r.Rule("C16-R2", "nil error only if a type was adopted; otherwise ConstraintsNotSatisfiableError listing every configured type; empty table ⇒ ErrInstanceTypesNotConfigured", 1)
	if fn := r.NeedFn("C16-R1", dc+".ChooseInstanceType"); fn != nil {
		itT := "sdk/go/arvados.InstanceType"
		var bestAlloc *ssa.Alloc
		for _, l := range fn.Locals {
			if l.Comment == "best" {
				bestAlloc = l
			}
		}
		// needRAM formula
		var needRAM, needScratch, needVCPUs ssa.Value
		allInstrs(fn, func(in ssa.Instruction) {
			if bo, ok := in.(*ssa.BinOp); ok && bo.Op == token.QUO && needRAM == nil {
				needRAM = bo
			}
			if c, ok := in.(*ssa.Call); ok && CalleeName(c.Common()) == dc+".EstimateScratchSpace" {
				needScratch = c
			}
			if u, ok := in.(*ssa.UnOp); ok && IsFieldLoad(u, "sdk/go/arvados.RuntimeConstraints", "VCPUs") {
				needVCPUs = u
			}
		})
		okRAM := false
		if q, ok := needRAM.(*ssa.BinOp); ok {
			// denominator: int64(100 - discountConfiguredRAMPercent)
			okDen := false
			if d, isD := Resolve1(q.Y).(*ssa.BinOp); isD && d.Op == token.SUB {
				k, _ := ConstInt(d.X)
				g, isG := LoadedGlobal(d.Y)
				okDen = k == 100 && isG && g == dc+".discountConfiguredRAMPercent"
			}
			if m, isM := Resolve1(q.X).(*ssa.BinOp); isM && m.Op == token.MUL && okDen {
				sum := m.X
				k, isK := ConstInt(m.Y)
				if !isK {
					k, isK = ConstInt(m.X)
					sum = m.Y
				}
				if isK && k == 100 {
					seen := map[string]bool{}
					for _, l := range addLeaves(sum) {
						c := Canon(l)
						switch {
						case strings.Contains(c, "RuntimeConstraints.RAM"):
							seen["RAM"] = true
						case strings.Contains(c, "RuntimeConstraints.KeepCacheRAM"):
							seen["KeepCacheRAM"] = true
						case strings.Contains(c, "ReserveExtraRAM"):
							seen["ReserveExtraRAM"] = true
						default:
							seen["?"+c] = true
						}
					}
					okRAM = len(seen) == 3 && seen["RAM"] && seen["KeepCacheRAM"] && seen["ReserveExtraRAM"]
				}
			}
		}
		r.Check(okRAM, "C16-R1", fn, "needRAM formula", fn.Pos(), "(RAM + KeepCacheRAM + ReserveExtraRAM) * 100 / (100 - discountConfiguredRAMPercent)", "RAM requirement is not (RAM+KeepCacheRAM+ReserveExtraRAM)·100/(100−discount): containers near a type's boundary get a type that is too small, or none")
		n := 0
		allInstrs(fn, func(in ssa.Instruction) {
			st, ok := in.(*ssa.Store)
			if !ok || bestAlloc == nil || st.Addr != ssa.Value(bestAlloc) {
				return
			}
			if u, isU := Strip(st.Val).(*ssa.UnOp); isU && u.X == ssa.Value(bestAlloc) {
				return
			}
			n++
			it := rootBase(st.Val)
			if u, isU := Strip(st.Val).(*ssa.UnOp); isU {
				if a, isA := u.X.(*ssa.Alloc); isA {
					it = a
				}
			}
			fld := func(name string) VP { return fieldOfRoot(itT, name, it) }
			notLess := func(desc string, name string, need ssa.Value) bool {
				if need == nil {
					return false
				}
				g, _ := Guard(fn, nil, in, GeC(desc, fld(name), Is(need)))
				return g
			}
			gS := notLess("it.Scratch < needScratch", "Scratch", needScratch)
			gR := notLess("it.RAM < needRAM", "RAM", needRAM)
			gV := notLess("it.VCPUs < needVCPUs", "VCPUs", needVCPUs)
			gP, _ := Guard(fn, nil, in, EqC("it.Preemptible == ctr.SchedulingParameters.Preemptible", fld("Preemptible"), CanonHas("SchedulingParameters.Preemptible")))
			// price: NOT (ok && it.Price > best.Price)  ⇒ on every path: ok false, or NOT price > best.price
			gC := GuardOrPass(fn, nil, in, nil,
				FalseC("ok", func(v ssa.Value) bool { p, isP := Strip(v).(*ssa.Phi); return isP && p.Comment == "ok" }),
				GeC("best.Price < it.Price", fieldOfRoot(itT, "Price", bestAlloc), fld("Price")))
			r.Check(gS && gR && gV && gP && gC, "C16-R1", fn, "best = it", in.Pos(), "adequate in scratch, RAM, VCPUs, preemptibility; not dearer than current best",
				"a type can be chosen without (scratch="+boolS(gS)+" ram="+boolS(gR)+" vcpus="+boolS(gV)+" preemptible="+boolS(gP)+" price="+boolS(gC)+")")
		})
		if n == 0 {
			r.Bad("C16-R1", fn, "best = it", fn.Pos(), "assignment not found")
		}
		// R2
		for _, ret := range Returns(fn) {
			ops := ReturnOperands(ret)
			errLeaves := ops[1]
			allNil := true
			for _, e := range errLeaves {
				if e == nil || !IsNilConst(e) {
					allNil = false
				}
			}
			if allNil {
				g, _ := Guard(fn, nil, ret, TrueC("ok", func(v ssa.Value) bool { p, isP := Strip(v).(*ssa.Phi); return isP && p.Comment == "ok" }))
				r.Check(g, "C16-R2", fn, "return best, nil", ret.Pos(), "only when a type was adopted", "success can be returned although no adequate type was found")
			}
		}
		okCNS := false
		allInstrs(fn, func(in ssa.Instruction) {
			mi, ok := in.(*ssa.MakeInterface)
			if !ok || !strings.HasSuffix(typeString(mi.X.Type()), "ConstraintsNotSatisfiableError") {
				return
			}
			cf := compositeFields(mi.X)
			at := cf["AvailableTypes"]
			if at == nil {
				return
			}
			// slice built by appending every element of cc.InstanceTypes
			ranged := false
			allInstrs(fn, func(x ssa.Instruction) {
				if rg, ok := x.(*ssa.Range); ok && strings.Contains(Canon(rg.X), "Cluster.InstanceTypes") {
					if !loopHasConditionalAppend(x.Block()) {
						ranged = true
					}
				}
			})
			g, _ := Guard(fn, nil, in, FalseC("ok", func(v ssa.Value) bool { p, isP := Strip(v).(*ssa.Phi); return isP && p.Comment == "ok" }))
			okCNS = ranged && g
		})
		r.Check(okCNS, "C16-R2", fn, "ConstraintsNotSatisfiableError{…, all types}", fn.Pos(), "lists every configured type", "the unsatisfiable error does not list all configured instance types")
		okEmpty := false
		for _, ret := range Returns(fn) {
			for _, e := range ReturnOperands(ret)[1] {
				if g, ok := LoadedGlobal(e); ok && g == dc+".ErrInstanceTypesNotConfigured" {
					gd, _ := Guard(fn, nil, ret, IntC("len(cc.InstanceTypes) == 0", lenVP, token.EQL, 0, true))
					okEmpty = gd
				}
			}
		}
		r.Check(okEmpty, "C16-R2", fn, "empty table ⇒ ErrInstanceTypesNotConfigured", fn.Pos(), "distinct error", "an empty instance-type table is not reported as such")
	}

	// ---- R3, R4, R5
	r.Rule("C16-R3", "runQueue iterates the slice that was sorted by descending Container.Priority", 1)
	r.Rule("C16-R4", "no overtaking per type: dontstart[it] set when StartContainer refuses; StartContainer only under NOT dontstart[it] (same it)", 1)
	r.Rule("C16-R5", "at quota: overquota = sorted[i:] (from the current index) and the scan stops; every Locked entry of overquota is unlocked", 1)
	if fn := r.NeedFn("C16-R3", "(*"+sc+".Scheduler).runQueue"); fn != nil {
		var sortedVal ssa.Value
		for _, c := range CallsIn(fn, "sort.Slice") {
			sortedVal = c.Common().Args[0]
			less := StaticCallee(&ssa.CallCommon{Value: c.Common().Args[1]})
			if mc, ok := c.Common().Args[1].(*ssa.MakeClosure); ok {
				less = mc.Fn.(*ssa.Function)
			}
			okLess := false
			if less != nil {
				for _, ret := range Returns(less) {
					// less(i, j) ≡ Priority[i] > Priority[j], however it is written (a > b, b < a)
					lo, hi, strict, ok := NormLess(ret.Results[0])
					if ok && strict && strings.Contains(Canon(hi), "Container.Priority") && strings.Contains(Canon(lo), "Container.Priority") &&
						strings.Contains(Canon(hi), "param:i") && strings.Contains(Canon(lo), "param:j") &&
						!strings.Contains(Canon(hi), "param:j") && !strings.Contains(Canon(lo), "param:i") {
						okLess = true
					}
				}
			}
			r.Check(okLess, "C16-R3", fn, "sort.Slice(sorted, Priority desc)", c.Pos(), "descending by Container.Priority", "queue is not sorted by descending priority")
		}
		// main loop ranges over the sorted slice
		okLoop := false
		for _, sc2 := range CallsMatching(fn, func(n string, c *ssa.CallCommon) bool { return bareName(n) == "StartContainer" }) {
			hdr := loopHeaderOf(sc2.Block())
			for hdr != nil {
				for _, in := range hdr.Instrs {
					if bo, ok := in.(*ssa.BinOp); ok && bo.Op == token.LSS {
						if isLenOf(bo.Y, func(x ssa.Value) bool {
							return sortedVal != nil && SameCanon(x, sortedVal)
						}) {
							okLoop = true
						}
					}
				}
				hdr = loopHeaderOf(hdr.Idom())
			}
		}
		r.Check(okLoop, "C16-R3", fn, "for i, ctr := range sorted", fn.Pos(), "the start loop walks the sorted slice", "containers are not started in the sorted order")
		// R4: reuse the C14-R1 shape
		for _, t := range CallsMatching(fn, func(n string, c *ssa.CallCommon) bool { return bareName(n) == "StartContainer" }) {
			itCanon := Canon(CallArgs(t.Common())[0])
			g, _ := Guard(fn, nil, t.(ssa.Instruction), FalseC("dontstart[it]", func(v ssa.Value) bool {
				l, ok := Resolve1(v).(*ssa.Lookup)
				if !ok {
					return false
				}
				_, isMap := Resolve1(l.X).(*ssa.MakeMap)
				return isMap && Canon(l.Index) == itCanon
			}))
			marked := false
			allInstrs(fn, func(x ssa.Instruction) {
				if mu, ok := x.(*ssa.MapUpdate); ok && Canon(mu.Key) == itCanon {
					if gd, _ := Guard(fn, t.(ssa.Instruction), x, FalseC("StartContainer(...)", Is(t.Value()))); gd {
						marked = true
					}
				}
			})
			r.Check(g && marked, "C16-R4", fn, "dontstart[it]", t.Pos(), "checked before, set on refusal", "a lower-priority container can take a worker of a type that a higher-priority one is waiting for")
		}
		// R5
		n := 0
		allInstrs(fn, func(in ssa.Instruction) {
			sl, ok := in.(*ssa.Slice)
			if !ok || sl.Low == nil || sl.High != nil || !strings.Contains(typeString(sl.Type()), "QueueEnt") {
				return
			}
			n++
			// low bound is the loop index; followed by leaving the loop
			idxOK := false
			if bo, isB := Strip(sl.Low).(*ssa.BinOp); isB && bo.Op == token.ADD {
				if k, _ := ConstInt(bo.Y); k == 1 {
					idxOK = true
				}
			}
			hdr := loopHeaderOf(in.Block())
			leaves := true // a block from which the loop header is unreachable is not part of the natural loop: the scan stops
			if hdr != nil {
				body := loopBody(hdr)
				for _, s := range in.Block().Succs {
					if body[s] {
						leaves = false
					}
				}
			}
			r.Check(idxOK && leaves, "C16-R5", fn, "overquota = sorted[i:]; break", in.Pos(), "tail starts at the current container; scan stops", "the over-quota tail does not start at the current container or the scan continues")
		})
		if n == 0 {
			r.Bad("C16-R5", fn, "overquota = sorted[i:]", fn.Pos(), "not found")
		}
		okUnlock := false
		for _, c := range CallsMatching(fn, func(n string, c *ssa.CallCommon) bool { return bareName(n) == "Unlock" && c.IsInvoke() }) {
			if loopHeaderOf(c.Block()) != nil {
				g, _ := Guard(fn, nil, c.(ssa.Instruction), EqC("ctr.State == Locked", CanonHas("Container.State"), ConstStrVP("Locked")))
				if g && strings.Contains(Canon(CallArgs(c.Common())[0]), "Container.UUID") {
					okUnlock = true
				}
			}
		}
		// every Locked entry: from the State==Locked edge, the loop's back edge is unreachable without the Unlock call
		for _, c := range CallsMatching(fn, func(n string, c *ssa.CallCommon) bool { return bareName(n) == "Unlock" && c.IsInvoke() }) {
			hdr := loopHeaderOf(c.Block())
			if hdr == nil || !strings.Contains(Canon(CallArgs(c.Common())[0]), "Container.UUID") {
				continue
			}
			// is this the tail loop (not the main start loop)? the main loop contains StartContainer
			isMain := false
			for b := range loopBody(hdr) {
				for _, in := range b.Instrs {
					if ci, ok := in.(ssa.CallInstruction); ok && bareName(CalleeName(ci.Common())) == "StartContainer" {
						isMain = true
					}
				}
			}
			if isMain {
				continue
			}
			lockedEdges, _ := IfEdges(fn, EqC("ctr.State == Locked", CanonHas("Container.State"), ConstStrVP("Locked")).Match)
			for e := range lockedEdges {
				if !loopBody(hdr)[e.From] {
					continue
				}
				start := e.From.Succs[e.Succ]
				// can we get back to the loop header from `start` without executing the Unlock?
				bypass := false
				walk(entryNodes(start), nil, func(n wnode) bool {
					if n.b == hdr {
						bypass = true
						return false
					}
					for _, in := range n.b.Instrs {
						if in == c.(ssa.Instruction) {
							return false
						}
					}
					return true
				})
				if bypass {
					okUnlock = false
				}
			}
		}
		r.Check(okUnlock, "C16-R5", fn, "unlock Locked entries of the tail", fn.Pos(), "every Locked over-quota entry is unlocked, unconditionally", "an over-quota Locked container can keep its lock (and a worker) while a higher-priority container was unlocked: lower priority overtakes")
	}
}

// loopHasConditionalAppend: (approximation) the loop containing b has an If other than the loop condition.
func loopHasConditionalAppend(b *ssa.BasicBlock) bool {
	hdr := loopHeaderOf(b)
	if hdr == nil {
		// the Range instruction sits before the loop; find the loop it feeds
		for _, s := range b.Succs {
			if h := loopHeaderOf(s); h != nil {
				hdr = h
			}
			if len(loopBody(s)) > 0 {
				hdr = s
			}
		}
	}
	if hdr == nil {
		return false
	}
	for blk := range loopBody(hdr) {
		if blk == hdr {
			continue
		}
		if _, ok := lastInstr(blk).(*ssa.If); ok {
			return true
		}
	}
	return false
}
