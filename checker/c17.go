package main

import (
	"go/token"
	"strings"

	"golang.org/x/tools/go/ssa"
)

const cr = "lib/crunchrun"

func init() {
	register("C17", []string{"./lib/crunchrun", "./sdk/go/manifest"}, runC17)
}

func runC17(r *R) {
	cpT := "(*" + cr + ".copier)."
	r.Explain = "Structural necessary conditions of C17 in crunch-run's output copier: (R1) paths under a secret mount are dropped before anything is recorded, and secret children are skipped when walking a host directory; (R2) symlink following is bounded: the only recursive edge taken after Readlink passes maxSymlinks-1, is guarded by NOT maxSymlinks<0 (else errTooManySymlinks), and Copy starts from the constant limit; " +
		"(R3) out-of-mount paths, unsupported mount kinds and unsupported file types are errors, and every error of walkMount/walkHostFS/walkMountsBelow/copyFile/Flush/Mkdir (≠ ErrExist) makes Copy fail; Copy returns MarshalManifest's own result; (R4) read-only collection mounts are included by reference: manifest text comes from Extract(srcRelPath, dest) of the manifest fetched by the mount's PDH, and nothing from such a mount is queued as a file copy; " +
		"(R5) an empty directory is recorded as dest/.keep; (R6) manifest.Extract's subtree selection has path-prefix semantics and scans every stream (shared with C10). Equality of the round-tripped tree and name escaping end-to-end are not decided. Information (not a violation under this property's quantifier, which uses valid manifests): Extract(...).Err is not consulted in walkMount."
	r.NotDec = []string{"equality of the round-tripped tree (bytes and paths)", "flush policy", "end-to-end name escaping"}
	r.Assume = []string{"mounted collections contain no symlinks"}

	// ---- R1
	r.Rule("C17-R1", "secrets excluded: walkMount returns nil for paths under a secret mount before recording anything; walkHostFS skips children that are secret mounts", 2)
	if fn := r.NeedFn("C17-R1", cpT+"walkMount"); fn != nil {
		// every store to cp.manifest / append to cp.files|dirs / recursive walk is unreachable without having finished the secretMounts scan
		var rng *ssa.Range
		allInstrs(fn, func(in ssa.Instruction) {
			if rg, ok := in.(*ssa.Range); ok && IsFieldLoad(rg.X, cr+".copier", "secretMounts") {
				rng = rg
			}
		})
		okSecret := rng != nil
		if okSecret {
			// inside that loop there is a `return nil` guarded by HasPrefix(src+"/", root+"/")
			found := false
			for _, ret := range Returns(fn) {
				succ, _ := IsSuccessReturn(ret)
				if !succ {
					continue
				}
				g, _ := Guard(fn, rng, ret, TrueC("HasPrefix(src+\"/\", root+\"/\")", func(v ssa.Value) bool {
					c, ok := Resolve1(v).(*ssa.Call)
					return ok && CalleeName(c.Common()) == "strings.HasPrefix" && strings.Contains(Canon(c.Call.Args[0]), "param:src")
				}))
				if g && loopHeaderOf(ret.Block()) == nil && reachAvoiding(rng, ret, nil) {
					// return is in the loop's break-out block
					found = true
				}
			}
			okSecret = found
			// sinks come after the scan
			allInstrs(fn, func(in ssa.Instruction) {
				isSink := false
				if st, ok := in.(*ssa.Store); ok {
					if _, f, _, ok := FieldName(st.Addr); ok && (f == "manifest" || f == "files" || f == "dirs") {
						isSink = true
					}
				}
				if c, ok := in.(*ssa.Call); ok {
					n := CalleeName(c.Common())
					if n == cpT+"walkHostFS" || n == cpT+"walkMountsBelow" {
						isSink = true
					}
				}
				if isSink && !MustPassFromEntry(fn, in, []ssa.Instruction{rng}) {
					okSecret = false
				}
			})
		}
		r.Check(okSecret, "C17-R1", fn, "secret-mount prefix test", fn.Pos(), "returns nil before any output is recorded", "a path under a secret mount can be recorded in the output (or the secret test no longer precedes recording)")
	}
	if fn := r.NeedFn("C17-R1", cpT+"walkHostFS"); fn != nil {
		for _, c := range CallsIn(fn, cpT+"walkHostFS") {
			g, _ := Guard(fn, nil, c.(ssa.Instruction), FalseC("_, isSecret := cp.secretMounts[src]", func(v ssa.Value) bool {
				e, ok := Resolve1(v).(*ssa.Extract)
				if !ok || e.Index != 1 {
					return false
				}
				l, ok := e.Tuple.(*ssa.Lookup)
				return ok && IsFieldLoad(l.X, cr+".copier", "secretMounts") && SameCanon(l.Index, CallArgs(c.Common())[1])
			}))
			r.Check(g, "C17-R1", fn, "recursive walkHostFS(child)", c.Pos(), "skipped when the child is a secret mount", "a secret mount inside the output directory is copied to the output")
		}
	}

	// ---- R2
	r.Rule("C17-R2", "bounded symlink following: after Readlink the walk continues with maxSymlinks-1 under NOT maxSymlinks<0 (else errTooManySymlinks); other recursive edges pass the counter unchanged or 0; Copy starts with limitFollowSymlinks", 4)
	if fn := r.NeedFn("C17-R2", cpT+"walkHostFS"); fn != nil {
		ms := paramOf(fn, "maxSymlinks")
		rl := CallsIn(fn, "os.Readlink")
		for _, c := range CallsIn(fn, cpT+"walkMount") {
			a := CallArgs(c.Common())
			bo, ok := Resolve1(a[2]).(*ssa.BinOp)
			okDec := ok && bo.Op == token.SUB && same(bo.X, ms)
			if okDec {
				k, _ := ConstInt(bo.Y)
				okDec = k == 1
			}
			g, _ := Guard(fn, nil, c.(ssa.Instruction), GeC("maxSymlinks < 0", Is(ms), ConstIntVP(0)))
			after := len(rl) == 1 && Precedes(rl[0], c)
			r.Check(okDec && g && after, "C17-R2", fn, "walkMount(dest, target, maxSymlinks-1, …)", c.Pos(), "counter decremented, guarded by NOT maxSymlinks<0", "symlink chains/cycles are followed without a decreasing bound")
			below, isC := ConstBool(a[3])
			r.Check(isC && below, "C17-R2", fn, "walkMount(dest, target, …, walkMountsBelow=true)", c.Pos(), "a link target is a new source path: mounts beneath it are walked", "after following a symlink the collections mounted beneath the target are not walked: they appear under the real path but are silently missing under the link name")
		}
		okErr := false
		for _, ret := range Returns(fn) {
			for _, e := range returnOperand(ret, ret.Results[0]) {
				if g, ok := LoadedGlobal(e); ok && g == cr+".errTooManySymlinks" {
					gd, _ := Guard(fn, nil, ret, LtC("maxSymlinks < 0", Is(ms), ConstIntVP(0)))
					okErr = gd
				}
			}
		}
		r.Check(okErr, "C17-R2", fn, "maxSymlinks < 0 ⇒ errTooManySymlinks", fn.Pos(), "cycles end in an error", "exhausting the symlink budget is not an error")
		for _, c := range CallsIn(fn, cpT+"walkHostFS") {
			r.Check(same(CallArgs(c.Common())[2], ms), "C17-R2", fn, "walkHostFS(child, maxSymlinks)", c.Pos(), "counter passed unchanged", "the symlink budget is reset while descending")
		}
	}
	if fn := r.NeedFn("C17-R2", cpT+"walkMount"); fn != nil {
		for _, c := range CallsIn(fn, cpT+"walkHostFS") {
			r.Check(same(CallArgs(c.Common())[2], paramOf(fn, "maxSymlinks")), "C17-R2", fn, "walkHostFS(dest, src, maxSymlinks, …)", c.Pos(), "counter passed unchanged", "the symlink budget is reset between walkMount and walkHostFS")
		}
	}
	if fn := r.NeedFn("C17-R2", cpT+"walkMountsBelow"); fn != nil {
		for _, c := range CallsIn(fn, cpT+"walkMount") {
			k, ok := ConstInt(CallArgs(c.Common())[2])
			r.Check(ok && k == 0, "C17-R2", fn, "walkMount(…, 0, false)", c.Pos(), "mounted collections are walked with no symlink budget", "walkMountsBelow hands out a symlink budget")
		}
	}
	if fn := r.NeedFn("C17-R2", cpT+"Copy"); fn != nil {
		for _, c := range CallsIn(fn, cpT+"walkMount") {
			k, ok := ConstInt(CallArgs(c.Common())[2])
			r.Check(ok && k > 0 && k <= 100, "C17-R2", fn, "walkMount(\"\", outdir, limitFollowSymlinks, true)", c.Pos(), "finite constant budget", "Copy starts the walk without a finite constant symlink budget")
		}
	}

	// ---- R3
	r.Rule("C17-R3", "errors abort: out-of-mount ⇒ error; non-tmp/collection mounts ⇒ error; unsupported file modes ⇒ error; errors of walk*/copyFile/Flush/Mkdir(≠ErrExist)/FileSystem make Copy fail; Copy returns MarshalManifest(\".\") itself", 4)
	if fn := r.NeedFn("C17-R3", cpT+"Copy"); fn != nil {
		var mm ssa.CallInstruction
		for _, c := range CallsMatching(fn, func(n string, c *ssa.CallCommon) bool { return bareName(n) == "MarshalManifest" }) {
			mm = c
		}
		okRet := false
		for _, ret := range Returns(fn) {
			if mm != nil && len(ret.Results) == 2 && IsResultOfCall(Resolve1(ret.Results[0]), mm.Value(), 0) && IsResultOfCall(Resolve1(ret.Results[1]), mm.Value(), 1) {
				okRet = true
			}
		}
		r.Check(okRet, "C17-R3", fn, "return fs.MarshalManifest(\".\")", fn.Pos(), "the saved manifest and its error are returned as is", "Copy does not return MarshalManifest's own result")
		for _, c := range CallsMatching(fn, func(n string, c *ssa.CallCommon) bool {
			b := bareName(n)
			return n == cpT+"walkMount" || n == cpT+"copyFile" || b == "Flush" || b == "Mkdir" || b == "FileSystem"
		}) {
			if mm == nil {
				break
			}
			alts := []CP{ErrNilC(c)}
			if bareName(CalleeName(c.Common())) == "Mkdir" {
				alts = append(alts, EqC("err == os.ErrExist", ResultVP(c.Value(), 0), GlobalVP("os.ErrExist")))
			}
			g, _ := Guard(fn, c.(ssa.Instruction), mm.(ssa.Instruction), alts...)
			r.Check(g, "C17-R3", fn, bareName(CalleeName(c.Common()))+" error ⇒ Copy fails", c.Pos(), "the manifest is saved only if this step succeeded", "Copy can save an output manifest although "+bareName(CalleeName(c.Common()))+" failed")
		}
	}
	if fn := r.NeedFn("C17-R3", cpT+"walkMount"); fn != nil {
		okOut := false
		for _, ret := range Returns(fn) {
			if MaybeSuccess(fn, ret) {
				continue
			}
			g, _ := Guard(fn, nil, ret, EqC("srcRoot == \"\"", AnyV, ConstStrVP("")))
			okOut = okOut || g
		}
		r.Check(okOut, "C17-R3", fn, "srcRoot == \"\" ⇒ error", fn.Pos(), "paths outside every mount are errors", "a path outside every mount is silently dropped")
		okKind := false
		for _, ret := range Returns(fn) {
			if MaybeSuccess(fn, ret) {
				continue
			}
			g, _ := Guard(fn, nil, ret, NeqC("srcMount.Kind != \"collection\"", CanonHas("Mount.Kind"), ConstStrVP("collection")))
			okKind = okKind || g
		}
		r.Check(okKind, "C17-R3", fn, "unsupported mount kind ⇒ error", fn.Pos(), "only tmp and collection mounts can appear in output", "an unsupported mount kind is silently skipped")
		for _, c := range CallsIn(fn, cpT+"walkHostFS", cpT+"walkMountsBelow") {
			r.Check(errReturned(fn, c), "C17-R3", fn, bareName(CalleeName(c.Common()))+" error returned", c.Pos(), "propagated", "an error from the walk is dropped")
		}
	}
	if fn := r.NeedFn("C17-R3", cpT+"walkHostFS"); fn != nil {
		for _, c := range CallsIn(fn, cpT+"walkHostFS", cpT+"walkMountsBelow", cpT+"walkMount") {
			r.Check(errReturned(fn, c), "C17-R3", fn, bareName(CalleeName(c.Common()))+" error returned", c.Pos(), "propagated", "an error from the walk is dropped")
		}
		// the final fallthrough is an error
		last := false
		for _, ret := range Returns(fn) {
			if !MaybeSuccess(fn, ret) {
				g1, _ := Guard(fn, nil, ret, FalseC("fi.Mode().IsRegular()", CallVP("(io/fs.FileMode).IsRegular")), FalseC("fi.Mode().IsRegular()", CallVP("(os.FileMode).IsRegular")))
				last = last || g1
			}
		}
		r.Check(last, "C17-R3", fn, "unsupported file type ⇒ error", fn.Pos(), "special files are rejected", "special files are silently skipped")
	}
	if fn := r.NeedFn("C17-R3", cpT+"walkMountsBelow"); fn != nil {
		for _, c := range CallsIn(fn, cpT+"walkMount") {
			r.Check(errReturned(fn, c), "C17-R3", fn, "walkMount error returned", c.Pos(), "propagated", "an error from a nested mount is dropped")
		}
	}

	// ---- R4
	r.Rule("C17-R4", "collection mounts by reference: cp.manifest += Extract(srcRelPath, dest).Text of the mount's manifest (read-only: fetched by PortableDataHash); no file of such a mount is queued for copying", 1)
	if fn := r.NeedFn("C17-R4", cpT+"walkMount"); fn != nil {
		n := 0
		for _, st := range StoresToField(fn, cr+".copier", "manifest") {
			n++
			parts := ConcatParts(st.Val)
			ok := len(parts) == 2 && IsFieldLoad(parts[0], cr+".copier", "manifest")
			if ok {
				// parts[1] = field Text of Extract(...) result
				ok = strings.Contains(Canon(parts[1]), "Manifest.Text") || extractTextOf(parts[1])
			}
			r.Check(ok, "C17-R4", fn, "cp.manifest += mft.Extract(srcRelPath, dest).Text", st.Pos(), "mounted content is included by reference", "cp.manifest is extended with something other than the extracted manifest text")
		}
		if n < 2 {
			r.Bad("C17-R4", fn, "cp.manifest += …", fn.Pos(), "expected the read-only and the writable collection arm")
		}
		for _, c := range CallsIn(fn, cpT+"getManifest") {
			r.Check(strings.Contains(Canon(c.Common().Args[1]), "Mount.PortableDataHash"), "C17-R4", fn, "getManifest(srcMount.PortableDataHash)", c.Pos(), "the mount's own PDH", "the manifest is fetched for a different identifier than the mount's PDH")
		}
		for _, st := range StoresToField(fn, cr+".copier", "files") {
			r.Bad("C17-R4", fn, "cp.files append in walkMount", st.Pos(), "files of a collection mount are queued for copying instead of being referenced")
		}
		for _, c := range CallsIn(fn, "("+mfp+".Manifest).Extract") {
			r.Info("C17-R4", fn, "Extract(...).Err", c.Pos(), "information: Extract's Err field is not consulted here; with the valid manifests of this property's quantifier it is nil")
		}
	}

	// ---- R5
	r.Rule("C17-R5", "empty directory ⇒ filetodo{src: os.DevNull, dst: dest+\"/.keep\"}", 1)
	if fn := r.NeedFn("C17-R5", cpT+"walkHostFS"); fn != nil {
		ok := false
		allInstrs(fn, func(in ssa.Instruction) {
			c, isC := in.(*ssa.Call)
			if !isC || CalleeName(c.Common()) != "builtin.append" {
				return
			}
			elems, okE := VarargElems(c.Call.Args[1])
			if !okE || len(elems) != 1 || elems[0] == nil {
				return
			}
			cf := compositeFields(elems[0])
			if cf["dst"] == nil {
				return
			}
			parts := ConcatParts(cf["dst"])
			if len(parts) == 2 {
				if s, _ := ConstString(parts[1]); s == "/.keep" {
					g, _ := Guard(fn, nil, in, IntC("len(names) == 0", lenVP, token.EQL, 0, true))
					src, _ := ConstString(cf["src"])
					ok = g && same(parts[0], paramOf(fn, "dest")) && (src == "/dev/null" || strings.Contains(Canon(cf["src"]), "DevNull"))
				}
			}
		})
		r.Check(ok, "C17-R5", fn, "empty dir ⇒ dest/.keep", fn.Pos(), "empty directories survive as a .keep placeholder", "empty directories are lost from the output")
	}

	// ---- R6
	r.Rule("C17-R6", "manifest.Extract subtree filter: path-prefix semantics; every stream scanned (shared with C10-R6)", 1)
	extractFilterRule(r, "C17-R6")
}

// extractTextOf: v is the Text field of a value returned by Manifest.Extract.
func extractTextOf(v ssa.Value) bool {
	v = Resolve1(v)
	if f, ok := v.(*ssa.Field); ok {
		if c, ok := Resolve1(f.X).(*ssa.Call); ok && strings.HasSuffix(CalleeName(c.Common()), "Manifest).Extract") {
			return true
		}
	}
	if u, ok := v.(*ssa.UnOp); ok {
		if fa, ok := u.X.(*ssa.FieldAddr); ok {
			_, name, base, _ := FieldName(fa)
			if name != "Text" {
				return false
			}
			if al, ok := base.(*ssa.Alloc); ok {
				for _, st := range cellStores(al) {
					if c, ok := Resolve1(st.Val).(*ssa.Call); ok && strings.HasSuffix(CalleeName(c.Common()), "Manifest).Extract") {
						return true
					}
				}
			}
		}
	}
	return false
}
