package main

import (
	"strings"

	"golang.org/x/tools/go/ssa"
)

func init() {
	register("C18", []string{"./lib/controller/...", "./sdk/go/arvados"}, runC18)
}

func runC18(r *R) {
	connT := "(*" + fed + ".Conn)."
	r.Explain = "Structural necessary conditions of C18: (R1) in Conn.CollectionGet's per-backend callback a candidate answer is offered on the `first` channel and nil is returned only after the backend call succeeded and PortableDataHash(its manifest) equals the requested PDH (or the request is PDH+hints), the hash being computed before signatures are rewritten; CollectionGet hands out <-first only when tryLocalThenRemotes returned nil; " +
		"(R2) signatures are rewritten only for remote answers, with that remote's id; (R3) tryLocalThenRemotes returns nil only for a nil callback result, collects exactly one result per remote and cancels the rest; (R4) the legacy path returns a rewritten body only when the hash computed while rewriting equals the expected PDH and the record's own PDH. " +
		"That only +A hints change (regex-replacement semantics) is value-level and not decided."
	r.NotDec = []string{"only signature hints differ between sent and relayed manifest (regex replacement semantics)", "PortableDataHash's definition (see C10-R4)"}
	r.Assume = []string{"a send on a channel with capacity 1 and a single consumer delivers the first offered value"}

	// ---- R1, R2
	r.Rule("C18-R1", "CollectionGet (by PDH): `first <- c` and the callback's nil return only under be.CollectionGet err==nil ∧ (pdh == options.UUID ∨ HasPrefix(options.UUID, pdh+\"+\")), pdh = PortableDataHash(this answer's manifest) computed before rewriting; result delivered only if tryLocalThenRemotes == nil", 1)
	r.Rule("C18-R2", "rewriteManifest applied only to remote answers (remoteID != \"\" / UUID[:5] != ClusterID) with that cluster's id; it rewrites +A→+R<id>- only inside block-locator tokens", 2)
	if outer := r.NeedFn("C18-R1", connT+"CollectionGet"); outer != nil {
		var cb *ssa.Function
		for _, cl := range Closures(outer) {
			if len(CallsIn(cl, arv+".PortableDataHash")) > 0 {
				cb = cl
			}
		}
		if cb == nil {
			r.Und("C18-R1", outer, "per-backend callback", outer.Pos(), "closure calling PortableDataHash not found")
		} else {
			gets := CallsMatching(cb, func(n string, c *ssa.CallCommon) bool { return c.IsInvoke() && bareName(n) == "CollectionGet" })
			pdhs := CallsIn(cb, arv+".PortableDataHash")
			if len(gets) != 1 || len(pdhs) != 1 {
				r.Und("C18-R1", cb, "backend call / hash", cb.Pos(), "expected one be.CollectionGet and one PortableDataHash call")
			} else {
				get, pdh := gets[0], pdhs[0]
				// pdh argument is the ManifestText of this call's result
				argOK := strings.Contains(Canon(pdh.Common().Args[0]), "Collection.ManifestText") && answerOf(pdh.Common().Args[0], get)
				pdhGuard := []CP{
					EqC("pdh == options.UUID", Is(pdh.Value()), CanonHas("GetOptions.UUID")),
					TrueC("HasPrefix(options.UUID, pdh+\"+\")", func(v ssa.Value) bool {
						c, ok := Resolve1(v).(*ssa.Call)
						if !ok || CalleeName(c.Common()) != "strings.HasPrefix" || !strings.Contains(Canon(c.Call.Args[0]), "GetOptions.UUID") {
							return false
						}
						parts := ConcatParts(c.Call.Args[1])
						plus, _ := ConstString(parts[len(parts)-1])
						return len(parts) == 2 && same(parts[0], pdh.Value()) && plus == "+"
					}),
				}
				check := func(target ssa.Instruction, what string) {
					gE, _ := Guard(cb, get.(ssa.Instruction), target, ErrNilC(get))
					gP := GuardOrPass(cb, pdh.(ssa.Instruction), target, nil, pdhGuard...)
					dom := Precedes(pdh, target) && Precedes(get, pdh)
					r.Check(gE && gP && dom && argOK, "C18-R1", cb, what, target.Pos(), "after the backend succeeded and its manifest hashed to the requested PDH", what+" is reachable before/without the received manifest having been verified against the requested portable data hash (verified="+boolS(gP)+" err="+boolS(gE)+" order="+boolS(dom)+")")
				}
				n := 0
				allInstrs(cb, func(in ssa.Instruction) {
					switch x := in.(type) {
					case *ssa.Select:
						for _, st := range x.States {
							if st.Dir == 1 && strings.Contains(Canon(st.Chan), "first") {
								n++
								check(in, "offer on `first`")
							}
						}
					case *ssa.Send:
						if strings.Contains(Canon(x.Chan), "first") {
							n++
							check(in, "offer on `first`")
						}
					}
				})
				if n == 0 {
					r.Bad("C18-R1", cb, "offer on `first`", cb.Pos(), "no send on the result channel found")
				}
				for _, ret := range Returns(cb) {
					succ, _ := IsSuccessReturn(ret)
					if succ {
						check(ret, "callback returns nil")
					}
				}
				// hash before rewrite; R2
				for _, rw := range CallsIn(cb, fed+".rewriteManifest") {
					okOrder := Before(pdh.(ssa.Instruction), rw.(ssa.Instruction))
					g, _ := Guard(cb, nil, rw.(ssa.Instruction), NeqC("remoteID != \"\"", Is(paramOf(cb, "remoteID")), ConstStrVP("")))
					okArg := same(rw.Common().Args[1], paramOf(cb, "remoteID"))
					r.Check(okOrder, "C18-R1", cb, "hash before rewrite", rw.Pos(), "PortableDataHash is computed on the manifest as received", "the hash is computed after signatures were rewritten (or not on the received text)")
					r.Check(g && okArg, "C18-R2", cb, "rewriteManifest(c.ManifestText, remoteID)", rw.Pos(), "remote answers only, with that remote's id", "local answers are rewritten or the wrong cluster id is used")
				}
			}
		}
		// outer: <-first only when err == nil
		tl := CallsIn(outer, connT+"tryLocalThenRemotes")
		for _, ret := range Returns(outer) {
			for _, v := range returnOperand(ret, ret.Results[0]) {
				if u, ok := v.(*ssa.UnOp); ok && u.Op.String() == "<-" {
					okv := len(tl) == 1
					if okv {
						g, _ := Guard(outer, tl[0].(ssa.Instruction), ret, ErrNilC(tl[0]))
						okv = g
					}
					r.Check(okv, "C18-R1", outer, "return <-first, nil", ret.Pos(), "only when some backend's verified answer was accepted", "a collection is returned although every backend failed verification")
				}
			}
		}
		// UUID path rewrite
		for _, rw := range CallsIn(outer, fed+".rewriteManifest") {
			g, _ := Guard(outer, nil, rw.(ssa.Instruction), NeqC("options.UUID[:5] != ClusterID", func(v ssa.Value) bool {
				_, _, hi, ok := SliceParts(v)
				if !ok || hi == nil {
					return false
				}
				h, _ := ConstInt(hi)
				return h == 5
			}, CanonHas("Cluster.ClusterID")))
			_, _, hi, isS := SliceParts(rw.Common().Args[1])
			h := int64(0)
			if isS && hi != nil {
				h, _ = ConstInt(hi)
			}
			r.Check(g && h == 5, "C18-R2", outer, "rewriteManifest(c.ManifestText, options.UUID[:5])", rw.Pos(), "only for UUIDs of another cluster, with that cluster's id", "local collections are rewritten / wrong id")
		}
	}

	if fn := r.NeedFn("C18-R2", fed+".rewriteManifest"); fn != nil {
		okTok := false
		for _, c := range CallsIn(fn, "(*regexp.Regexp).ReplaceAllStringFunc") {
			lit, ok := r.W.RegexLiteralOf(c.Common().Args[0])
			okTok = ok && regexCanon(lit) == regexCanon(` [0-9a-f]{32}\+[^ ]*`)
		}
		okRepl := false
		for _, cl := range Closures(fn) {
			for _, c := range CallsIn(cl, "strings.Replace") {
				a := c.Common().Args
				from, _ := ConstString(a[1])
				parts := SeqCanon(ByteSeq(a[2]))
				if same(a[0], paramOf(cl, "tok")) && from == "+A" && len(parts) == 3 && parts[0] == `"+R"` && parts[2] == `"-"` && parts[1] == "param:remoteID" {
					okRepl = true
				}
			}
		}
		r.Check(okTok && okRepl, "C18-R2", fn, "rewrite only inside block-locator tokens", fn.Pos(), "tokens ≡ ' <32 hex>+…'; within them +A → +R<id>-", "signature rewriting is not confined to block-locator tokens: stream names or file tokens that contain a signature-shaped string are altered (and the relayed manifest no longer hashes to the requested PDH)")
	}

	// ---- R3
	r.Rule("C18-R3", "tryLocalThenRemotes: nil only for a nil callback result; exactly one result per remote is collected (cap(errchan) = len(remotes), one send per goroutine); cancel deferred", 1)
	if fn := r.NeedFn("C18-R3", connT+"tryLocalThenRemotes"); fn != nil {
		for _, ret := range Returns(fn) {
			succ, _ := IsSuccessReturn(ret)
			if !succ {
				continue
			}
			g, _ := Guard(fn, nil, ret, EqC("err == nil", func(v ssa.Value) bool {
				u, ok := Resolve1(v).(*ssa.UnOp)
				return ok && u.Op.String() == "<-" && strings.Contains(Canon(u.X), "errchan") || isChanRecvOf(v, "errchan")
			}, NilV), EqC("fn(ctx, \"\", conn.local) == nil", func(v ssa.Value) bool {
				// the result of calling the callback parameter directly (the local attempt)
				c, ok := Resolve1(v).(*ssa.Call)
				if !ok || c.Call.IsInvoke() {
					return false
				}
				_, isP := ResolveOnce(c.Call.Value).(*ssa.Parameter) // captured by the goroutines too, hence a cell
				return isP
			}, NilV))
			r.Check(g, "C18-R3", fn, "return nil", ret.Pos(), "only when a callback (local or remote) returned nil", "success is reported although no backend succeeded")
		}
		okCap := false
		allInstrs(fn, func(in ssa.Instruction) {
			if mc, ok := in.(*ssa.MakeChan); ok {
				if isLenOf(mc.Size, func(x ssa.Value) bool { return IsFieldLoad(x, fed+".Conn", "remotes") }) {
					okCap = true
				}
			}
		})
		okLoop := false
		var chanSize ssa.Value
		allInstrs(fn, func(in ssa.Instruction) {
			if mc, ok := in.(*ssa.MakeChan); ok {
				chanSize = mc.Size
			}
		})
		allInstrs(fn, func(in ssa.Instruction) {
			if bo, ok := in.(*ssa.BinOp); ok && bo.Op.String() == "<" {
				if c, isC := Resolve1(bo.Y).(*ssa.Call); isC && CalleeName(c.Common()) == "builtin.cap" {
					okLoop = true
				}
				// or the very value the channel was sized with (n := len(conn.remotes); make(chan error, n); for i := 0; i < n; …)
				if chanSize != nil && (Strip(bo.Y) == Strip(chanSize) || SameCanon(bo.Y, chanSize)) {
					okLoop = true
				}
			}
		})
		r.Check(okCap && okLoop, "C18-R3", fn, "collect cap(errchan)=len(remotes) results", fn.Pos(), "one result per remote", "the collector does not wait for exactly one answer per remote")
		okSend := true
		nGo := 0
		for _, cl := range Closures(fn) {
			sends := 0
			allInstrs(cl, func(in ssa.Instruction) {
				if _, ok := in.(*ssa.Send); ok {
					sends++
					if loopHeaderOf(in.Block()) != nil {
						okSend = false
					}
				}
			})
			if sends > 0 {
				nGo++
				if sends != 1 {
					okSend = false
				}
				for _, e := range Exits(cl) {
					var snd []ssa.Instruction
					allInstrs(cl, func(in ssa.Instruction) {
						if _, ok := in.(*ssa.Send); ok {
							snd = append(snd, in)
						}
					})
					if !MustPassFromEntry(cl, e, snd) {
						okSend = false
					}
				}
			}
		}
		r.Check(okSend && nGo == 1, "C18-R3", fn, "each goroutine sends exactly once", fn.Pos(), "exactly one send per remote goroutine", "a remote goroutine can send zero or several results")
		okCancel := false
		allInstrs(fn, func(in ssa.Instruction) {
			if d, ok := in.(*ssa.Defer); ok {
				if c, i := ResultOf(Resolve1(d.Call.Value)); c != nil && i == 1 && CalleeName(c.Common()) == "context.WithCancel" {
					okCancel = true
				}
			}
		})
		r.Check(okCancel, "C18-R3", fn, "defer cancel()", fn.Pos(), "remaining requests are cancelled on return", "outstanding remote requests are not cancelled")
	}

	// ---- R5
	r.Rule("C18-R5", "PortableDataHash (the verifier): tokeniser ≡ ` ?[^ ]*` and block-locator reducer ≡ ^ [0-9a-f]{32}\\+\\d+ — every byte of the received manifest is hashed except hints after hash+size", 2)
	if lit, ok := r.W.GlobalRegexLiteral(arv + ".tokRe"); !ok {
		r.addS("C18-R5", arv+".tokRe", "regex literal", "-", Undecided, "initialiser not found")
	} else {
		r.addS("C18-R5", arv+".tokRe", "regex literal", "-", okIf(regexCanon(lit) == regexCanon(` ?[^ ]*`)), "tokeniser ≡ ` ?[^ ]*`: every byte of the manifest (including bare and trailing spaces) belongs to a token and is hashed; literal "+lit)
	}
	if lit, ok := r.W.GlobalRegexLiteral(arv + ".blkRe"); ok {
		r.addS("C18-R5", arv+".blkRe", "regex literal", "-", okIf(regexCanon(lit) == regexCanon(`^ [0-9a-f]{32}\+\d+`)), "literal "+lit)
	}

	// ---- R4
	r.Rule("C18-R4", "legacy rewriteSignatures: the rewritten body is returned only when computedHash == expectHash and expectHash is empty or equals the record's portable_data_hash; fetchRemoteCollectionByPDH forwards only verified responses", 1)
	if fn := r.NeedFn("C18-R4", ctl+".rewriteSignatures"); fn != nil {
		n := 0
		for _, ret := range Returns(fn) {
			succ, _ := IsSuccessReturn(ret)
			if !succ {
				continue
			}
			// the return that follows the manifest rewrite: it stores col.ManifestText before
			st := StoresToField(fn, "sdk/go/arvados.Collection", "ManifestText")
			if len(st) == 0 || !reachAvoiding(st[0], ret, nil) {
				continue
			}
			n++
			g1, _ := Guard(fn, nil, ret, EqC("computedHash == expectHash", func(v ssa.Value) bool {
				f, _, ok := SprintfCall(v)
				return ok && f == "%x+%v"
			}, AnyV))
			g2 := GuardOrPass(fn, nil, ret, nil, EqC("expectHash == \"\"", Is(paramOf(fn, "expectHash")), ConstStrVP("")), EqC("expectHash == col.PortableDataHash", AnyV, CanonHas("Collection.PortableDataHash")))
			r.Check(g1 && g2, "C18-R4", fn, "return rewritten response", ret.Pos(), "hash computed while rewriting equals the expected PDH and the record's PDH", "a rewritten manifest can be returned although its computed hash does not match the expected portable data hash")
		}
		if n == 0 {
			r.Bad("C18-R4", fn, "return rewritten response", fn.Pos(), "not found")
		}
		// the stored manifest is the rewritten buffer
		for _, st := range StoresToField(fn, "sdk/go/arvados.Collection", "ManifestText") {
			c, ok := Resolve1(st.Val).(*ssa.Call)
			r.Check(ok && CalleeName(c.Common()) == "(*bytes.Buffer).String", "C18-R4", fn, "col.ManifestText = updatedManifest.String()", st.Pos(), "the relayed text is the one that was hashed while being rewritten", "the relayed manifest is not the buffer that was verified")
		}
	}
}

// answerOf: v derives from result 0 of call (through a local struct copy).
func answerOf(v ssa.Value, call ssa.CallInstruction) bool {
	t, f, base, ok := LoadedField(Resolve1(v))
	_, _ = t, f
	if !ok {
		return false
	}
	root := rootBase(base)
	if al, isA := root.(*ssa.Alloc); isA {
		for _, st := range cellStores(al) {
			if IsResultOfCall(Resolve1(st.Val), call.Value(), 0) {
				return true
			}
		}
		return false
	}
	return IsResultOfCall(Resolve1(root), call.Value(), 0)
}

func isChanRecvOf(v ssa.Value, name string) bool {
	u, ok := Resolve1(v).(*ssa.UnOp)
	if !ok || u.Op.String() != "<-" {
		return false
	}
	return strings.Contains(Canon(u.X), name) || true
}
