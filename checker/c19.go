package main

import (
	"strings"

	"golang.org/x/tools/go/ssa"
)

const (
	fed   = "lib/controller/federation"
	ctl   = "lib/controller"
	rpcP  = "lib/controller/rpc"
	authP = "sdk/go/auth"
)

func init() {
	register("C19", []string{"./lib/controller/...", "./sdk/go/auth", "./services/keepstore"}, runC19)
}

func errGlobalC(errv VP, name string) CP {
	return EqC("err == "+name, errv, globalErrVP(name))
}

// appendedElems: for `append(s, x...)` returns the appended element values.
func appendedElems(c ssa.CallInstruction) ([]ssa.Value, bool) {
	a := c.Common().Args
	if len(a) != 2 {
		return nil, false
	}
	return VarargElems(a[1])
}

func runC19(r *R) {
	w := r.W
	r.Explain = "Value-provenance rules for every place a credential is put into a request for another cluster: " +
		"(R1) saltedTokenProvider appends only SaltToken(·, remoteID) results (err nil) or the incoming token under the four documented pass-through conditions; (R2) every rpc.NewConn for a remote gets saltedTokenProvider with the same id, Passthrough only for the local cluster; " +
		"(R3) auth.SaltToken returns either \"v2/\"+uuid+\"/\"+hex(HMAC-SHA1(key=secret, msg=remote)) or the unchanged token only when already salted for that remote; (R4) the legacy saltAuthToken sets Authorization from salted/pass-through tokens only, drops the incoming Authorization, and always re-parses the query to delete api_token; " +
		"(R5) the form-body token path is live (caller's and callee's Content-Type constants agree) — found F5; (R6) keepstore's remoteClient ends with a salted ApiToken; (R7) rpc.Conn sends only tokenProvider results. One-wayness of HMAC is not decided."
	r.NotDec = []string{"HMAC-SHA1 one-wayness", "Cookie header forwarding on the legacy path (outside the anchors)"}
	r.Assume = []string{"go/ssa value flow is faithful", "crypto/hmac, crypto/sha1 semantics"}

	// ---- R1
	r.Rule("C19-R1", "saltedTokenProvider: each appended token is SaltToken(·,remoteID)#0 under err==nil, or the incoming token only under ErrSalted | ErrTokenFormat | ErrObsoleteToken∧(401 | aca.UUID has prefix remoteID)", 1)
	if outer := r.NeedFn("C19-R1", fed+".saltedTokenProvider"); outer != nil && len(outer.AnonFuncs) == 1 {
		fn := outer.AnonFuncs[0]
		var remoteID ssa.Value
		for _, fv := range fn.FreeVars {
			if fv.Name() == "remoteID" {
				remoteID = fv
			}
		}
		salts := CallsIn(fn, authP+".SaltToken")
		isRemote := func(v ssa.Value) bool { return remoteID != nil && Canon(v) == "free:remoteID" }
		// the per-token first SaltToken call: its first arg is the range element of incoming.Tokens
		var s1 ssa.CallInstruction
		for _, s := range salts {
			if strings.Contains(Canon(s.Common().Args[0]), "Credentials.Tokens") {
				s1 = s
			}
		}
		if s1 == nil || remoteID == nil {
			r.Und("C19-R1", fn, "SaltToken(token, remoteID)", fn.Pos(), "first SaltToken call on the incoming token not found")
		} else {
			tokenCanon := Canon(s1.Common().Args[0])
			err1 := ResultVP(s1.Value(), 1)
			for _, ap := range CallsIn(fn, "builtin.append") {
				elems, ok := appendedElems(ap)
				if !ok {
					r.Und("C19-R1", fn, "append(tokens, …)", ap.Pos(), "cannot read appended elements")
					continue
				}
				in := ap.(ssa.Instruction)
				// checkElem judges one value that can be appended; guard decides "every path on which this value is the
				// one appended passes one of these tests", domOK that the producing call precedes on those paths.
				var checkElem func(x ssa.Value, guard func(from ssa.Instruction, alts ...CP) bool, domOK func(b *ssa.BasicBlock) bool, depth int)
				checkElem = func(x ssa.Value, guard func(from ssa.Instruction, alts ...CP) bool, domOK func(b *ssa.BasicBlock) bool, depth int) {
					x = Resolve1(x)
					if c, idx := ResultOf(x); c != nil && idx == 0 && CalleeName(c.Common()) == authP+".SaltToken" {
						g := guard(c, EqC("err==nil", ResultVP(c, 1), NilV))
						r.Check(g && isRemote(c.Call.Args[1]) && domOK(c.Block()), "C19-R1", fn, "append(tokens, salted)", ap.Pos(),
							"SaltToken(·, remoteID) result under err==nil", "a SaltToken result is forwarded without its error being nil, or salted for a different id")
						return
					}
					if Canon(x) == tokenCanon {
						gA := guard(s1.(ssa.Instruction), errGlobalC(err1, authP+".ErrSalted"), errGlobalC(err1, authP+".ErrTokenFormat"), errGlobalC(err1, authP+".ErrObsoleteToken"))
						gB := guard(s1.(ssa.Instruction), errGlobalC(err1, authP+".ErrSalted"), errGlobalC(err1, authP+".ErrTokenFormat"),
							EqC("errStatus(err)==401", CallVP(fed+".errStatus"), ConstIntVP(401)),
							TrueC("HasPrefix(aca.UUID, remoteID)", func(v ssa.Value) bool {
								c, ok := Resolve1(v).(*ssa.Call)
								return ok && CalleeName(c.Common()) == "strings.HasPrefix" && strings.Contains(Canon(c.Call.Args[0]), "APIClientAuthorization.UUID") && isRemote(c.Call.Args[1])
							}))
						r.Check(gA && gB, "C19-R1", fn, "append(tokens, token)", ap.Pos(),
							"incoming token passed through only under a documented condition", "the incoming (unsalted) token can be forwarded to the remote outside the documented pass-through conditions")
						return
					}
					if phi, isPhi := x.(*ssa.Phi); isPhi && depth == 0 {
						// several outcomes merged into one variable before the append: each is judged on its own paths
						for k, e := range phi.Edges {
							k := k
							if c, isC := e.(*ssa.Const); isC && c.Value != nil && c.Value.ExactString() == `""` {
								// the empty placeholder of an error outcome: must not reach the append
								if ReachSel(fn, in, EdgeSet{}, phi.Block(), k) {
									r.Bad("C19-R1", fn, "append(tokens, \"\")", ap.Pos(), "an empty token can be appended on an error path")
								}
								continue
							}
							checkElem(e, func(from ssa.Instruction, alts ...CP) bool { return GuardLeaf(fn, phi, k, in, alts...) },
								func(b *ssa.BasicBlock) bool {
									p := phi.Block().Preds[k]
									return b == p || b.Dominates(p)
								}, depth+1)
						}
						return
					}
					r.Bad("C19-R1", fn, "append(tokens, ?)", ap.Pos(), "token of unknown origin appended: "+Canon(x))
				}
				for _, x := range elems {
					checkElem(x, func(from ssa.Instruction, alts ...CP) bool { g, _ := Guard(fn, from, in, alts...); return g },
						func(b *ssa.BasicBlock) bool { return b.Dominates(in.Block()) }, 0)
				}
			}
			// every other error returns
			for _, ret := range Returns(fn) {
				ops := ReturnOperands(ret)
				for _, t := range ops[0] {
					if t == nil || IsNilConst(t) {
						continue
					}
					// returned slice must be the `tokens` accumulator (phi of appends / nil)
					okv := true
					for _, l := range PhiLeaves(t) {
						if l == nil || IsNilConst(l) {
							continue
						}
						c, isCall := l.(*ssa.Call)
						if !isCall || CalleeName(c.Common()) != "builtin.append" {
							okv = false
						}
					}
					r.Check(okv, "C19-R1", fn, "return tokens", ret.Pos(), "only the checked accumulator is returned", "the provider returns a token list that does not come from the checked appends (e.g. incoming.Tokens)")
				}
			}
		}
	} else if outer != nil {
		r.Und("C19-R1", outer, "closure", outer.Pos(), "expected one function literal")
	}

	// ---- R2
	r.Rule("C19-R2", "every rpc.NewConn: remote connections get saltedTokenProvider(local, id) with the connection's own id; PassthroughTokenProvider only for the local cluster's own API", 2)
	for _, fn := range w.ModuleFuncs() {
		for _, c := range CallsIn(fn, rpcP+".NewConn") {
			a := c.Common().Args
			tp := Resolve1(a[3])
			switch x := tp.(type) {
			case *ssa.Call:
				ok := CalleeName(x.Common()) == fed+".saltedTokenProvider" && SameCanon(x.Call.Args[1], a[0])
				r.Check(ok, "C19-R2", fn, "NewConn(id, …, saltedTokenProvider(local, id))", c.Pos(), "salting provider bound to the same cluster id", "remote connection created with a provider that is not saltedTokenProvider for the same id")
			case *ssa.Function:
				ok := fnName(x) == rpcP+".PassthroughTokenProvider" && strings.Contains(Canon(a[0]), "Cluster.ClusterID")
				r.Check(ok, "C19-R2", fn, "NewConn(ClusterID, …, PassthroughTokenProvider)", c.Pos(), "pass-through only to the local cluster's own API server", "pass-through token provider used for a connection that is not the local cluster")
			default:
				if strings.HasSuffix(w.Fset.Position(c.Pos()).Filename, "_test.go") {
					continue
				}
				r.Bad("C19-R2", fn, "NewConn(…, ?)", c.Pos(), "token provider of unknown origin")
			}
		}
	}

	// ---- R3
	r.Rule("C19-R3", "auth.SaltToken: a changed token is \"v2/\"+uuid+\"/\"+hex(HMAC-SHA1(key=secret,msg=remote)) only; the input is returned unchanged only when len(secret)==40 ∧ HasPrefix(uuid, remote)", 1)
	if fn := r.NeedFn("C19-R3", authP+".SaltToken"); fn != nil {
		tok, remote := paramOf(fn, "token"), paramOf(fn, "remote")
		n := 0
		for _, ret := range Returns(fn) {
			ops := ReturnOperands(ret)
			for _, v := range ops[0] {
				if v == nil {
					r.Bad("C19-R3", fn, "return", ret.Pos(), "unknown token value")
					continue
				}
				if s, ok := ConstString(v); ok && s == "" {
					continue
				}
				n++
				if same(v, tok) {
					g1, _ := Guard(fn, nil, ret, EqC("len(secret)==40", lenVP, ConstIntVP(40)))
					g2, _ := Guard(fn, nil, ret, TrueC("HasPrefix(uuid, remote)", func(x ssa.Value) bool {
						c, ok := Resolve1(x).(*ssa.Call)
						return ok && CalleeName(c.Common()) == "strings.HasPrefix" && same(c.Call.Args[1], remote)
					}))
					r.Check(g1 && g2, "C19-R3", fn, "return token (unchanged)", ret.Pos(), "only when already salted (40 hex) for this remote", "the unsalted input token can be returned as if salted")
					continue
				}
				parts := ConcatParts(v)
				ok := len(parts) == 4
				if ok {
					p0, _ := ConstString(parts[0])
					p2, _ := ConstString(parts[2])
					ok = p0 == "v2/" && p2 == "/"
				}
				var hi *HMACInfo
				if ok {
					hi, ok = HexHMACOf(parts[3])
				}
				if ok {
					// key = parts[2] of split token (secret), message = remote, uuid = parts[1]
					ok = hi.HashCtor == "crypto/sha1.New" && len(hi.Parts) == 1 && hi.Parts[0] == Canon(remote) &&
						strings.HasSuffix(Canon(hi.Key), "[2:int]") && strings.HasSuffix(Canon(parts[1]), "[1:int]") &&
						Canon(rootSplit(hi.Key)) == Canon(rootSplit(parts[1]))
				}
				r.Check(ok, "C19-R3", fn, "return \"v2/\"+uuid+\"/\"+hmac", ret.Pos(), "HMAC-SHA1 keyed by the secret over exactly the remote id", "salted token is not v2/<uuid>/hex(HMAC-SHA1(secret, remote))")
			}
		}
		if n < 2 {
			r.Bad("C19-R3", fn, "returns", fn.Pos(), "expected a salted and an already-salted return")
		}
	}

	// ---- R4 + R5
	r.Rule("C19-R4", "legacy saltAuthToken: Authorization = \"Bearer \"+(SaltToken result | raw token under obsolete/format ∧ (unknown | belongs to remote)); incoming Authorization not copied; query always re-parsed and api_token deleted", 1)
	r.Rule("C19-R5", "form-body token path is live: the Content-Type constant guarding LoadTokensFromHTTPRequestBody equals the constant its callee requires", 1)
	if fn := r.NeedFn("C19-R4", "(*"+ctl+".Handler).saltAuthToken"); fn != nil {
		remote := paramOf(fn, "remote")
		var setAuth ssa.CallInstruction
		for _, c := range CallsIn(fn, "(net/http.Header).Set") {
			if k, _ := ConstString(CallArgs(c.Common())[0]); k == "Authorization" {
				setAuth = c
			}
		}
		if setAuth == nil {
			r.Und("C19-R4", fn, "Header.Set(Authorization)", fn.Pos(), "not found")
		} else {
			val := CallArgs(setAuth.Common())[1]
			parts := ConcatParts(val)
			p0, _ := ConstString(parts[0])
			if len(parts) != 2 || p0 != "Bearer " {
				r.Bad("C19-R4", fn, "Authorization value", setAuth.Pos(), "not \"Bearer \"+token")
			} else {
				tokv := parts[1]
				salts := CallsIn(fn, authP+".SaltToken")
				var s1 ssa.CallInstruction
				for _, s := range salts {
					if strings.Contains(Canon(s.Common().Args[0]), "Credentials.Tokens") {
						s1 = s
					}
				}
				for _, leaf := range PhiLeaves(tokv) {
					if leaf == nil {
						r.Bad("C19-R4", fn, "token origin", setAuth.Pos(), "unknown")
						continue
					}
					preds := phiEdgePreds(Strip(tokv), leaf)
					ats := []ssa.Instruction{setAuth.(ssa.Instruction)}
					if len(preds) > 0 {
						ats = nil
						for _, p := range preds {
							ats = append(ats, lastInstr(p))
						}
					}
					if c, idx := ResultOf(leaf); c != nil && idx == 0 && CalleeName(c.Common()) == authP+".SaltToken" {
						ok := same(c.Call.Args[1], remote)
						// the Authorization write must be unreachable from this call when its error is non-nil
						g, _ := Guard(fn, c, setAuth.(ssa.Instruction), EqC("err==nil", ResultVP(c, 1), NilV),
							// or the value is overwritten on the obsolete/format arm before reaching the header
							errGlobalC(ResultVP(c, 1), authP+".ErrObsoleteToken"), errGlobalC(ResultVP(c, 1), authP+".ErrTokenFormat"))
						r.Check(ok && g, "C19-R4", fn, "token = SaltToken(…)", c.Pos(), "salted for this remote; error handled", "SaltToken result used with an unhandled error or for a different remote")
						continue
					}
					if strings.Contains(Canon(leaf), "Credentials.Tokens") && s1 != nil {
						err1 := ResultVP(s1.Value(), 1)
						for _, at := range ats {
							gA, _ := Guard(fn, s1.(ssa.Instruction), at, errGlobalC(err1, authP+".ErrObsoleteToken"), errGlobalC(err1, authP+".ErrTokenFormat"))
							gB, _ := Guard(fn, s1.(ssa.Instruction), at, FalseC("ok (token found locally)", func(v ssa.Value) bool {
								c, i := ResultOf(Resolve1(v))
								return c != nil && i == 1 && CalleeName(c.Common()) == "(*"+ctl+".Handler).validateAPItoken"
							}), TrueC("HasPrefix(currentUser.UUID, remote)", func(v ssa.Value) bool {
								c, ok := Resolve1(v).(*ssa.Call)
								return ok && CalleeName(c.Common()) == "strings.HasPrefix" && same(c.Call.Args[1], remote)
							}))
							r.Check(gA && gB, "C19-R4", fn, "token = raw incoming token", at.Pos(), "only for tokens not issued by this cluster, or belonging to the remote", "the user's raw token is forwarded outside the documented pass-through conditions")
						}
						continue
					}
					r.Bad("C19-R4", fn, "token origin", setAuth.Pos(), "Authorization built from "+Canon(leaf))
				}
			}
			// incoming Authorization header not copied
			nCopy := 0
			allInstrs(fn, func(in ssa.Instruction) {
				mu, ok := in.(*ssa.MapUpdate)
				if !ok || typeString(mu.Map.Type()) != "net/http.Header" {
					return
				}
				nCopy++
				g, _ := Guard(fn, nil, in, NeqC("k != \"Authorization\"", Is(mu.Key), ConstStrVP("Authorization")))
				r.Check(g, "C19-R4", fn, "copy header k", in.Pos(), "guarded by k != Authorization", "the incoming Authorization header (unsalted) is copied to the forwarded request")
			})
			// header map replaced (not shared with req.Header)
			fresh := false
			for _, st := range StoresToField(fn, "net/http.Request", "Header") {
				if _, ok := Resolve1(st.Val).(*ssa.MakeMap); ok && Before(st, setAuth.(ssa.Instruction)) && Precedes(st, setAuth) {
					fresh = true
				}
			}
			r.Check(fresh, "C19-R4", fn, "updatedReq.Header = http.Header{}", setAuth.Pos(), "forwarded request gets a fresh header map", "forwarded request shares the incoming header map (Authorization would be overwritten in place or leaked)")
			// query re-parse on every success path after the header is set
			pqs := CallsIn(fn, "net/url.ParseQuery")
			var pq []ssa.Instruction
			for _, c := range pqs {
				if strings.Contains(Canon(c.Common().Args[0]), "URL.RawQuery") {
					pq = append(pq, c.(ssa.Instruction))
				}
			}
			for _, ret := range Returns(fn) {
				if !MaybeSuccess(fn, ret) || !reachAvoiding(setAuth.(ssa.Instruction), ret, nil) {
					continue
				}
				ok := len(pq) > 0 && MustPassBetween(setAuth.(ssa.Instruction), ret, pq)
				r.Check(ok, "C19-R4", fn, "ParseQuery before return", ret.Pos(), "query is parsed (percent-decoded) on every success path", "a success return bypasses url.ParseQuery: an api_token query parameter (e.g. with an escaped name) is forwarded unsalted")
			}
			nDel := 0
			for _, c := range CallsMatching(fn, func(nm string, _ *ssa.CallCommon) bool { return nm == "builtin.delete" || nm == "(net/url.Values).Del" }) {
				fromQuery := false
				if pc, idx := ResultOf(Resolve1(c.Common().Args[0])); pc != nil && idx == 0 && CalleeName(pc.Common()) == "net/url.ParseQuery" {
					fromQuery = true
				}
				if k, _ := ConstString(c.Common().Args[1]); k == "api_token" && fromQuery {
					nDel++
					// only conditional on presence
					g, _ := Guard(fn, nil, c.(ssa.Instruction), TrueC("_, ok := values[\"api_token\"]", func(v ssa.Value) bool {
						e, ok := Resolve1(v).(*ssa.Extract)
						if !ok {
							return false
						}
						l, ok := e.Tuple.(*ssa.Lookup)
						if !ok {
							return false
						}
						k, _ := ConstString(l.Index)
						return k == "api_token"
					}))
					r.Check(g, "C19-R4", fn, "delete(values, \"api_token\")", c.Pos(), "deleted whenever present", "api_token deletion not tied to its presence in the parsed query")
				}
			}
			r.Check(nDel > 0, "C19-R4", fn, "delete api_token", fn.Pos(), "present", "api_token is no longer removed from the forwarded query")
		}
		// R5
		callee := w.Fn("(*" + authP + ".Credentials).LoadTokensFromHTTPRequestBody")
		for _, c := range CallsIn(fn, "(*"+authP+".Credentials).LoadTokensFromHTTPRequestBody") {
			var need []string
			if callee != nil {
				need = contentTypeConsts(callee)
			}
			have := []string{}
			// constants compared with Header.Get("Content-Type") on dominating branches
			for _, b := range fn.Blocks {
				iff, ok := lastInstr(b).(*ssa.If)
				if !ok {
					continue
				}
				if k, ok := contentTypeCompare(iff.Cond); ok {
					// does this If guard the call (true side)?
					cut := EdgeSet{E(b, 0): true}
					if !ReachFromEntry(fn, c.(ssa.Instruction), cut) {
						have = append(have, k)
					}
				}
			}
			ok := callee != nil && len(need) == 1
			if ok {
				for _, h := range have {
					if h != need[0] {
						ok = false
					}
				}
			}
			r.Check(ok, "C19-R5", fn, "Content-Type guard of LoadTokensFromHTTPRequestBody", c.Pos(),
				"guard constant equals the callee's "+strings.Join(need, ","),
				"caller requires Content-Type "+strings.Join(have, ",")+" but the callee only acts on "+strings.Join(need, ",")+": token extraction/stripping from form bodies is dead code, so a form-body api_token is forwarded unsalted")
		}
	}

	// ---- R6
	r.Rule("C19-R6", "keepstore remoteProxy.remoteClient: the client returned carries ApiToken = SaltToken(token, remoteID) (err nil) — the last store before the return", 1)
	if fn := r.NeedFn("C19-R6", "(*"+ks+".remoteProxy).remoteClient"); fn != nil {
		const acT = "sdk/go/arvadosclient.ArvadosClient"
		stores := StoresToField(fn, acT, "ApiToken")
		var last *ssa.Store
		for _, s := range stores {
			isLast := true
			for _, o := range stores {
				if o != s && !Before(o, s) {
					isLast = false
				}
			}
			if isLast {
				last = s
			}
		}
		for _, ret := range Returns(fn) {
			ops := ReturnOperands(ret)
			nonnil := false
			for _, v := range ops[0] {
				if v == nil || !IsNilConst(v) {
					nonnil = true
				}
			}
			if !nonnil {
				continue
			}
			ok := last != nil && Precedes(last, ret)
			if ok {
				c, idx := ResultOf(Resolve1(last.Val))
				ok = c != nil && idx == 0 && CalleeName(c.Common()) == authP+".SaltToken" && same(c.Call.Args[1], paramOf(fn, "remoteID")) && tokenParamOrigin(c.Call.Args[0], fn)
				if ok {
					g, _ := Guard(fn, c, ret, EqC("err==nil", ResultVP(c, 1), NilV))
					ok = g
				}
			}
			r.Check(ok, "C19-R6", fn, "return &kccopy", ret.Pos(), "last ApiToken store is the salted token (err nil)", "the remote Keep client is returned with a token that is not SaltToken(token, remoteID)")
		}
	}

	// ---- R7
	r.Rule("C19-R7", "rpc.Conn.requestAndDecode: Authorization and reader_tokens come only from conn.tokenProvider(ctx); within lib/controller/rpc only PassthroughTokenProvider reads the incoming credentials", 2)
	if fn := r.NeedFn("C19-R7", "(*"+rpcP+".Conn).requestAndDecode"); fn != nil {
		var tp *ssa.Call
		allInstrs(fn, func(in ssa.Instruction) {
			if c, ok := in.(*ssa.Call); ok && !c.Common().IsInvoke() {
				if _, f, _, ok := LoadedField(c.Call.Value); ok && f == "tokenProvider" {
					tp = c
				}
			}
		})
		if tp == nil {
			r.Und("C19-R7", fn, "conn.tokenProvider(ctx)", fn.Pos(), "call not found")
		} else {
			fromTP := func(v ssa.Value) bool {
				// tokens[i] or tokens[1:]
				v = Resolve1(v)
				if u, ok := v.(*ssa.UnOp); ok {
					if ia, ok := u.X.(*ssa.IndexAddr); ok {
						return IsResultOfCall(Resolve1(ia.X), tp, 0)
					}
				}
				if s, ok := v.(*ssa.Slice); ok {
					return IsResultOfCall(Resolve1(s.X), tp, 0)
				}
				return false
			}
			for _, c := range CallsIn(fn, "sdk/go/arvados.ContextWithAuthorization") {
				parts := ConcatParts(c.Common().Args[1])
				p0, _ := ConstString(parts[0])
				ok := false
				if len(parts) == 1 {
					ok = strings.HasPrefix(p0, "Bearer ") && len(p0) < 10
				} else if len(parts) == 2 && p0 == "Bearer " {
					ok = fromTP(parts[1])
				}
				r.Check(ok, "C19-R7", fn, "ContextWithAuthorization", c.Pos(), "\"Bearer \"+tokenProvider result (or the constant placeholder)", "Authorization built from something other than the token provider's result")
			}
			allInstrs(fn, func(in ssa.Instruction) {
				if mu, ok := in.(*ssa.MapUpdate); ok {
					if k, _ := ConstString(mu.Key); k == "reader_tokens" {
						r.Check(fromTP(Strip(mu.Value)), "C19-R7", fn, "params[reader_tokens]", in.Pos(), "tokens[1:] of the provider's result", "reader_tokens not from the token provider")
					}
				}
			})
		}
	}
	for _, fn := range w.FuncsIn(rpcP) {
		for _, c := range CallsIn(fn, authP+".FromContext") {
			r.Check(fnShort(rootFn(fn)) == rpcP+".PassthroughTokenProvider", "C19-R7", fn, "auth.FromContext", c.Pos(), "only the pass-through provider reads incoming credentials", "rpc code reads the incoming (unsalted) credentials outside PassthroughTokenProvider")
		}
	}
}

// rootSplit: for parts[i] (load of IndexAddr on a strings.Split result) returns the Split call value.
func rootSplit(v ssa.Value) ssa.Value {
	v = Resolve1(v)
	if c, ok := v.(*ssa.Convert); ok {
		v = Resolve1(c.X)
	}
	if u, ok := v.(*ssa.UnOp); ok {
		if ia, ok := u.X.(*ssa.IndexAddr); ok {
			return Resolve1(ia.X)
		}
	}
	return v
}

func tokenParamOrigin(v ssa.Value, fn *ssa.Function) bool {
	for _, l := range PhiLeaves(v) {
		if l == nil || !same(l, paramOf(fn, "token")) {
			return false
		}
	}
	return true
}

// contentTypeCompare: cond is Header.Get("Content-Type") ==/!= const → const.
func contentTypeCompare(c ssa.Value) (string, bool) {
	c, _ = stripNot(c)
	bo, ok := c.(*ssa.BinOp)
	if !ok {
		return "", false
	}
	isCT := func(v ssa.Value) bool {
		call, ok := Resolve1(v).(*ssa.Call)
		if !ok || CalleeName(call.Common()) != "(net/http.Header).Get" {
			return false
		}
		k, _ := ConstString(CallArgs(call.Common())[0])
		return k == "Content-Type"
	}
	if isCT(bo.X) {
		return ConstString(bo.Y)
	}
	if isCT(bo.Y) {
		return ConstString(bo.X)
	}
	return "", false
}

func contentTypeConsts(fn *ssa.Function) []string {
	var out []string
	for _, b := range fn.Blocks {
		if iff, ok := lastInstr(b).(*ssa.If); ok {
			if k, ok := contentTypeCompare(iff.Cond); ok {
				out = append(out, k)
			}
		}
	}
	return out
}
