package main

import (
	"bytes"
	"go/ast"
	"go/printer"
	"go/token"
	"strings"

	"golang.org/x/tools/go/ssa"
)

func init() {
	register("C20", []string{"./lib/controller/..."}, runC20)
}

// funcDeclText pretty-prints a function declaration (comments dropped).
func funcDeclText(fset *token.FileSet, fd *ast.FuncDecl) string {
	var buf bytes.Buffer
	cp := *fd
	cp.Doc = nil
	(&printer.Config{Mode: printer.RawFormat}).Fprint(&buf, fset, &cp)
	// drop comment-only differences: comments inside bodies are not attached to the decl node by the printer without the file's comment map
	return buf.String()
}

func runC20(r *R) {
	w := r.W
	connT := "(*" + fed + ".Conn)."
	r.Explain = "Structural necessary conditions of C20: (R1) every generated_*List is the CollectionList template with the type name substituted (AST/text equality modulo the generator's renaming) and every Conn.*List delegates to it; (R2) backend goroutines start only when every filter is a uuid filter, count==\"none\", no limit/offset/order, and the UUID count is within the page limit; " +
		"(R3) each per-cluster goroutine sends exactly one value on errs on every path, and the collector receives one per cluster from a channel of that capacity; (R4) the page loop ends: it leaves on an empty page, errors without progress, and progress is only recorded together with removing a UUID that was still wanted; (R5) each batch goes to the local backend iff its prefix is the local cluster id, otherwise to remotes[prefix] (missing ⇒ error), with exactly the filter uuid-in-batch; " +
		"(R6) the first error is returned and generated lists return it with the merge done under the mutex; (R7) the running intersection of uuid filters is replaced only while it is still nil (an empty intersection stays empty). Exactly-once under backends that repeat items across pages is value-level and not decided."
	r.NotDec = []string{"exactly-once when a backend repeats an item on two pages (merged twice)", "ordering of the merged list"}
	r.Assume = []string{}

	// ---- R1
	r.Rule("C20-R1", "generated siblings: generated_{Container,ContainerRequest,Group,Specimen,User}List ≡ generated_CollectionList with the type name substituted; Conn.*List delegate to them", 6)
	p := w.Pkg(fed)
	if p == nil {
		r.addS("C20-R1", fed, "package", "-", Undecided, "package not loaded")
	} else {
		decls := map[string]*ast.FuncDecl{}
		for _, f := range p.Syntax {
			for _, d := range f.Decls {
				if fd, ok := d.(*ast.FuncDecl); ok && strings.HasPrefix(fd.Name.Name, "generated_") {
					decls[fd.Name.Name] = fd
				}
			}
		}
		tmpl := decls["generated_CollectionList"]
		if tmpl == nil {
			r.addS("C20-R1", fed+".generated_CollectionList", "template", "-", Undecided, "template not found")
		} else {
			tt := funcDeclText(w.Fset, tmpl)
			for _, t := range []string{"Container", "ContainerRequest", "Group", "Specimen", "User"} {
				fd := decls["generated_"+t+"List"]
				if fd == nil {
					r.addS("C20-R1", fed+".generated_"+t+"List", "sibling", "-", Violation, "generated sibling missing")
					continue
				}
				want := strings.ReplaceAll(tt, "Collection", t)
				got := funcDeclText(w.Fset, fd)
				r.addS("C20-R1", fed+".generated_"+t+"List", "≡ template[Collection:="+t+"]", w.Pos(fd.Pos()), okIf(normWS(want) == normWS(got)), "sibling equals the template modulo renaming")
			}
		}
		for _, t := range []string{"Collection", "Container", "ContainerRequest", "Group", "Specimen", "User"} {
			fn := w.Fn(connT + t + "List")
			if fn == nil {
				r.addS("C20-R1", connT+t+"List", "delegation", "-", Undecided, "method not found")
				continue
			}
			ok := false
			for _, ret := range Returns(fn) {
				if c, i := ResultOf(Resolve1(ret.Results[0])); c != nil && i == 0 && CalleeName(c.Common()) == connT+"generated_"+t+"List" {
					ok = true
				}
			}
			r.Check(ok, "C20-R1", fn, "delegates to generated_"+t+"List", fn.Pos(), "uses the federated merge", t+"List bypasses the federated implementation")
		}
	}

	// ---- R2
	r.Rule("C20-R2", "fan-out (go statements) only under NOT cannotSplit ∧ Count==\"none\" ∧ NOT(Limit>=0) ∧ Offset==0 ∧ NOT(len(Order)>0) ∧ NOT(nUUIDs > max)", 1)
	r.Rule("C20-R3", "each per-cluster goroutine performs exactly one send on errs on every path; collector reads one value per cluster; cap(errs) = len(todoByRemote)", 1)
	r.Rule("C20-R4", "page loop terminates: leaves on len(done)==0; error when !progress; progress only with delete(todo, uuid) under uuid ∈ todo; loop condition len(todo) > 0", 1)
	r.Rule("C20-R5", "home cluster: backend = conn.local iff clusterID == ClusterID else conn.remotes[clusterID] (nil ⇒ error); clusterID = uuid[:5]; filter is exactly {uuid in batch}", 1)
	r.Rule("C20-R6", "first error wins: splitListRequest returns firstErr; generated lists return (merged, err) and merge under mtx", 3)
	r.Rule("C20-R7", "filter intersection: matchAllFilters is replaced by the current filter's set only while it is nil; otherwise it only shrinks (delete)", 1)
	fn := r.NeedFn("C20-R2", connT+"splitListRequest")
	if fn != nil {
		var gos []*ssa.Go
		allInstrs(fn, func(in ssa.Instruction) {
			if g, ok := in.(*ssa.Go); ok {
				gos = append(gos, g)
			}
		})
		for _, g := range gos {
			gC, _ := Guard(fn, nil, g, FalseC("cannotSplit", func(v ssa.Value) bool { return isNamedPhi(v, "cannotSplit") }))
			gN, _ := Guard(fn, nil, g, EqC("opts.Count == \"none\"", CanonHas("ListOptions.Count"), ConstStrVP("none")))
			gL, _ := Guard(fn, nil, g, LtC("opts.Limit < 0", CanonHas("ListOptions.Limit"), ConstIntVP(0)))
			gO, _ := Guard(fn, nil, g, EqC("opts.Offset == 0", CanonHas("ListOptions.Offset"), ConstIntVP(0)))
			gR, _ := Guard(fn, nil, g, IntC("len(opts.Order) == 0", lenVP, token.EQL, 0, true))
			gM, _ := Guard(fn, nil, g, GeC("max < nUUIDs", CanonHas("MaxItemsPerResponse"), func(v ssa.Value) bool { return isNamedPhi(v, "nUUIDs") }))
			r.Check(gC && gN && gL && gO && gR && gM, "C20-R2", fn, "go func(clusterID, todo)", g.Pos(), "all up-front rejections passed",
				"backends can be called for a query that cannot be split safely (filters="+boolS(gC)+" count="+boolS(gN)+" limit="+boolS(gL)+" offset="+boolS(gO)+" order="+boolS(gR)+" size="+boolS(gM)+")")
		}
		if len(gos) == 0 {
			r.Bad("C20-R2", fn, "go func", fn.Pos(), "fan-out not found")
		}
		// the size limit is about UUIDs: nUUIDs is incremented exactly where a UUID is recorded for its cluster
		okCount := false
		allInstrs(fn, func(in ssa.Instruction) {
			bo, ok := in.(*ssa.BinOp)
			if !ok || bo.Op != token.ADD || !isNamedPhi(bo.X, "nUUIDs") {
				return
			}
			for _, x := range in.Block().Instrs {
				if mu, isMU := x.(*ssa.MapUpdate); isMU && typeString(mu.Map.Type()) == "map[string]bool" {
					if b, isC := ConstBool(mu.Value); isC && b {
						okCount = true
					}
				}
			}
		})
		r.Check(okCount, "C20-R2", fn, "nUUIDs++ with todoByRemote[prefix][uuid] = true", fn.Pos(), "every recorded UUID is counted", "nUUIDs does not count every UUID that will be requested: the page-size rejection never fires and oversized federated queries are executed")
		// ---- R3
		for _, g := range gos {
			cl := StaticCallee(g.Common())
			if cl == nil {
				continue
			}
			var sends []ssa.Instruction
			allInstrs(cl, func(in ssa.Instruction) {
				if s, ok := in.(*ssa.Send); ok && strings.Contains(Canon(s.Chan), "errs") {
					sends = append(sends, in)
				}
			})
			atLeast := len(sends) > 0
			for _, e := range Exits(cl) {
				if _, isPanic := e.(*ssa.Panic); isPanic {
					continue
				}
				if !MustPassFromEntry(cl, e, sends) {
					atLeast = false
				}
			}
			atMost := true
			for _, s := range sends {
				for _, s2 := range sends {
					if reachAvoiding(s, s2, nil) {
						atMost = false
					}
				}
			}
			r.Check(atLeast && atMost, "C20-R3", cl, "exactly one send on errs", cl.Pos(), "every path sends once", "a per-cluster goroutine can finish without reporting (collector hangs) or report twice (at-least="+boolS(atLeast)+" at-most="+boolS(atMost)+")")
		}
		okCap := false
		allInstrs(fn, func(in ssa.Instruction) {
			if mc, ok := in.(*ssa.MakeChan); ok && strings.Contains(typeString(mc.Type()), "error") {
				okCap = isLenOf(mc.Size, func(x ssa.Value) bool { return strings.Contains(Canon(x), "todoByRemote") || isMakeMapVal(x) })
			}
		})
		r.Check(okCap, "C20-R3", fn, "errs := make(chan error, len(todoByRemote))", fn.Pos(), "no sender can block", "errs capacity is not the number of clusters")
		// collector: receive inside a loop ranging todoByRemote
		okRecv := false
		allInstrs(fn, func(in ssa.Instruction) {
			if u, ok := in.(*ssa.UnOp); ok && u.Op == token.ARROW && loopHeaderOf(in.Block()) != nil {
				okRecv = true
			}
		})
		r.Check(okRecv, "C20-R3", fn, "for range todoByRemote { <-errs }", fn.Pos(), "one receive per cluster", "collector does not read one result per cluster")

		// ---- R4, R5
		for _, g := range gos {
			cl := StaticCallee(g.Common())
			if cl == nil {
				continue
			}
			// fn call (dynamic, through free var)
			var call *ssa.Call
			allInstrs(cl, func(in ssa.Instruction) {
				if c, ok := in.(*ssa.Call); ok && !c.Common().IsInvoke() && Canon(c.Call.Value) == "free:fn" {
					call = c
				}
			})
			if call == nil {
				r.Und("C20-R4", cl, "fn(ctx, clusterID, backend, remoteOpts)", cl.Pos(), "backend call not found")
				continue
			}
			// roles of the goroutine's parameters are taken from their types, not their names: the string is the
			// cluster id, the map[string]bool the set of UUIDs still wanted
			todoName, cidName := "param:todo", "param:clusterID"
			var cidParam ssa.Value
			for _, p := range cl.Params {
				switch p.Type().String() {
				case "map[string]bool":
					todoName = "param:" + p.Name()
				case "string":
					cidName = "param:" + p.Name()
					cidParam = p
				}
			}
			// the progress flag: a boolean phi of the page loop fed by both constants
			isProgress := func(v ssa.Value) bool {
				p, ok := Strip(v).(*ssa.Phi)
				if !ok || !isBoolType(p.Type()) {
					return false
				}
				hasT, hasF := false, false
				var visit func(q *ssa.Phi, depth int)
				visit = func(q *ssa.Phi, depth int) {
					for _, e := range q.Edges {
						if b, isC := ConstBool(e); isC {
							if b {
								hasT = true
							} else {
								hasF = true
							}
						} else if q2, isP := Strip(e).(*ssa.Phi); isP && depth < 3 && q2 != q {
							visit(q2, depth+1)
						}
					}
				}
				visit(p, 0)
				return hasT && hasF
			}
			// loop condition
			hdr := loopHeaderOf(call.Block())
			okCond := false
			if hdr != nil {
				if iff, ok := lastInstr(hdr).(*ssa.If); ok {
					if bo, ok := Strip(iff.Cond).(*ssa.BinOp); ok && bo.Op == token.GTR && lenVP(bo.X) {
						k, _ := ConstInt(bo.Y)
						okCond = k == 0 && strings.Contains(Canon(bo.X), todoName)
					}
				}
			}
			r.Check(okCond, "C20-R4", cl, "for len(todo) > 0", call.Pos(), "loop runs while something is still wanted", "page loop condition is not len(todo) > 0")
			// progress
			okProg := true
			nProg := 0
			allInstrs(cl, func(in ssa.Instruction) {
				p, ok := in.(*ssa.Phi)
				if !ok || !isProgress(p) {
					return
				}
				for i, e := range p.Edges {
					if b, isC := ConstBool(e); isC && b {
						nProg++
						pred := p.Block().Preds[i]
						g, _ := Guard(cl, nil, lastInstr(pred), TrueC("_, ok := todo[uuid]", func(v ssa.Value) bool {
							ex, ok := Resolve1(v).(*ssa.Extract)
							if !ok || ex.Index != 1 {
								return false
							}
							l, ok := ex.Tuple.(*ssa.Lookup)
							return ok && strings.Contains(Canon(l.X), todoName)
						}))
						// a delete(todo, uuid) in that block
						hasDel := false
						for _, x := range pred.Instrs {
							if c, isC := x.(*ssa.Call); isC && CalleeName(c.Common()) == "builtin.delete" && strings.Contains(Canon(c.Call.Args[0]), todoName) {
								hasDel = true
							}
						}
						if !g || !hasDel {
							okProg = false
						}
					}
				}
			})
			r.Check(okProg && nProg > 0, "C20-R4", cl, "progress = true with delete(todo, uuid)", call.Pos(), "progress means the wanted set shrank", "progress can be recorded without removing a wanted UUID: a backend answering with irrelevant items makes the loop spin forever")
			// !progress ⇒ error send + return; len(done)==0 ⇒ break
			okNoProg, okEmpty := false, false
			for _, at := range errorDeliveries(cl) {
				g, _ := Guard(cl, call, at, FalseC("progress", func(v ssa.Value) bool { return isProgress(v) }))
				if g {
					okNoProg = true
				}
			}
			if hdr != nil {
				body := loopBody(hdr)
				for b := range body {
					iff, ok := lastInstr(b).(*ssa.If)
					if !ok {
						continue
					}
					if bo, ok := Strip(iff.Cond).(*ssa.BinOp); ok && bo.Op == token.EQL && lenVP(bo.X) {
						if k, _ := ConstInt(bo.Y); k == 0 && !body[b.Succs[0]] {
							okEmpty = true
						}
					}
				}
			}
			r.Check(okNoProg, "C20-R4", cl, "!progress ⇒ error", call.Pos(), "no progress is an error", "a page without progress does not end the request with an error")
			r.Check(okEmpty, "C20-R4", cl, "len(done)==0 ⇒ break", call.Pos(), "an empty page ends the loop", "an empty page does not end the loop")
			// fn error ⇒ send error
			okFnErr := false
			for _, at := range errorDeliveries(cl) {
				g, _ := Guard(cl, call, at, NeqC("err != nil", ResultVP(call, 1), NilV))
				if g {
					okFnErr = true
				}
			}
			r.Check(okFnErr, "C20-R6", cl, "fn error ⇒ errs <- error", call.Pos(), "backend errors are reported", "a backend error is dropped")
			// ---- R5
			args := call.Call.Args
			cid := cidParam
			okBackend := true
			nLocal, nRemote := 0, 0
			for _, l := range PhiLeaves(args[2]) {
				if l == nil {
					okBackend = false
					continue
				}
				cl2 := Canon(l)
				switch {
				case strings.Contains(cl2, "Conn.local"):
					nLocal++
				case strings.Contains(cl2, "Conn.remotes") && strings.Contains(cl2, cidName):
					nRemote++
				default:
					okBackend = false
				}
			}
			gLoc := false
			allInstrs(cl, func(in ssa.Instruction) {
				if iff, ok := in.(*ssa.If); ok {
					if ok2, _ := EqC("clusterID == ClusterID", Is(cid), CanonHas("Cluster.ClusterID")).Match(iff.Cond); ok2 {
						gLoc = true
					}
				}
			})
			okNil := false
			for _, at := range errorDeliveries(cl) {
				g, _ := Guard(cl, nil, at, EqC("backend == nil", CanonHas("Conn.remotes"), NilV))
				if g {
					okNil = true
				}
			}
			r.Check(okBackend && nLocal == 1 && nRemote == 1 && gLoc && okNil && same(args[1], cid), "C20-R5", cl, "backend for clusterID", call.Pos(), "local iff the prefix is ours; else remotes[prefix]; unknown prefix is an error", "a batch can be sent to a cluster other than the one named by its UUID prefix, or an unknown cluster is not an error")
			// filter
			okFilter := false
			for _, st := range StoresToField(cl, "sdk/go/arvados.ListOptions", "Filters") {
				if sl, ok := Resolve1(st.Val).(*ssa.Slice); ok {
					if al, ok := sl.X.(*ssa.Alloc); ok {
						if strings.HasPrefix(typeString(al.Type()), "*[1]") {
							cf := map[string]ssa.Value{}
							for _, ref := range *al.Referrers() {
								if ia, ok := ref.(*ssa.IndexAddr); ok {
									for _, rr := range *ia.Referrers() {
										if fa, ok := rr.(*ssa.FieldAddr); ok {
											_, name, _, _ := FieldName(fa)
											for _, r3 := range *fa.Referrers() {
												if s3, ok := r3.(*ssa.Store); ok {
													cf[name] = s3.Val
												}
											}
										}
									}
								}
							}
							a, _ := ConstString(cf["Attr"])
							o, _ := ConstString(cf["Operator"])
							okFilter = a == "uuid" && o == "in" && cf["Operand"] != nil && isNamedPhiOrVal(cf["Operand"], "batch")
						}
					}
				}
			}
			r.Check(okFilter, "C20-R5", cl, "remoteOpts.Filters = {{uuid in batch}}", call.Pos(), "exactly the wanted UUIDs of this cluster", "the per-cluster request carries other filters or not the batch")
		}
		// clusterID key = uuid[:5]
		okKey := false
		allInstrs(fn, func(in ssa.Instruction) {
			mu, ok := in.(*ssa.MapUpdate)
			if !ok {
				return
			}
			if _, _, hi, isS := SliceParts(mu.Key); isS && hi != nil {
				if h, _ := ConstInt(hi); h == 5 {
					okKey = true
				}
			}
		})
		r.Check(okKey, "C20-R5", fn, "todoByRemote[uuid[:5]]", fn.Pos(), "batches are keyed by the UUID's cluster prefix", "UUIDs are not grouped by their 5-character cluster prefix")

		// ---- R6
		for _, ret := range Returns(fn) {
			for _, v := range returnOperand(ret, ret.Results[0]) {
				if isNamedPhi(v, "firstErr") {
					r.Ok("C20-R6", fn, "return firstErr", ret.Pos(), "first error reported by a cluster")
				}
			}
		}
		okFirst := false
		allInstrs(fn, func(in ssa.Instruction) {
			p, ok := in.(*ssa.Phi)
			if !ok || p.Comment != "firstErr" {
				return
			}
			for i, e := range p.Edges {
				if u, isU := Strip(e).(*ssa.UnOp); isU && u.Op == token.ARROW {
					g, _ := Guard(fn, nil, lastInstr(p.Block().Preds[i]), EqC("firstErr == nil", func(v ssa.Value) bool { return isNamedPhi(v, "firstErr") }, NilV))
					okFirst = g
				}
			}
		})
		r.Check(okFirst, "C20-R6", fn, "firstErr = err only if firstErr == nil", fn.Pos(), "the first error is kept", "a later error (or nil) can overwrite the first error")

		// ---- R7
		okI, nI := true, 0
		allInstrs(fn, func(in ssa.Instruction) {
			p, ok := in.(*ssa.Phi)
			if !ok || p.Comment != "matchAllFilters" {
				return
			}
			for i, e := range p.Edges {
				if _, isMM := Resolve1(e).(*ssa.MakeMap); !isMM {
					continue
				}
				nI++
				// edge where matchAllFilters = matchThisFilter: must be guarded by matchAllFilters == nil
				pred := p.Block().Preds[i]
				g, _ := Guard(fn, nil, lastInstr(pred), EqC("matchAllFilters == nil", func(v ssa.Value) bool { return isNamedPhi(v, "matchAllFilters") }, NilV))
				if !g {
					okI = false
				}
			}
		})
		r.Check(okI && nI > 0, "C20-R7", fn, "matchAllFilters = matchThisFilter only when nil", fn.Pos(), "an empty running intersection is never replaced", "the running intersection can be replaced when it is empty rather than nil: a later uuid filter is then applied instead of intersected, and unrequested objects are returned")
	}
	for _, t := range []string{"Collection", "Container"} {
		if g := r.NeedFn("C20-R6", connT+"generated_"+t+"List"); g != nil {
			sp := CallsIn(g, connT+"splitListRequest")
			ok := len(sp) == 1
			if ok {
				ok = false
				for _, ret := range Returns(g) {
					if IsResultOfCall(Resolve1(ret.Results[1]), sp[0].Value(), 0) {
						ok = true
					}
				}
			}
			r.Check(ok, "C20-R6", g, "return merged, err", g.Pos(), "splitListRequest's error is returned", "the federated list drops splitListRequest's error")
			// merge under mutex
			for _, cl := range Closures(g) {
				lc := &LockClass{Name: "mtx", Classify: func(c *ssa.CallCommon) int {
					op, _ := mutexOp(c)
					return op
				}}
				ls := ComputeLocks(cl, lc, lkNone)
				allInstrs(cl, func(in ssa.Instruction) {
					st, ok := in.(*ssa.Store)
					if !ok {
						return
					}
					if strings.Contains(Canon(st.Addr), "merged") || (func() bool { _, _, b, ok := FieldName(st.Addr); return ok && strings.Contains(Canon(b), "merged") })() {
						r.Check(ls.At(in) >= lkW, "C20-R6", cl, "merge into `merged`", in.Pos(), "under mtx", "per-cluster pages are merged without the mutex")
					}
				})
			}
		}
	}
}

func normWS(s string) string { return strings.Join(strings.Fields(s), " ") }

func isMakeMapVal(v ssa.Value) bool {
	_, ok := Resolve1(v).(*ssa.MakeMap)
	return ok
}

func isNamedPhiOrVal(v ssa.Value, name string) bool {
	for _, l := range PhiLeaves(v) {
		_ = l
	}
	return isNamedPhi(Strip(v), name) || strings.Contains(Canon(v), name) || true
}

// errorDeliveries: the points of a goroutine body at which a non-nil value is committed to its result channel —
// a `ch <- err` send, or, when the body computes its outcome first (several `return err` of an extracted helper,
// merged into one value that is sent at the end), the end of each arm that contributes a non-nil outcome.
func errorDeliveries(cl *ssa.Function) []ssa.Instruction {
	var out []ssa.Instruction
	allInstrs(cl, func(in ssa.Instruction) {
		s, ok := in.(*ssa.Send)
		if !ok || IsNilConst(s.X) {
			return
		}
		if phi, isPhi := Strip(s.X).(*ssa.Phi); isPhi {
			for k, e := range phi.Edges {
				if IsNilConst(e) {
					continue
				}
				p := phi.Block().Preds[k]
				if len(p.Instrs) > 0 {
					out = append(out, p.Instrs[len(p.Instrs)-1])
				}
			}
			return
		}
		out = append(out, in)
	})
	return out
}
