package main

import (
	"go/token"
	"golang.org/x/tools/go/ssa"
)

// Edge is a CFG edge identified by source block and successor index.
type Edge struct {
	From *ssa.BasicBlock
	Succ int // index into From.Succs
}

type EdgeSet map[Edge]bool

func (e EdgeSet) Add(o EdgeSet) EdgeSet {
	for k := range o {
		e[k] = true
	}
	return e
}

func instrIndex(in ssa.Instruction) int {
	for i, x := range in.Block().Instrs {
		if x == in {
			return i
		}
	}
	return -1
}

// Before reports whether a precedes b on every path that executes b once a's
// block is known to dominate: same block & lower index, or a's block strictly
// dominates b's.
func Before(a, b ssa.Instruction) bool {
	if a.Block() == b.Block() {
		return instrIndex(a) < instrIndex(b)
	}
	return a.Block().Dominates(b.Block())
}

// ReachFromEntry reports whether target is reachable from fn's entry when the
// edges in cut are removed.
func ReachFromEntry(fn *ssa.Function, target ssa.Instruction, cut EdgeSet) bool {
	if len(fn.Blocks) == 0 {
		return false
	}
	return reachBlocks([]*ssa.BasicBlock{fn.Blocks[0]}, cut)[target.Block()]
}

// ReachFromInstr reports whether target is reachable from just after `from`
// with cut edges removed.
func ReachFromInstr(from, target ssa.Instruction, cut EdgeSet) bool {
	fb := from.Block()
	if fb == target.Block() && instrIndex(from) < instrIndex(target) {
		return true
	}
	var starts []*ssa.BasicBlock
	for i, s := range fb.Succs {
		if !cut[Edge{fb, i}] {
			starts = append(starts, s)
		}
	}
	return reachBlocks(starts, cut)[target.Block()]
}

func reachBlocks(starts []*ssa.BasicBlock, cut EdgeSet) map[*ssa.BasicBlock]bool {
	seen := map[*ssa.BasicBlock]bool{}
	var stack []*ssa.BasicBlock
	for _, s := range starts {
		if !seen[s] {
			seen[s] = true
			stack = append(stack, s)
		}
	}
	for len(stack) > 0 {
		b := stack[len(stack)-1]
		stack = stack[:len(stack)-1]
		for i, s := range b.Succs {
			if cut[Edge{b, i}] {
				continue
			}
			if !seen[s] {
				seen[s] = true
				stack = append(stack, s)
			}
		}
	}
	return seen
}

// ReachableBlocksFromInstr returns blocks reachable from just after `from`.
func ReachableBlocksFromInstr(from ssa.Instruction, cut EdgeSet) map[*ssa.BasicBlock]bool {
	fb := from.Block()
	var starts []*ssa.BasicBlock
	for i, s := range fb.Succs {
		if !cut[Edge{fb, i}] {
			starts = append(starts, s)
		}
	}
	return reachBlocks(starts, cut)
}

// MustPassBetween: every path from `from` to `to` contains (strictly between)
// one of the `through` instructions. Decided by removing the through
// instructions' blocks' outgoing continuation: we split reachability in two
// steps — to is unreachable from `from` when paths are stopped at any through
// instruction.
func MustPassBetween(from ssa.Instruction, to ssa.Instruction, through []ssa.Instruction) bool {
	thr := map[ssa.Instruction]bool{}
	for _, t := range through {
		thr[t] = true
	}
	return !reachAvoiding(from, to, thr)
}

// MustPassFromEntry: every path from the function entry to `to` contains one
// of `through` before it.
func MustPassFromEntry(fn *ssa.Function, to ssa.Instruction, through []ssa.Instruction) bool {
	thr := map[ssa.Instruction]bool{}
	for _, t := range through {
		thr[t] = true
	}
	if len(fn.Blocks) == 0 {
		return true
	}
	return !reachAvoidingFromBlockStart(fn.Blocks[0], to, thr)
}

// reachAvoiding: is `to` reachable from just after `from` without executing
// any instruction in avoid?
func reachAvoiding(from, to ssa.Instruction, avoid map[ssa.Instruction]bool) bool {
	fb := from.Block()
	idx := instrIndex(from)
	// scan rest of from's block
	for _, in := range fb.Instrs[idx+1:] {
		if in == to {
			return true
		}
		if avoid[in] {
			return false
		}
	}
	seen := map[*ssa.BasicBlock]bool{}
	var stack []*ssa.BasicBlock
	for _, s := range fb.Succs {
		if !seen[s] {
			seen[s] = true
			stack = append(stack, s)
		}
	}
	return scanAvoid(stack, seen, to, avoid)
}

func reachAvoidingFromBlockStart(b *ssa.BasicBlock, to ssa.Instruction, avoid map[ssa.Instruction]bool) bool {
	seen := map[*ssa.BasicBlock]bool{b: true}
	return scanAvoid([]*ssa.BasicBlock{b}, seen, to, avoid)
}

func scanAvoid(stack []*ssa.BasicBlock, seen map[*ssa.BasicBlock]bool, to ssa.Instruction, avoid map[ssa.Instruction]bool) bool {
	for len(stack) > 0 {
		b := stack[len(stack)-1]
		stack = stack[:len(stack)-1]
		blocked := false
		for _, in := range b.Instrs {
			if in == to {
				return true
			}
			if avoid[in] {
				blocked = true
				break
			}
		}
		if blocked {
			continue
		}
		for _, s := range b.Succs {
			if !seen[s] {
				seen[s] = true
				stack = append(stack, s)
			}
		}
	}
	return false
}

// ExitReachableAvoiding: can some exit instruction in `exits` be reached from
// just after `from` without executing an instruction in avoid?  Returns the
// first such exit.
func ExitReachableAvoiding(from ssa.Instruction, exits []ssa.Instruction, avoid map[ssa.Instruction]bool) ssa.Instruction {
	for _, e := range exits {
		if reachAvoiding(from, e, avoid) {
			return e
		}
	}
	return nil
}

// IfEdges returns the edges leaving `If` blocks of fn whose condition is
// accepted by match; match returns (ok, side) where side==true selects the
// true successor (Succs[0]).
func IfEdges(fn *ssa.Function, match func(c ssa.Value) (bool, bool)) (EdgeSet, []*ssa.If) {
	es := EdgeSet{}
	var ifs []*ssa.If
	for _, b := range fn.Blocks {
		if len(b.Instrs) == 0 {
			continue
		}
		iff, ok := b.Instrs[len(b.Instrs)-1].(*ssa.If)
		if !ok {
			continue
		}
		ok, side := match(iff.Cond)
		if !ok {
			continue
		}
		if side {
			es[Edge{b, 0}] = true
		} else {
			es[Edge{b, 1}] = true
		}
		ifs = append(ifs, iff)
	}
	return es, ifs
}

// allInstrs iterates all instructions of fn.
func allInstrs(fn *ssa.Function, f func(ssa.Instruction)) {
	for _, b := range fn.Blocks {
		for _, in := range b.Instrs {
			f(in)
		}
	}
}

// Returns lists the Return instructions of fn.
func Returns(fn *ssa.Function) []*ssa.Return {
	var out []*ssa.Return
	allInstrs(fn, func(in ssa.Instruction) {
		if r, ok := in.(*ssa.Return); ok {
			// skip the recover block's return
			if fn.Recover != nil && in.Block() == fn.Recover {
				return
			}
			out = append(out, r)
		}
	})
	return out
}

// Exits lists Return and Panic instructions.
func Exits(fn *ssa.Function) []ssa.Instruction {
	var out []ssa.Instruction
	allInstrs(fn, func(in ssa.Instruction) {
		switch in.(type) {
		case *ssa.Return, *ssa.Panic:
			if fn.Recover != nil && in.Block() == fn.Recover {
				return
			}
			out = append(out, in)
		}
	})
	return out
}

// Reach decides whether target is reachable from just after `from` (or from
// the function entry when from is nil) without taking a cut edge and without
// executing an instruction in avoid.
func Reach(fn *ssa.Function, from ssa.Instruction, target ssa.Instruction, cut EdgeSet, avoid map[ssa.Instruction]bool) bool {
	seen := map[*ssa.BasicBlock]bool{}
	var stack []*ssa.BasicBlock
	push := func(b *ssa.BasicBlock) {
		if !seen[b] {
			seen[b] = true
			stack = append(stack, b)
		}
	}
	if from == nil {
		if len(fn.Blocks) == 0 {
			return false
		}
		push(fn.Blocks[0])
	} else {
		fb := from.Block()
		blocked := false
		for _, in := range fb.Instrs[instrIndex(from)+1:] {
			if in == target {
				return true
			}
			if avoid[in] {
				blocked = true
				break
			}
		}
		if !blocked {
			for i, s := range fb.Succs {
				if !cut[Edge{fb, i}] {
					push(s)
				}
			}
		}
	}
	for len(stack) > 0 {
		b := stack[len(stack)-1]
		stack = stack[:len(stack)-1]
		blocked := false
		for _, in := range b.Instrs {
			if in == target {
				return true
			}
			if avoid[in] {
				blocked = true
				break
			}
		}
		if blocked {
			continue
		}
		for i, s := range b.Succs {
			if !cut[Edge{b, i}] {
				push(s)
			}
		}
	}
	return false
}

// GuardOrPass: every path from `from`/entry to target takes an edge
// establishing one of alts, or executes one of the `through` instructions.
func GuardOrPass(fn *ssa.Function, from ssa.Instruction, target ssa.Instruction, through []ssa.Instruction, alts ...CP) bool {
	cut := EdgeSet{}
	for _, a := range alts {
		es, _ := IfEdges(fn, a.Match)
		cut.Add(es)
	}
	avoid := map[ssa.Instruction]bool{}
	for _, t := range through {
		avoid[t] = true
	}
	return !Reach(fn, from, target, cut, avoid)
}

// immutableCanon: canonical form mentions only parameters / never-written free variables / constants.
func immutableCond(c ssa.Value) bool {
	ok := true
	var rec func(v ssa.Value)
	rec = func(v ssa.Value) {
		v = Strip(v)
		switch x := v.(type) {
		case *ssa.Const, *ssa.Parameter:
		case *ssa.UnOp:
			if fv, isFV := x.X.(*ssa.FreeVar); isFV && x.Op == token.MUL {
				if freeVarWritten(fv.Parent(), fv) {
					ok = false
				}
				return
			}
			if x.Op == token.NOT {
				rec(x.X)
				return
			}
			ok = false
		case *ssa.BinOp:
			rec(x.X)
			rec(x.Y)
		default:
			ok = false
		}
	}
	rec(c)
	return ok
}

// CorrelatedCut: for an instruction governed (dominated, one side) by branches
// on immutable conditions, returns the edges that contradict those conditions
// at every other branch on the same (canonically equal) condition.
func CorrelatedCut(fn *ssa.Function, at ssa.Instruction) EdgeSet {
	cut := EdgeSet{}
	type fact struct {
		canon string
		side  int
	}
	var facts []fact
	for _, b := range fn.Blocks {
		iff, ok := lastInstr(b).(*ssa.If)
		if !ok || !immutableCond(iff.Cond) {
			continue
		}
		for side := 0; side < 2; side++ {
			// does edge (b,side) dominate `at`? i.e. at unreachable from entry without it, and reachable with it
			only := EdgeSet{Edge{b, side}: true}
			if !ReachFromEntry(fn, at, only) && at.Block() != b {
				facts = append(facts, fact{Canon(iff.Cond), side})
			}
		}
	}
	for _, f := range facts {
		for _, b := range fn.Blocks {
			iff, ok := lastInstr(b).(*ssa.If)
			if !ok || Canon(iff.Cond) != f.canon {
				continue
			}
			cut[Edge{b, 1 - f.side}] = true
		}
	}
	return cut
}
