package main

import (
	"go/constant"
	"go/token"
	"sync"

	"golang.org/x/tools/go/ssa"
)

// Edge is a CFG edge identified by source block and successor index. For a
// block whose branch condition is a phi of that same block (the value form of
// && / ||, "binop.done"), Pred selects the arrival edge the cut applies to
// (-1 = any arrival).
type Edge struct {
	From *ssa.BasicBlock
	Succ int // index into From.Succs
	Pred int // index into From.Preds, or -1
}

func E(b *ssa.BasicBlock, succ int) Edge { return Edge{b, succ, -1} }

type EdgeSet map[Edge]bool

func (e EdgeSet) Add(o EdgeSet) EdgeSet {
	for k := range o {
		e[k] = true
	}
	return e
}

func instrIndex(in ssa.Instruction) int {
	for i, x := range in.Block().Instrs {
		if x == in {
			return i
		}
	}
	return -1
}

// Before reports whether a precedes b: same block & lower index, or a's block
// strictly dominates b's.
func Before(a, b ssa.Instruction) bool {
	if a.Block() == b.Block() {
		return instrIndex(a) < instrIndex(b)
	}
	if a.Block().Dominates(b.Block()) {
		return true
	}
	// not a syntactic dominator, but possibly on every feasible path (continuation of an inlined helper)
	return a.Parent() == b.Parent() && a.Parent() != nil && MustPassFromEntry(a.Parent(), b, []ssa.Instruction{a})
}

// phiIf: b ends in `if p` where p is a phi defined in b (short-circuit value form).
func phiIf(b *ssa.BasicBlock) *ssa.Phi {
	if len(b.Instrs) == 0 {
		return nil
	}
	iff, ok := b.Instrs[len(b.Instrs)-1].(*ssa.If)
	if !ok {
		return nil
	}
	c := iff.Cond
	for {
		u, ok := c.(*ssa.UnOp)
		if !ok || u.Op != token.NOT {
			break
		}
		c = u.X
	}
	p, ok := c.(*ssa.Phi)
	if !ok || p.Block() != b {
		return nil
	}
	return p
}

// phiCmp: b ends in `if [!]*(p == c)` / `(p != c)` where p is a phi defined in b and c a constant (the usual
// `if err != nil` right after a merge of several outcomes — e.g. the result phis of an inlined helper). Per
// arrival edge the comparison is about that edge's value: it may be decided (constant operands, a definitely
// non-nil error) and it can be matched by condition patterns as if it had been written on that path.
type phiCmpInfo struct {
	phi  *ssa.Phi
	bo   *ssa.BinOp
	flip bool
	phiX bool
}

func phiCmp(b *ssa.BasicBlock) *phiCmpInfo {
	if len(b.Instrs) == 0 {
		return nil
	}
	iff, ok := b.Instrs[len(b.Instrs)-1].(*ssa.If)
	if !ok {
		return nil
	}
	c := iff.Cond
	flip := false
	for {
		u, ok := c.(*ssa.UnOp)
		if !ok || u.Op != token.NOT {
			break
		}
		c = u.X
		flip = !flip
	}
	bo, ok := c.(*ssa.BinOp)
	if !ok || (bo.Op != token.EQL && bo.Op != token.NEQ) {
		return nil
	}
	if p, ok := bo.X.(*ssa.Phi); ok && p.Block() == b {
		if _, isC := bo.Y.(*ssa.Const); isC {
			return &phiCmpInfo{p, bo, flip, true}
		}
	}
	if p, ok := bo.Y.(*ssa.Phi); ok && p.Block() == b {
		if _, isC := bo.X.(*ssa.Const); isC {
			return &phiCmpInfo{p, bo, flip, false}
		}
	}
	return nil
}

var virtualConds sync.Map // key {bo,k} → *ssa.BinOp

// condFor: the comparison as it reads on arrival edge k (a detached BinOp over that edge's value).
func (pc *phiCmpInfo) condFor(k int) *ssa.BinOp {
	type key struct {
		bo *ssa.BinOp
		k  int
	}
	if v, ok := virtualConds.Load(key{pc.bo, k}); ok {
		return v.(*ssa.BinOp)
	}
	nb := &ssa.BinOp{Op: pc.bo.Op, X: pc.bo.X, Y: pc.bo.Y}
	if pc.phiX {
		nb.X = pc.phi.Edges[k]
	} else {
		nb.Y = pc.phi.Edges[k]
	}
	setRegType(nb, pc.bo.Type())
	setInstrBlock(nb, pc.bo.Block())
	v, _ := virtualConds.LoadOrStore(key{pc.bo, k}, nb)
	return v.(*ssa.BinOp)
}

// decided: the truth of the If's condition on arrival edge k, when it follows from the edge value alone.
func (pc *phiCmpInfo) decided(k int) (val bool, known bool) {
	ev := pc.phi.Edges[k]
	other := pc.bo.Y
	if !pc.phiX {
		other = pc.bo.X
	}
	oc := other.(*ssa.Const)
	eq, known := false, false
	if ec, ok := ev.(*ssa.Const); ok {
		switch {
		case ec.Value == nil && oc.Value == nil:
			eq, known = true, true
		case ec.Value != nil && oc.Value != nil:
			eq, known = constant.Compare(ec.Value, token.EQL, oc.Value), true
		}
	} else if oc.Value == nil && definitelyNonNilErr(ev) {
		eq, known = false, true
	} else if oc.Value == nil && pc.edgeValueTestedNonNil(k) {
		eq, known = false, true
	}
	if !known {
		return false, false
	}
	v := eq
	if pc.bo.Op == token.NEQ {
		v = !v
	}
	if pc.flip {
		v = !v
	}
	return v, true
}

var nonNilCache sync.Map // key {bo,k} → bool (false while being computed)

// edgeValueTestedNonNil: every path to the end of the k-th predecessor passed the true side of a test
// `v != nil` of the very value the phi receives on that edge (`if err != nil { return "", err }` in an inlined helper).
func (pc *phiCmpInfo) edgeValueTestedNonNil(k int) bool {
	type key struct {
		bo *ssa.BinOp
		k  int
	}
	if v, ok := nonNilCache.Load(key{pc.bo, k}); ok {
		return v.(bool)
	}
	nonNilCache.Store(key{pc.bo, k}, false)
	b := pc.bo.Block()
	ev := pc.phi.Edges[k]
	p := b.Preds[k]
	res := false
	if len(p.Instrs) > 0 {
		g, _ := Guard(b.Parent(), nil, p.Instrs[len(p.Instrs)-1], NeqC("v != nil", Is(ev), NilV))
		res = g
	}
	nonNilCache.Store(key{pc.bo, k}, res)
	return res
}

// perArrival: the branch at the end of b is evaluated per arrival edge.
func perArrival(b *ssa.BasicBlock) bool { return phiIf(b) != nil || phiCmp(b) != nil }

// trackKey marks (inside an EdgeSet) a block whose last arrival edge the walk must remember (wnode.sel).
func trackKey(b *ssa.BasicBlock) Edge { return Edge{b, -2, -1} }

// phiIfOperand: for arrival via pred index k, the operand that decides the
// branch and whether the branch polarity is flipped by NOTs.
func phiIfOperand(b *ssa.BasicBlock, k int) (ssa.Value, bool) {
	iff := b.Instrs[len(b.Instrs)-1].(*ssa.If)
	flip := false
	c := iff.Cond
	for {
		u, ok := c.(*ssa.UnOp)
		if !ok || u.Op != token.NOT {
			break
		}
		c = u.X
		flip = !flip
	}
	return c.(*ssa.Phi).Edges[k], flip
}

// knownFromPredBranch: block b is entered through its k-th predecessor, whose terminator branches on the very
// value op (modulo negations): the truth of op on that edge.
func knownFromPredBranch(b *ssa.BasicBlock, k int, op ssa.Value) (bool, bool) {
	if k < 0 || k >= len(b.Preds) {
		return false, false
	}
	q := b.Preds[k]
	if len(q.Instrs) == 0 || len(q.Succs) != 2 || q.Succs[0] == q.Succs[1] {
		return false, false
	}
	iff, ok := q.Instrs[len(q.Instrs)-1].(*ssa.If)
	if !ok {
		return false, false
	}
	strip := func(v ssa.Value) (ssa.Value, bool) {
		neg := false
		for {
			u, ok := v.(*ssa.UnOp)
			if !ok || u.Op != token.NOT {
				return v, neg
			}
			v = u.X
			neg = !neg
		}
	}
	c, negC := strip(iff.Cond)
	o, negO := strip(op)
	if c != o {
		return false, false
	}
	// which successor of q is b for this predecessor slot
	si := -1
	for i, s := range q.Succs {
		if s == b && predIndex(q, b, i) == k {
			si = i
		}
	}
	if si < 0 {
		return false, false
	}
	condTrue := si == 0
	val := condTrue != negC // truth of c
	if negO {
		val = !val
	}
	return val, true
}

// wnode is a node of the walked graph: a block, plus the arrival edge when the block is a phi-if block.
type wnode struct {
	b    *ssa.BasicBlock
	pred int
	sel  int // arrival edge (index into Preds) at the last visit of a tracked block (trackKey), else -1
}

func predIndex(from, to *ssa.BasicBlock, succIdx int) int {
	// the succIdx-th successor of from is `to`; find the matching occurrence in to.Preds
	occ := 0
	for i := 0; i < succIdx; i++ {
		if from.Succs[i] == to {
			occ++
		}
	}
	for i, p := range to.Preds {
		if p == from {
			if occ == 0 {
				return i
			}
			occ--
		}
	}
	return -1
}

// succs lists the successors of node n that are not cut (and feasible for phi-if blocks).
func (n wnode) succs(cut EdgeSet) []wnode {
	var out []wnode
	b := n.b
	allowed := [2]bool{true, true}
	if p := phiIf(b); p != nil && n.pred >= 0 && n.pred < len(p.Edges) {
		op, flip := phiIfOperand(b, n.pred)
		if v, ok := ConstBool(op); ok {
			if flip {
				v = !v
			}
			allowed[0], allowed[1] = v, !v
		} else if v, ok := knownFromPredBranch(b, n.pred, op); ok {
			// `stale := a; if !stale { stale = b }; if stale {…}`: on the edge that skipped the assignment the merged
			// value is the very condition that was just branched on
			if flip {
				v = !v
			}
			allowed[0], allowed[1] = v, !v
		}
	} else if pc := phiCmp(b); pc != nil && n.pred >= 0 && n.pred < len(pc.phi.Edges) {
		if v, known := pc.decided(n.pred); known {
			allowed[0], allowed[1] = v, !v
		}
	}
	for i, s := range b.Succs {
		if len(b.Succs) == 2 && !allowed[i] {
			continue
		}
		if cut[Edge{b, i, -1}] || (n.pred >= 0 && cut[Edge{b, i, n.pred}]) {
			continue
		}
		np := -1
		if perArrival(s) {
			np = predIndex(b, s, i)
		}
		sel := n.sel
		if cut[trackKey(s)] {
			sel = predIndex(b, s, i)
		}
		out = append(out, wnode{s, np, sel})
	}
	return out
}

// walk explores from the start nodes; visit is called once per node and returns false to stop expanding it.
func walk(starts []wnode, cut EdgeSet, visit func(n wnode) bool) {
	seen := map[wnode]bool{}
	var stack []wnode
	push := func(n wnode) {
		if !seen[n] {
			seen[n] = true
			stack = append(stack, n)
		}
	}
	for _, s := range starts {
		push(s)
	}
	for len(stack) > 0 {
		n := stack[len(stack)-1]
		stack = stack[:len(stack)-1]
		if !visit(n) {
			continue
		}
		for _, s := range n.succs(cut) {
			push(s)
		}
	}
}

func entryNodes(b *ssa.BasicBlock) []wnode {
	if perArrival(b) && len(b.Preds) > 0 {
		var out []wnode
		for i := range b.Preds {
			out = append(out, wnode{b, i, -1})
		}
		return out
	}
	return []wnode{{b, -1, -1}}
}

// nodesAfter: start nodes for "just after instruction from" (successors of its block).
func nodesAfter(from ssa.Instruction, cut EdgeSet) []wnode {
	var out []wnode
	for _, n := range entryNodes(from.Block()) {
		out = append(out, n.succs(cut)...)
	}
	return out
}

// ReachFromEntry reports whether target is reachable from fn's entry when the
// edges in cut are removed.
func ReachFromEntry(fn *ssa.Function, target ssa.Instruction, cut EdgeSet) bool {
	return Reach(fn, nil, target, cut, nil)
}

// ReachFromInstr reports whether target is reachable from just after `from`
// with cut edges removed.
func ReachFromInstr(from, target ssa.Instruction, cut EdgeSet) bool {
	return Reach(from.Parent(), from, target, cut, nil)
}

func reachBlocks(starts []*ssa.BasicBlock, cut EdgeSet) map[*ssa.BasicBlock]bool {
	seen := map[*ssa.BasicBlock]bool{}
	var ns []wnode
	for _, s := range starts {
		ns = append(ns, entryNodes(s)...)
	}
	walk(ns, cut, func(n wnode) bool {
		seen[n.b] = true
		return true
	})
	return seen
}

// ReachableBlocksFromInstr returns blocks reachable from just after `from`.
func ReachableBlocksFromInstr(from ssa.Instruction, cut EdgeSet) map[*ssa.BasicBlock]bool {
	seen := map[*ssa.BasicBlock]bool{}
	walk(nodesAfter(from, cut), cut, func(n wnode) bool {
		seen[n.b] = true
		return true
	})
	return seen
}

// MustPassBetween: every path from `from` to `to` contains (strictly between)
// one of the `through` instructions.
func MustPassBetween(from ssa.Instruction, to ssa.Instruction, through []ssa.Instruction) bool {
	thr := map[ssa.Instruction]bool{}
	for _, t := range through {
		thr[t] = true
	}
	return !Reach(from.Parent(), from, to, nil, thr)
}

// MustPassFromEntry: every path from the function entry to `to` contains one
// of `through` before it.
func MustPassFromEntry(fn *ssa.Function, to ssa.Instruction, through []ssa.Instruction) bool {
	thr := map[ssa.Instruction]bool{}
	for _, t := range through {
		thr[t] = true
	}
	return !Reach(fn, nil, to, nil, thr)
}

// reachAvoiding: is `to` reachable from just after `from` without executing
// any instruction in avoid?
func reachAvoiding(from, to ssa.Instruction, avoid map[ssa.Instruction]bool) bool {
	return Reach(from.Parent(), from, to, nil, avoid)
}

func reachAvoidingFromBlockStart(b *ssa.BasicBlock, to ssa.Instruction, avoid map[ssa.Instruction]bool) bool {
	found := false
	walk(entryNodes(b), nil, func(n wnode) bool {
		if found {
			return false
		}
		for _, in := range n.b.Instrs {
			if in == to {
				found = true
				return false
			}
			if avoid[in] {
				return false
			}
		}
		return true
	})
	return found
}

// ExitReachableAvoiding: can some exit instruction in `exits` be reached from
// just after `from` without executing an instruction in avoid?  Returns the
// first such exit.
func ExitReachableAvoiding(from ssa.Instruction, exits []ssa.Instruction, avoid map[ssa.Instruction]bool) ssa.Instruction {
	for _, e := range exits {
		if reachAvoiding(from, e, avoid) {
			return e
		}
	}
	return nil
}

// IfEdges returns the edges leaving `If` blocks of fn whose condition is
// accepted by match; match returns (ok, side) where side==true selects the
// true successor (Succs[0]). For phi-if blocks (value form of && / ||) the
// condition is matched per arrival edge against the phi operand.
func IfEdges(fn *ssa.Function, match func(c ssa.Value) (bool, bool)) (EdgeSet, []*ssa.If) {
	es := EdgeSet{}
	var ifs []*ssa.If
	for _, b := range fn.Blocks {
		if len(b.Instrs) == 0 {
			continue
		}
		iff, ok := b.Instrs[len(b.Instrs)-1].(*ssa.If)
		if !ok {
			continue
		}
		if p := phiIf(b); p != nil {
			hit := false
			for k := range p.Edges {
				op, flip := phiIfOperand(b, k)
				if _, isConst := ConstBool(op); isConst {
					continue
				}
				ok, side := match(op)
				if !ok {
					continue
				}
				if flip {
					side = !side
				}
				hit = true
				if side {
					es[Edge{b, 0, k}] = true
				} else {
					es[Edge{b, 1, k}] = true
				}
			}
			if hit {
				ifs = append(ifs, iff)
			}
			continue
		}
		if pc := phiCmp(b); pc != nil {
			hit := false
			for k := range pc.phi.Edges {
				if _, known := pc.decided(k); known {
					continue
				}
				ok, side := match(pc.condFor(k))
				if !ok {
					continue
				}
				if pc.flip {
					side = !side
				}
				hit = true
				if side {
					es[Edge{b, 0, k}] = true
				} else {
					es[Edge{b, 1, k}] = true
				}
			}
			if hit {
				ifs = append(ifs, iff)
				continue
			}
		}
		ok, side := match(iff.Cond)
		if !ok {
			// a named boolean computed earlier in value form (`need := a || b; … if need {`): the phi lives in another
			// block. Knowing the phi's value means having arrived there on one of the edges that can carry that value;
			// the test establishes the fact when every such edge does.
			if s, hit := remoteBoolPhi(b, iff, match); hit {
				es[Edge{b, s, -1}] = true
				ifs = append(ifs, iff)
			}
			continue
		}
		if side {
			es[Edge{b, 0, -1}] = true
		} else {
			es[Edge{b, 1, -1}] = true
		}
		ifs = append(ifs, iff)
	}
	return es, ifs
}

// remoteBoolPhi: b ends in `if [!]*p` where p is a boolean phi defined in a dominating block. Returns the successor
// index of b on which the fact accepted by match is established, if any.
func remoteBoolPhi(b *ssa.BasicBlock, iff *ssa.If, match func(c ssa.Value) (bool, bool)) (int, bool) {
	c := iff.Cond
	flip := false
	for {
		u, ok := c.(*ssa.UnOp)
		if !ok || u.Op != token.NOT {
			break
		}
		c = u.X
		flip = !flip
	}
	p, ok := c.(*ssa.Phi)
	if !ok || p.Block() == b || !p.Block().Dominates(b) || !isBoolType(p.Type()) {
		return 0, false
	}
	for _, want := range []bool{true, false} {
		all, any := true, false
		for k, e := range p.Edges {
			if cv, isConst := ConstBool(e); isConst {
				if cv != want {
					continue // this edge cannot carry the value
				}
				// constant arriving from pred q: the branch that led from q to the phi's block
				q := p.Block().Preds[k]
				qi, isIf := lastInstr(q).(*ssa.If)
				if !isIf {
					all = false
					break
				}
				ok, side := match(qi.Cond)
				taken := q.Succs[0] == p.Block() // true successor leads to the phi
				if q.Succs[0] == q.Succs[1] || !ok || side != taken {
					all = false
					break
				}
				any = true
				continue
			}
			ok, side := match(e)
			if !ok || side != want {
				all = false
				break
			}
			any = true
		}
		if all && any {
			s := 0
			if !want {
				s = 1
			}
			if flip {
				s = 1 - s
			}
			return s, true
		}
	}
	return 0, false
}

// allInstrs iterates all instructions of fn.
func allInstrs(fn *ssa.Function, f func(ssa.Instruction)) {
	for _, b := range fn.Blocks {
		for _, in := range b.Instrs {
			f(in)
		}
	}
}

// Returns lists the Return instructions of fn.
func Returns(fn *ssa.Function) []*ssa.Return {
	var out []*ssa.Return
	allInstrs(fn, func(in ssa.Instruction) {
		if r, ok := in.(*ssa.Return); ok {
			// skip the recover block's return
			if fn.Recover != nil && in.Block() == fn.Recover {
				return
			}
			out = append(out, r)
		}
	})
	return out
}

// Exits lists Return and Panic instructions.
func Exits(fn *ssa.Function) []ssa.Instruction {
	var out []ssa.Instruction
	allInstrs(fn, func(in ssa.Instruction) {
		switch in.(type) {
		case *ssa.Return, *ssa.Panic:
			if fn.Recover != nil && in.Block() == fn.Recover {
				return
			}
			out = append(out, in)
		}
	})
	return out
}

// Reach decides whether target is reachable from just after `from` (or from
// the function entry when from is nil) without taking a cut edge and without
// executing an instruction in avoid.
func Reach(fn *ssa.Function, from ssa.Instruction, target ssa.Instruction, cut EdgeSet, avoid map[ssa.Instruction]bool) bool {
	var starts []wnode
	if from == nil {
		if len(fn.Blocks) == 0 {
			return false
		}
		starts = entryNodes(fn.Blocks[0])
	} else {
		fb := from.Block()
		for _, in := range fb.Instrs[instrIndex(from)+1:] {
			if in == target {
				return true
			}
			if avoid[in] {
				return false
			}
		}
		starts = nodesAfter(from, cut)
	}
	found := false
	walk(starts, cut, func(n wnode) bool {
		if found {
			return false
		}
		for _, in := range n.b.Instrs {
			if in == target {
				found = true
				return false
			}
			if avoid[in] {
				return false
			}
		}
		return true
	})
	return found
}

// ReachSel: like Reach from the entry, but only paths on which the last arrival at block K was through its
// k-th predecessor count (the paths on which a phi of K holds its k-th operand).
func ReachSel(fn *ssa.Function, target ssa.Instruction, cut EdgeSet, K *ssa.BasicBlock, k int) bool {
	c2 := EdgeSet{}
	c2.Add(cut)
	c2[trackKey(K)] = true
	found := false
	walk(entryNodes(fn.Blocks[0]), c2, func(n wnode) bool {
		if found {
			return false
		}
		if n.b == target.Block() && n.sel == k {
			found = true
			return false
		}
		return true
	})
	return found
}

// GuardLeaf: every path to target on which phi holds its k-th operand passes an edge establishing one of alts.
func GuardLeaf(fn *ssa.Function, phi *ssa.Phi, k int, target ssa.Instruction, alts ...CP) bool {
	cut := EdgeSet{}
	for _, a := range alts {
		es, _ := IfEdges(fn, a.Match)
		cut.Add(es)
	}
	return !ReachSel(fn, target, cut, phi.Block(), k)
}

// GuardOrPass: every path from `from`/entry to target takes an edge
// establishing one of alts, or executes one of the `through` instructions.
func GuardOrPass(fn *ssa.Function, from ssa.Instruction, target ssa.Instruction, through []ssa.Instruction, alts ...CP) bool {
	cut := EdgeSet{}
	for _, a := range alts {
		es, _ := IfEdges(fn, a.Match)
		cut.Add(es)
	}
	if len(alts) > 1 {
		es, _ := IfEdges(fn, anyMatch(alts))
		cut.Add(es)
	}
	avoid := map[ssa.Instruction]bool{}
	for _, t := range through {
		avoid[t] = true
	}
	return !Reach(fn, from, target, cut, avoid)
}

// immutableCanon: canonical form mentions only parameters / never-written free variables / constants.
func immutableCond(c ssa.Value) bool {
	ok := true
	var rec func(v ssa.Value)
	rec = func(v ssa.Value) {
		v = Strip(v)
		switch x := v.(type) {
		case *ssa.Const, *ssa.Parameter:
		case *ssa.UnOp:
			if fv, isFV := x.X.(*ssa.FreeVar); isFV && x.Op == token.MUL {
				if freeVarWritten(fv.Parent(), fv) {
					ok = false
				}
				return
			}
			if x.Op == token.NOT {
				rec(x.X)
				return
			}
			ok = false
		case *ssa.BinOp:
			rec(x.X)
			rec(x.Y)
		default:
			ok = false
		}
	}
	rec(c)
	return ok
}

// CorrelatedCut: for an instruction governed (dominated, one side) by branches
// on immutable conditions, returns the edges that contradict those conditions
// at every other branch on the same (canonically equal) condition.
func CorrelatedCut(fn *ssa.Function, at ssa.Instruction) EdgeSet {
	cut := EdgeSet{}
	type fact struct {
		canon string
		side  int
	}
	var facts []fact
	for _, b := range fn.Blocks {
		iff, ok := lastInstr(b).(*ssa.If)
		if !ok || !immutableCond(iff.Cond) {
			continue
		}
		for side := 0; side < 2; side++ {
			// does edge (b,side) dominate `at`? i.e. at unreachable from entry without it, and reachable with it
			only := EdgeSet{Edge{b, side, -1}: true}
			if !ReachFromEntry(fn, at, only) && at.Block() != b {
				facts = append(facts, fact{Canon(iff.Cond), side})
			}
		}
	}
	for _, f := range facts {
		for _, b := range fn.Blocks {
			iff, ok := lastInstr(b).(*ssa.If)
			if !ok || Canon(iff.Cond) != f.canon {
				continue
			}
			cut[Edge{b, 1 - f.side, -1}] = true
		}
	}
	return cut
}

// Precedes: a is executed before b on every feasible path from the function entry to b. (Plain block dominance
// is too strict once a helper has been inlined: the continuation of an inlined call has one syntactic predecessor
// per return of the helper, and only the walker knows which of them can actually be taken.)
func Precedes(a, b ssa.Instruction) bool {
	if a == nil || b == nil || a.Parent() != b.Parent() {
		return false
	}
	if a.Block() == b.Block() {
		return instrIndex(a) <= instrIndex(b)
	}
	if a.Block().Dominates(b.Block()) {
		return true
	}
	return MustPassFromEntry(a.Parent(), b, []ssa.Instruction{a})
}
