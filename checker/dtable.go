package main

import (
	"fmt"
	"go/token"
	"go/types"
	"sort"
	"strings"

	"golang.org/x/tools/go/ssa"
)

// Decision tables (TABLE family). A "decision function" — the body of a reconciliation loop, a small
// predicate — decides what to do from a handful of observations: an enum field, a few booleans, a
// comparison of two durations. Its meaning is a finite table: observation tuple ↦ set of actions.
// dtWalk computes that table from the SSA form without executing anything of the repository: the
// observations ("atoms") are given abstract values from a small finite domain, branch conditions are
// evaluated from the function's own data-flow expressions (constants, comparisons, arithmetic, phis,
// short-circuit value forms), the walk follows the one successor each branch selects and collects the
// action instructions it passes until it returns, re-enters the loop head or meets something it cannot
// decide (→ UNDECIDED, which fails the rule). The table is then compared with the rows the property's
// statement fixes — not with the shape of the code: if/else ↔ switch, guard clauses, De Morgan,
// temporaries and extracted helpers (after normalisation) give the same table.

type dval struct {
	str bool
	i   int64
	s   string
}

func dI(i int64) dval  { return dval{i: i} }
func dS(s string) dval { return dval{str: true, s: s} }
func dB(b bool) dval {
	if b {
		return dval{i: 1}
	}
	return dval{}
}

type dtEnv struct {
	atom func(ssa.Value) (string, bool)
	vals map[string]dval
	prev map[*ssa.BasicBlock]*ssa.BasicBlock
	memo map[ssa.Value]dval
	why  string
	used map[string]bool
}

func (e *dtEnv) fail(v ssa.Value, what string) (dval, bool) {
	if e.why == "" {
		e.why = what + ": " + v.String()
	}
	return dval{}, false
}

func (e *dtEnv) eval(v ssa.Value) (dval, bool) {
	if name, ok := e.atom(v); ok {
		d, have := e.vals[name]
		if !have {
			return e.fail(v, "no value chosen for observation "+name)
		}
		e.used[name] = true
		return d, true
	}
	if d, ok := e.memo[v]; ok {
		return d, true
	}
	d, ok := e.eval1(v)
	if ok {
		e.memo[v] = d
	}
	return d, ok
}

func (e *dtEnv) eval1(v ssa.Value) (dval, bool) {
	switch x := v.(type) {
	case *ssa.Const:
		if b, ok := ConstBool(x); ok {
			return dB(b), true
		}
		if s, ok := ConstString(x); ok {
			return dS(s), true
		}
		if n, ok := ConstInt(x); ok {
			return dI(n), true
		}
		if IsNilConst(x) {
			return dI(0), true // pointers / interfaces observed as 0 (nil) or 1 (non-nil)
		}
		return e.fail(v, "constant of unsupported kind")
	case *ssa.Convert:
		return e.eval(x.X)
	case *ssa.ChangeType:
		return e.eval(x.X)
	case *ssa.Phi:
		pb := x.Block()
		pr, ok := e.prev[pb]
		if !ok {
			return e.fail(v, "phi reached without a predecessor")
		}
		for i, q := range pb.Preds {
			if q == pr {
				return e.eval(x.Edges[i])
			}
		}
		return e.fail(v, "phi predecessor not found")
	case *ssa.UnOp:
		switch x.Op {
		case token.NOT:
			d, ok := e.eval(x.X)
			if !ok {
				return d, false
			}
			return dB(d.i == 0), true
		case token.SUB:
			d, ok := e.eval(x.X)
			if !ok {
				return d, false
			}
			return dI(-d.i), true
		case token.MUL:
			// load of a once-stored local cell
			if vs, unknown := Resolve(x); !unknown && len(vs) == 1 && vs[0] != v {
				return e.eval(vs[0])
			}
		}
	case *ssa.BinOp:
		a, ok1 := e.eval(x.X)
		if !ok1 {
			return a, false
		}
		b, ok2 := e.eval(x.Y)
		if !ok2 {
			return b, false
		}
		if a.str != b.str {
			return e.fail(v, "comparison of a string with a number")
		}
		if a.str {
			switch x.Op {
			case token.EQL:
				return dB(a.s == b.s), true
			case token.NEQ:
				return dB(a.s != b.s), true
			}
			return e.fail(v, "unsupported string operation")
		}
		switch x.Op {
		case token.ADD:
			return dI(a.i + b.i), true
		case token.SUB:
			return dI(a.i - b.i), true
		case token.MUL:
			return dI(a.i * b.i), true
		case token.LSS:
			return dB(a.i < b.i), true
		case token.LEQ:
			return dB(a.i <= b.i), true
		case token.GTR:
			return dB(a.i > b.i), true
		case token.GEQ:
			return dB(a.i >= b.i), true
		case token.EQL:
			return dB(a.i == b.i), true
		case token.NEQ:
			return dB(a.i != b.i), true
		case token.AND:
			if isBoolType(x.Type()) {
				return dB(a.i != 0 && b.i != 0), true
			}
		case token.OR:
			if isBoolType(x.Type()) {
				return dB(a.i != 0 || b.i != 0), true
			}
		}
	}
	return e.fail(v, "not an observation and not computable from observations")
}

func isBoolType(t types.Type) bool {
	b, ok := t.Underlying().(*types.Basic)
	return ok && b.Info()&types.IsBoolean != 0
}

type dtRow struct {
	actions []string // labels in the order met
	end     string   // "return", "next" (back at the stop block), "panic", "loop" (inner loop met: rest not interpreted)
	ret     []dval   // evaluated return operands (when end == "return" and they are computable)
	retOK   bool
	ok      bool
	why     string
	used    map[string]bool
	forked  string // non-empty: this outcome lies behind a branch whose condition could not be decided
}

func (r dtRow) has(a string) bool {
	for _, x := range r.actions {
		if x == a {
			return true
		}
	}
	return false
}

// dtWalk interprets one row. start/startIdx: first instruction interpreted; from: the block we pretend to arrive from
// (for phis in the start block; may be nil); stop: blocks that end the row (loop head).
// A branch whose condition is not computable from the observations (a debug-logging test, a new observation the
// table does not know) does not end the interpretation: both successors are followed (at most dtMaxForks such
// branches per row) and the row has several outcomes; the expectation must hold for each of them.
const dtMaxForks = 5

type dtState struct {
	b       *ssa.BasicBlock
	idx     int
	prev    map[*ssa.BasicBlock]*ssa.BasicBlock
	memo    map[ssa.Value]dval
	seen    map[*ssa.BasicBlock]bool
	actions []string
	forks   int
	forked  string
}

func (st dtState) clone() dtState {
	c := st
	c.prev = map[*ssa.BasicBlock]*ssa.BasicBlock{}
	for k, v := range st.prev {
		c.prev[k] = v
	}
	c.memo = map[ssa.Value]dval{}
	for k, v := range st.memo {
		c.memo[k] = v
	}
	c.seen = map[*ssa.BasicBlock]bool{}
	for k, v := range st.seen {
		c.seen[k] = v
	}
	c.actions = append([]string(nil), st.actions...)
	return c
}

func dtWalk(atom func(ssa.Value) (string, bool), vals map[string]dval, start *ssa.BasicBlock, startIdx int, from *ssa.BasicBlock,
	stop func(*ssa.BasicBlock) bool, action func(ssa.Instruction) (string, bool)) []dtRow {
	used := map[string]bool{}
	var out []dtRow
	st0 := dtState{b: start, idx: startIdx, prev: map[*ssa.BasicBlock]*ssa.BasicBlock{}, memo: map[ssa.Value]dval{}, seen: map[*ssa.BasicBlock]bool{}}
	if from != nil {
		st0.prev[start] = from
	}
	var run func(st dtState)
	run = func(st dtState) {
		e := &dtEnv{atom: atom, vals: vals, prev: st.prev, memo: st.memo, used: used}
		row := dtRow{used: used, forked: st.forked}
		finish := func() {
			row.actions = st.actions
			out = append(out, row)
		}
		for steps := 0; steps < 512; steps++ {
			b := st.b
			if st.seen[b] {
				row.end, row.ok = "loop", true
				finish()
				return
			}
			st.seen[b] = true
			var next *ssa.BasicBlock
			for _, in := range b.Instrs[st.idx:] {
				if lab, ok := action(in); ok {
					// a call can be both an action and (its result) an observation; a label may name several actions ("a+b")
					st.actions = append(st.actions, strings.Split(lab, "+")...)
					continue
				}
				if v, isV := in.(ssa.Value); isV {
					if _, isAtom := atom(v); isAtom {
						continue // an observation, not an action
					}
				}
				switch t := in.(type) {
				case *ssa.Range, *ssa.Next:
					row.end, row.ok = "loop", true
					finish()
					return
				case *ssa.Return:
					row.end, row.ok, row.retOK = "return", true, true
					for _, rv := range t.Results {
						d, ok := e.eval(rv)
						if !ok {
							row.retOK = false
						}
						row.ret = append(row.ret, d)
					}
					if !row.retOK {
						row.why = e.why
					}
					finish()
					return
				case *ssa.Panic:
					row.end, row.ok = "panic", true
					finish()
					return
				case *ssa.Jump:
					next = b.Succs[0]
				case *ssa.If:
					c, ok := e.eval(t.Cond)
					if !ok {
						if st.forks >= dtMaxForks {
							row.why = e.why
							finish()
							return
						}
						// not decidable from the observations: follow both successors
						for si, s := range b.Succs {
							f := st.clone()
							f.forks++
							f.forked = e.why
							f.prev[s] = b
							if stop != nil && stop(s) {
								r2 := dtRow{used: used, forked: f.forked, actions: f.actions, ok: true, end: "next"}
								if from != nil && s != from {
									r2.end = "exit"
								}
								out = append(out, r2)
								continue
							}
							f.b, f.idx = s, 0
							_ = si
							run(f)
						}
						return
					}
					if c.i != 0 {
						next = b.Succs[0]
					} else {
						next = b.Succs[1]
					}
				}
			}
			if next == nil {
				row.why = "block without interpretable terminator"
				finish()
				return
			}
			st.prev[next] = b
			if stop != nil && stop(next) {
				row.end, row.ok = "next", true
				if from != nil && next != from {
					row.end = "exit" // left the loop instead of going on to its next iteration
				}
				finish()
				return
			}
			st.b, st.idx = next, 0
		}
		row.why = "step bound exceeded"
		finish()
	}
	run(st0)
	return out
}

// dtDomain enumerates the cartesian product of the observation domains (names sorted for determinism).
func dtDomain(dom map[string][]dval, f func(map[string]dval)) {
	names := make([]string, 0, len(dom))
	for n := range dom {
		names = append(names, n)
	}
	sort.Strings(names)
	cur := map[string]dval{}
	var rec func(int)
	rec = func(k int) {
		if k == len(names) {
			cp := make(map[string]dval, len(cur))
			for a, b := range cur {
				cp[a] = b
			}
			f(cp)
			return
		}
		for _, d := range dom[names[k]] {
			cur[names[k]] = d
			rec(k + 1)
		}
	}
	rec(0)
}

func dtRowString(vals map[string]dval) string {
	names := make([]string, 0, len(vals))
	for n := range vals {
		names = append(names, n)
	}
	sort.Strings(names)
	var parts []string
	for _, n := range names {
		d := vals[n]
		if d.str {
			parts = append(parts, n+"="+d.s)
		} else {
			parts = append(parts, fmt.Sprintf("%s=%d", n, d.i))
		}
	}
	return strings.Join(parts, " ")
}

// dtExpect: what the property's statement fixes for one row: actions that must occur, actions that must not.
type dtExpect struct {
	must    []string
	mustNot []string
	ret     *int64 // required value of the first return operand (nil: not fixed)
	end     string // required way the row ends ("next": goes on to the next iteration; "" : not fixed)
	why     string // the clause of the statement
}

// dtCheck runs every row of the domain and compares with expect (nil expectation: row not fixed by the statement).
// It reports one obligation per *clause* (expect.why), failing with the first offending row.
func (r *R) dtCheck(rule string, fn *ssa.Function, construct string, dom map[string][]dval, atom func(ssa.Value) (string, bool),
	start *ssa.BasicBlock, startIdx int, from *ssa.BasicBlock, stop func(*ssa.BasicBlock) bool, action func(ssa.Instruction) (string, bool),
	expect func(map[string]dval) *dtExpect) {
	byClause := map[string]*dtRes{}
	var order []string
	total := 0
	dtDomain(dom, func(vals map[string]dval) {
		ex := expect(vals)
		if ex == nil {
			return
		}
		total++
		c := byClause[ex.why]
		if c == nil {
			c = &dtRes{}
			byClause[ex.why] = c
			order = append(order, ex.why)
		}
		c.rows++
		rows := dtWalk(atom, vals, start, startIdx, from, stop, action)
		for _, row := range rows {
			dtJudge(c, ex, row, "["+dtRowString(vals)+"]")
		}
	})
	if total == 0 {
		r.Und(rule, fn, construct, fn.Pos(), "no row of the decision table is fixed by the reference")
		return
	}
	for _, why := range order {
		c := byClause[why]
		cons := construct + ": " + why
		switch {
		case c.bad != "":
			r.Bad(rule, fn, cons, fn.Pos(), c.bad)
		case c.und != "":
			r.Und(rule, fn, cons, fn.Pos(), c.und)
		default:
			r.Ok(rule, fn, cons, fn.Pos(), fmt.Sprintf("%d rows of the decision table agree", c.rows))
		}
	}
}

// moduleAction labels calls/go/defer to functions of the repository's own packages and interface invokes whose
// method is declared in the repository; everything else (logging, fmt, time, metrics) is not an action.
func moduleAction(in ssa.Instruction) (string, bool) {
	return moduleActionDepth(in, 0)
}

func moduleActionDepth(in ssa.Instruction, depth int) (string, bool) {
	c, ok := in.(ssa.CallInstruction)
	if !ok {
		return "", false
	}
	com := c.Common()
	pre := ""
	if depth == 0 {
		switch in.(type) {
		case *ssa.Go:
			pre = "go "
		case *ssa.Defer:
			pre = "defer "
		}
	}
	if com.IsInvoke() {
		if com.Method.Pkg() != nil && strings.HasPrefix(com.Method.Pkg().Path(), modPrefix) {
			return pre + com.Method.Name(), true
		}
		return "", false
	}
	f := StaticCallee(com)
	if f == nil {
		if mc, isMC := com.Value.(*ssa.MakeClosure); isMC {
			f, _ = mc.Fn.(*ssa.Function)
		}
	}
	if f == nil {
		return "", false
	}
	if f.Parent() != nil && depth < 2 {
		// an anonymous function called / spawned in place: its own actions count (`go func() { sch.kill(…) }()`)
		var labs []string
		allInstrs(f, func(x ssa.Instruction) {
			if l, ok := moduleActionDepth(x, depth+1); ok {
				labs = append(labs, pre+l)
			}
		})
		if len(labs) == 0 {
			return "", false
		}
		return strings.Join(labs, "+"), true
	}
	if f.Pkg != nil && strings.HasPrefix(f.Pkg.Pkg.Path(), modPrefix) {
		return pre + f.Name(), true
	}
	return "", false
}

type dtRes struct {
	rows int
	bad  string
	und  string
}

// dtJudge compares one outcome of a row with the expectation.
func dtJudge(c *dtRes, ex *dtExpect, row dtRow, desc string) {
	if row.forked != "" {
		desc += " (on a path through a condition the observations do not decide: " + row.forked + ")"
	}
	if !row.ok {
		if c.und == "" {
			c.und = "row " + desc + " could not be interpreted: " + row.why
		}
		return
	}
	if row.end == "loop" {
		// the rest of the row is behind an inner loop: only what was met before it is known
		for _, m := range ex.mustNot {
			if row.has(m) && c.bad == "" {
				c.bad = "row " + desc + ": action " + m + " is taken, which the statement excludes"
			}
		}
		ok := true
		for _, m := range ex.must {
			if !row.has(m) {
				ok = false
			}
		}
		if (!ok || ex.ret != nil) && c.und == "" && c.bad == "" {
			c.und = "row " + desc + " runs into an inner loop before the decision is complete"
		}
		return
	}
	for _, m := range ex.must {
		if !row.has(m) && c.bad == "" {
			c.bad = "row " + desc + ": action " + m + " is not taken (actions: " + strings.Join(row.actions, ",") + "; ends with " + row.end + ")"
		}
	}
	for _, m := range ex.mustNot {
		if row.has(m) && c.bad == "" {
			c.bad = "row " + desc + ": action " + m + " is taken, which the statement excludes"
		}
	}
	if ex.end != "" && row.end != ex.end && c.bad == "" {
		c.bad = "row " + desc + ": the step ends with `" + row.end + "`, the statement requires `" + ex.end + "`"
	}
	if ex.ret != nil && c.bad == "" {
		if row.end != "return" || !row.retOK || len(row.ret) == 0 {
			if c.und == "" {
				c.und = "row " + desc + ": result not computable (" + row.why + ")"
			}
		} else if row.ret[0].i != *ex.ret {
			c.bad = fmt.Sprintf("row %s: result is %d, the statement requires %d", desc, row.ret[0].i, *ex.ret)
		}
	}
}
