package main

import (
	"encoding/json"
	"fmt"
	"go/token"
	"go/types"
	"os"

	"golang.org/x/tools/go/ssa"
)

func readOverlay(path string) (map[string][]byte, error) {
	if path == "" {
		return nil, nil
	}
	b, err := os.ReadFile(path)
	if err != nil {
		return nil, err
	}
	var m map[string]string
	if err := json.Unmarshal(b, &m); err != nil {
		return nil, err
	}
	out := map[string][]byte{}
	for k, v := range m {
		c, err := os.ReadFile(v)
		if err != nil {
			return nil, err
		}
		out[k] = c
	}
	return out, nil
}

// VarargElems: if v is `slice t[:]` of a `new [N]T (varargs)` array, returns
// the values stored at constant indexes.
func VarargElems(v ssa.Value) ([]ssa.Value, bool) {
	sl, ok := Strip(v).(*ssa.Slice)
	if !ok {
		return nil, false
	}
	al, ok := sl.X.(*ssa.Alloc)
	if !ok {
		return nil, false
	}
	pt, _ := al.Type().Underlying().(*types.Pointer)
	if pt == nil {
		return nil, false
	}
	arr, _ := pt.Elem().Underlying().(*types.Array)
	if arr == nil {
		return nil, false
	}
	out := make([]ssa.Value, arr.Len())
	for _, r := range *al.Referrers() {
		ia, ok := r.(*ssa.IndexAddr)
		if !ok {
			continue
		}
		idx, ok := ConstInt(ia.Index)
		if !ok {
			return nil, false
		}
		for _, rr := range *ia.Referrers() {
			if st, ok := rr.(*ssa.Store); ok && st.Addr == ia {
				out[idx] = st.Val
			}
		}
	}
	return out, true
}

// SprintfCall: v is fmt.Sprintf(format, args...) → format const and args.
func SprintfCall(v ssa.Value) (string, []ssa.Value, bool) {
	c, ok := Resolve1(v).(*ssa.Call)
	if !ok || CalleeName(c.Common()) != "fmt.Sprintf" || len(c.Call.Args) != 2 {
		return "", nil, false
	}
	f, ok := ConstString(c.Call.Args[0])
	if !ok {
		return "", nil, false
	}
	args, ok := VarargElems(c.Call.Args[1])
	if !ok {
		if IsNilConst(c.Call.Args[1]) {
			return f, nil, true
		}
		return "", nil, false
	}
	return f, args, true
}

// HexMD5Of: v == fmt.Sprintf("%x", md5.Sum(X)) → X.
func HexMD5Of(v ssa.Value) (ssa.Value, bool) {
	f, args, ok := SprintfCall(v)
	if !ok || f != "%x" || len(args) != 1 || args[0] == nil {
		return nil, false
	}
	c, ok := Strip(args[0]).(*ssa.Call)
	if !ok || CalleeName(c.Common()) != "crypto/md5.Sum" {
		return nil, false
	}
	return c.Call.Args[0], true
}

// SliceParts: v == X[lo:hi] → X, lo, hi (nil when absent).
func SliceParts(v ssa.Value) (x, lo, hi ssa.Value, ok bool) {
	s, ok := Strip(v).(*ssa.Slice)
	if !ok {
		return nil, nil, nil, false
	}
	return s.X, s.Low, s.High, true
}

func same(a, b ssa.Value) bool {
	if a == nil || b == nil {
		return a == b
	}
	return Resolve1(a) == Resolve1(b)
}

func describe(v ssa.Value) string {
	if v == nil {
		return "<zero>"
	}
	return fmt.Sprintf("%s (%s)", v.Name(), v.String())
}

// StoresToField lists Store instructions in fn whose address is field T.f.
func StoresToField(fn *ssa.Function, typ, field string) []*ssa.Store {
	var out []*ssa.Store
	allInstrs(fn, func(in ssa.Instruction) {
		if s, ok := in.(*ssa.Store); ok {
			if t, f, _, ok := FieldName(s.Addr); ok && t == typ && f == field {
				out = append(out, s)
			}
		}
	})
	return out
}

// IsSuccessReturn: every possible value of the error operand (last result) is the nil constant.
func IsSuccessReturn(r *ssa.Return) (success bool, maybe bool) {
	if len(r.Results) == 0 {
		return true, true
	}
	ops := returnOperand(r, r.Results[len(r.Results)-1])
	if len(ops) == 0 {
		return false, true
	}
	all, any := true, false
	for _, v := range ops {
		if v != nil && IsNilConst(v) {
			any = true
			continue
		}
		all = false
		if v == nil {
			any = true
			continue
		}
		// an interface made from a concrete value is a non-nil error
		if _, ok := v.(*ssa.MakeInterface); ok {
			continue
		}
		any = true
	}
	return all, any
}

func posOf(in ssa.Instruction) token.Pos {
	if in == nil {
		return token.NoPos
	}
	if p := in.Pos(); p.IsValid() {
		return p
	}
	// fall back: nearest positioned instruction in block
	b := in.Block()
	if b == nil {
		return token.NoPos
	}
	idx := instrIndex(in)
	for d := 1; d < len(b.Instrs); d++ {
		if idx-d >= 0 {
			if p := b.Instrs[idx-d].Pos(); p.IsValid() {
				return p
			}
		}
		if idx+d < len(b.Instrs) {
			if p := b.Instrs[idx+d].Pos(); p.IsValid() {
				return p
			}
		}
	}
	return token.NoPos
}

// Implements reports whether named type T or *T implements interface iface.
func implementsIface(t types.Type, iface *types.Interface) bool {
	if types.Implements(t, iface) {
		return true
	}
	if _, ok := t.(*types.Pointer); !ok {
		return types.Implements(types.NewPointer(t), iface)
	}
	return false
}

// IsMethodOfIface: call is either an invoke of iface.method or a static call
// of a method named `method` on a type implementing the interface.
func (w *World) IsMethodOfIface(c *ssa.CallCommon, ifaceShort, method string) bool {
	n := w.NamedType(ifaceShort)
	if n == nil {
		return false
	}
	iface, _ := n.Underlying().(*types.Interface)
	if iface == nil {
		return false
	}
	if c.IsInvoke() {
		if c.Method.Name() != method {
			return false
		}
		rt := c.Value.Type()
		if it, ok := rt.Underlying().(*types.Interface); ok {
			// the invoked interface must include this method of iface (embedding ok)
			for i := 0; i < iface.NumMethods(); i++ {
				if iface.Method(i).Name() == method {
					// same signature & interface related
					_ = it
					return types.Identical(iface.Method(i).Type().(*types.Signature).Params(), c.Method.Type().(*types.Signature).Params()) &&
						(types.Implements(rt, iface) || ifaceHasMethodObj(it, iface.Method(i)))
				}
			}
		}
		return false
	}
	f := StaticCallee(c)
	if f == nil || f.Signature.Recv() == nil || f.Name() != method {
		return false
	}
	return implementsIface(f.Signature.Recv().Type(), iface)
}

func ifaceHasMethodObj(it *types.Interface, m *types.Func) bool {
	for i := 0; i < it.NumMethods(); i++ {
		if it.Method(i) == m {
			return true
		}
	}
	return false
}
