package main

import (
	"encoding/json"
	"fmt"
	"go/token"
	"go/types"
	"os"
	"strconv"
	"sync"

	"golang.org/x/tools/go/ssa"
	"golang.org/x/tools/go/ssa/ssautil"
)

func readOverlay(path string) (map[string][]byte, error) {
	if path == "" {
		return nil, nil
	}
	b, err := os.ReadFile(path)
	if err != nil {
		return nil, err
	}
	var m map[string]string
	if err := json.Unmarshal(b, &m); err != nil {
		return nil, err
	}
	out := map[string][]byte{}
	for k, v := range m {
		c, err := os.ReadFile(v)
		if err != nil {
			return nil, err
		}
		out[k] = c
	}
	return out, nil
}

// VarargElems: if v is `slice t[:]` of a `new [N]T (varargs)` array, returns
// the values stored at constant indexes.
func VarargElems(v ssa.Value) ([]ssa.Value, bool) {
	sl, ok := Strip(v).(*ssa.Slice)
	if !ok {
		return nil, false
	}
	al, ok := sl.X.(*ssa.Alloc)
	if !ok {
		return nil, false
	}
	pt, _ := al.Type().Underlying().(*types.Pointer)
	if pt == nil {
		return nil, false
	}
	arr, _ := pt.Elem().Underlying().(*types.Array)
	if arr == nil {
		return nil, false
	}
	out := make([]ssa.Value, arr.Len())
	for _, r := range *al.Referrers() {
		ia, ok := r.(*ssa.IndexAddr)
		if !ok {
			continue
		}
		idx, ok := ConstInt(ia.Index)
		if !ok {
			return nil, false
		}
		for _, rr := range *ia.Referrers() {
			if st, ok := rr.(*ssa.Store); ok && st.Addr == ia {
				out[idx] = st.Val
			}
		}
	}
	return out, true
}

// SprintfCall: v is fmt.Sprintf(format, args...) → format const and args.
func SprintfCall(v ssa.Value) (string, []ssa.Value, bool) {
	c, ok := Resolve1(v).(*ssa.Call)
	if !ok || CalleeName(c.Common()) != "fmt.Sprintf" || len(c.Call.Args) != 2 {
		return "", nil, false
	}
	f, ok := ConstString(c.Call.Args[0])
	if !ok {
		return "", nil, false
	}
	args, ok := VarargElems(c.Call.Args[1])
	if !ok {
		if IsNilConst(c.Call.Args[1]) {
			return f, nil, true
		}
		return "", nil, false
	}
	return f, args, true
}

// HexOf: v is the lowercase hex rendering of X — fmt.Sprintf("%x", X) or hex.EncodeToString(X / X[:]) → X.
func HexOf(v ssa.Value) (ssa.Value, bool) {
	if f, args, ok := SprintfCall(v); ok {
		if f != "%x" || len(args) != 1 || args[0] == nil {
			return nil, false
		}
		return args[0], true
	}
	c, ok := Resolve1(v).(*ssa.Call)
	if !ok || CalleeName(c.Common()) != "encoding/hex.EncodeToString" {
		return nil, false
	}
	a := Strip(c.Call.Args[0])
	if sl, isS := a.(*ssa.Slice); isS && sl.Low == nil && sl.High == nil {
		// sum[:] of a local array holding the digest
		if al, isA := sl.X.(*ssa.Alloc); isA {
			var val ssa.Value
			n := 0
			for _, ref := range *al.Referrers() {
				if st, isSt := ref.(*ssa.Store); isSt && st.Addr == ssa.Value(al) {
					val = st.Val
					n++
				}
			}
			if n == 1 {
				return val, true
			}
		}
	}
	return a, true
}

// HexMD5Of: v == fmt.Sprintf("%x", md5.Sum(X)) → X.
func HexMD5Of(v ssa.Value) (ssa.Value, bool) {
	a, ok := HexOf(v)
	if !ok {
		return nil, false
	}
	c, ok := Strip(a).(*ssa.Call)
	if !ok || CalleeName(c.Common()) != "crypto/md5.Sum" {
		return nil, false
	}
	return c.Call.Args[0], true
}

// SliceParts: v == X[lo:hi] → X, lo, hi (nil when absent).
func SliceParts(v ssa.Value) (x, lo, hi ssa.Value, ok bool) {
	s, ok := Strip(v).(*ssa.Slice)
	if !ok {
		return nil, nil, nil, false
	}
	return s.X, s.Low, s.High, true
}

func same(a, b ssa.Value) bool {
	if a == nil || b == nil {
		return a == b
	}
	return Resolve1(a) == Resolve1(b)
}

func describe(v ssa.Value) string {
	if v == nil {
		return "<zero>"
	}
	return fmt.Sprintf("%s (%s)", v.Name(), v.String())
}

// StoresToField lists Store instructions in fn whose address is field T.f.
func StoresToField(fn *ssa.Function, typ, field string) []*ssa.Store {
	var out []*ssa.Store
	allInstrs(fn, func(in ssa.Instruction) {
		if s, ok := in.(*ssa.Store); ok {
			if t, f, _, ok := FieldName(s.Addr); ok && t == typ && f == field {
				out = append(out, s)
			}
		}
	})
	return out
}

// IsSuccessReturn: every possible value of the error operand (last result) is the nil constant.
func IsSuccessReturn(r *ssa.Return) (success bool, maybe bool) {
	if len(r.Results) == 0 {
		return true, true
	}
	ops := returnOperand(r, r.Results[len(r.Results)-1])
	if len(ops) == 0 {
		return false, true
	}
	all, any := true, false
	for _, v := range ops {
		if v != nil && IsNilConst(v) {
			any = true
			continue
		}
		all = false
		if v == nil {
			any = true
			continue
		}
		if definitelyNonNilErr(v) {
			continue
		}
		any = true
	}
	return all, any
}

func posOf(in ssa.Instruction) token.Pos {
	if in == nil {
		return token.NoPos
	}
	if p := in.Pos(); p.IsValid() {
		return p
	}
	// fall back: nearest positioned instruction in block
	b := in.Block()
	if b == nil {
		return token.NoPos
	}
	idx := instrIndex(in)
	for d := 1; d < len(b.Instrs); d++ {
		if idx-d >= 0 {
			if p := b.Instrs[idx-d].Pos(); p.IsValid() {
				return p
			}
		}
		if idx+d < len(b.Instrs) {
			if p := b.Instrs[idx+d].Pos(); p.IsValid() {
				return p
			}
		}
	}
	return token.NoPos
}

// Implements reports whether named type T or *T implements interface iface.
func implementsIface(t types.Type, iface *types.Interface) bool {
	if types.Implements(t, iface) {
		return true
	}
	if _, ok := t.(*types.Pointer); !ok {
		return types.Implements(types.NewPointer(t), iface)
	}
	return false
}

// IsMethodOfIface: call is either an invoke of iface.method or a static call
// of a method named `method` on a type implementing the interface.
func (w *World) IsMethodOfIface(c *ssa.CallCommon, ifaceShort, method string) bool {
	n := w.NamedType(ifaceShort)
	if n == nil {
		return false
	}
	iface, _ := n.Underlying().(*types.Interface)
	if iface == nil {
		return false
	}
	if c.IsInvoke() {
		if c.Method.Name() != method {
			return false
		}
		rt := c.Value.Type()
		if it, ok := rt.Underlying().(*types.Interface); ok {
			// the invoked interface must include this method of iface (embedding ok)
			for i := 0; i < iface.NumMethods(); i++ {
				if iface.Method(i).Name() == method {
					// same signature & interface related
					_ = it
					return types.Identical(iface.Method(i).Type().(*types.Signature).Params(), c.Method.Type().(*types.Signature).Params()) &&
						(types.Implements(rt, iface) || ifaceHasMethodObj(it, iface.Method(i)))
				}
			}
		}
		return false
	}
	f := StaticCallee(c)
	if f == nil || f.Signature.Recv() == nil || f.Name() != method {
		return false
	}
	return implementsIface(f.Signature.Recv().Type(), iface)
}

func ifaceHasMethodObj(it *types.Interface, m *types.Func) bool {
	for i := 0; i < it.NumMethods(); i++ {
		if it.Method(i) == m {
			return true
		}
	}
	return false
}

// ---------------------------------------------------------------------------
// Canon: a structural canonical form of a value (a tiny value numbering), used
// to decide "the same path / the same object" where go/ssa has no CSE.

var pureCallees = map[string]bool{
	"(*services/keepstore.UnixVolume).blockPath": true,
	"(*services/keepstore.UnixVolume).blockDir":  true,
	"(*os.File).Name":                    true,
	"(*os.File).Fd":                      true,
	"path/filepath.Join":                 true,
	"fmt.Sprintf":                        true,
	"builtin.len":                        true,
	"(os.FileInfo).Name":                 true,
	"(io/fs.FileInfo).Name":              true,
	"(os.FileInfo).ModTime":              true,
	"(io/fs.FileInfo).ModTime":           true,
	"(time.Time).UnixNano":               true,
	"time.Since":                         true,
	"(sdk/go/arvados.Duration).Duration": true,
	"strings.HasPrefix":                  true,
}

func Canon(v ssa.Value) string { return canon(v, false) }

// CanonDeep is Canon after looking through once-assigned captured variables (ResolveOnce), so that a value
// named in a closure and the same value named in the enclosing function get the same form.
func CanonDeep(v ssa.Value) string { return canon(v, true) }

func canon(v ssa.Value, deep bool) string {
	if v == nil {
		return "<nil>"
	}
	v = Resolve1(v)
	if deep {
		v = ResolveOnce(v)
	}
	switch x := v.(type) {
	case *ssa.Parameter:
		return "param:" + x.Name()
	case *ssa.FreeVar:
		return "free:" + x.Name()
	case *ssa.Const:
		return x.String()
	case *ssa.Global:
		return "global:" + shortName(x.String())
	case *ssa.Call:
		name := CalleeName(x.Common())
		if pureCallees[name] {
			s := name + "("
			args := x.Common().Args
			if x.Common().IsInvoke() {
				s += canon(x.Common().Value, deep) + ";"
			}
			for i, a := range args {
				if i > 0 {
					s += ","
				}
				if elems, ok := VarargElems(a); ok {
					s += "["
					for _, e := range elems {
						s += canon(e, deep) + ","
					}
					s += "]"
				} else {
					s += canon(a, deep)
				}
			}
			return s + ")"
		}
	case *ssa.UnOp:
		if x.Op == token.MUL {
			if t, f, base, ok := FieldName(x.X); ok {
				return t + "." + f + "{" + canon(base, deep) + "}"
			}
			if g, ok := x.X.(*ssa.Global); ok {
				return "global:" + shortName(g.String())
			}
			if fv, ok := x.X.(*ssa.FreeVar); ok {
				return "free:" + fv.Name()
			}
			if al, ok := x.X.(*ssa.Alloc); ok {
				// load of an escaping local cell (captured variable): identified by the cell
				return "*cell:" + al.Parent().Name() + "." + al.Name()
			}
			if ia, ok := x.X.(*ssa.IndexAddr); ok {
				return canon(ia.X, deep) + "[" + canon(ia.Index, deep) + "]"
			}
		}
		if x.Op == token.NOT {
			return "!" + canon(x.X, deep)
		}
	case *ssa.Field:
		if t, f, base, ok := FieldName(x); ok {
			return t + "." + f + "{" + canon(base, deep) + "}"
		}
	case *ssa.FieldAddr:
		if t, f, base, ok := FieldName(x); ok {
			return "&" + t + "." + f + "{" + canon(base, deep) + "}"
		}
	case *ssa.BinOp:
		return "(" + canon(x.X, deep) + x.Op.String() + canon(x.Y, deep) + ")"
	case *ssa.IndexAddr:
		return "&" + canon(x.X, deep) + "[" + canon(x.Index, deep) + "]"
	case *ssa.Lookup:
		return canon(x.X, deep) + "[" + canon(x.Index, deep) + "]"
	case *ssa.Extract:
		return canon(x.Tuple, deep) + "#" + fmt.Sprint(x.Index)
	case *ssa.Index:
		return canon(x.X, deep) + "[" + canon(x.Index, deep) + "]"
	}
	fn := "?"
	if in, ok := v.(ssa.Instruction); ok && in.Parent() != nil {
		fn = in.Parent().Name()
	}
	return "%" + fn + "." + v.Name()
}

func SameCanon(a, b ssa.Value) bool {
	return Canon(a) == Canon(b) || CanonDeep(a) == CanonDeep(b)
}

// onceStored: the local cell has exactly one store in its function and none through any closure capturing it;
// returns that store.
func onceStored(al *ssa.Alloc) *ssa.Store {
	var st *ssa.Store
	n := 0
	var visit func(addr ssa.Value) bool
	visit = func(addr ssa.Value) bool {
		refs := addr.Referrers()
		if refs == nil {
			return false
		}
		for _, ref := range *refs {
			switch x := ref.(type) {
			case *ssa.Store:
				if x.Addr == addr {
					n++
					st = x
				} else {
					return false // address stored somewhere
				}
			case *ssa.UnOp:
				if x.Op != token.MUL {
					return false
				}
			case *ssa.MakeClosure:
				fn := x.Fn.(*ssa.Function)
				for i, b := range x.Bindings {
					if b == addr {
						if !visit(fn.FreeVars[i]) {
							return false
						}
					}
				}
			case *ssa.DebugRef:
			default:
				return false // address taken / passed on: writes cannot be enumerated
			}
		}
		return true
	}
	if !visit(al) || n != 1 || st.Parent() != al.Parent() {
		return nil
	}
	return st
}

// ResolveOnce looks through a load of a once-assigned captured variable (from the closure or from the enclosing
// function, after the assignment) to the value assigned.
func ResolveOnce(v ssa.Value) ssa.Value {
	for depth := 0; depth < 6; depth++ {
		v = Strip(v)
		if p, isP := v.(*ssa.Parameter); isP {
			// parameter of an unexported function whose only use is one `go f(args)` statement (a goroutine body moved
			// out of a function literal): the argument passed there
			site := soleCallSite(p.Parent())
			if _, isGo := site.(*ssa.Go); site != nil && isGo {
				// (ordinary calls are handled by the normaliser, which inlines the helper; a `go f(args)` cannot be inlined)
				args := site.Common().Args
				for i, q := range p.Parent().Params {
					if q == p && i < len(args) && !site.Common().IsInvoke() {
						nv, unk := Resolve(args[i])
						if !unk && len(nv) == 1 {
							v = nv[0]
						} else {
							v = Strip(args[i])
						}
						goto next
					}
				}
			}
			return v
		}
	next:
		u, ok := v.(*ssa.UnOp)
		if !ok || u.Op != token.MUL {
			if _, again := v.(*ssa.Parameter); again {
				continue
			}
			return v
		}
		var al *ssa.Alloc
		addr := u.X
		viaClosure := false
		for i := 0; i < 4; i++ {
			if fv, ok := addr.(*ssa.FreeVar); ok {
				addr = freeVarBinding(fv)
				viaClosure = true
				continue
			}
			break
		}
		al, _ = addr.(*ssa.Alloc)
		if al == nil {
			return v
		}
		st := onceStored(al)
		if st == nil {
			return v
		}
		if viaClosure {
			// every closure capturing the cell must be created after the assignment
			okOrder := true
			for _, ref := range *al.Referrers() {
				if mc, ok := ref.(*ssa.MakeClosure); ok {
					if !(st.Block() == mc.Block() && Before(st, mc) || st.Block() != mc.Block() && st.Block().Dominates(mc.Block())) {
						okOrder = false
					}
				}
			}
			if !okOrder {
				return v
			}
		} else if !(st.Block() == u.Block() && Before(st, u) || st.Block() != u.Block() && st.Block().Dominates(u.Block())) {
			return v
		}
		nv, unk := Resolve(st.Val)
		if unk || len(nv) != 1 {
			return Strip(st.Val)
		}
		v = nv[0]
	}
	return v
}

// CanonVP: v has the given canonical form.
func CanonVP(c string) VP { return func(v ssa.Value) bool { return Canon(v) == c } }

// CanonHas: canonical form contains substring.
func CanonHas(sub string) VP {
	return func(v ssa.Value) bool { return containsStr(Canon(v), sub) }
}

func containsStr(s, sub string) bool {
	return len(sub) == 0 || (len(s) >= len(sub) && indexStr(s, sub) >= 0)
}

func indexStr(s, sub string) int {
	for i := 0; i+len(sub) <= len(s); i++ {
		if s[i:i+len(sub)] == sub {
			return i
		}
	}
	return -1
}

// ChainStep is one call in an ordered must-succeed chain.
type ChainStep struct {
	Desc string
	Call ssa.CallInstruction
}

// CheckChain verifies for consecutive steps a→b and last→final: a's block
// dominates b's, and every path from a to b passes "a's error == nil".
func (r *R) CheckChain(rule string, fn *ssa.Function, steps []ChainStep, final ssa.Instruction, finalDesc string) bool {
	all := true
	for i, s := range steps {
		var next ssa.Instruction
		var nd string
		if i+1 < len(steps) {
			next = steps[i+1].Call.(ssa.Instruction)
			nd = steps[i+1].Desc
		} else {
			next = final
			nd = finalDesc
		}
		a := s.Call.(ssa.Instruction)
		// every feasible path to `next` executes `a` first (reachability with infeasible merged-result edges pruned,
		// rather than plain dominance: after a helper is inlined the continuation has several syntactic predecessors)
		ok := MustPassFromEntry(fn, next, []ssa.Instruction{a})
		if ok && ErrIndex(s.Call.Common()) >= 0 {
			g, _ := Guard(fn, a, next, ErrNilC(s.Call))
			ok = g
		}
		all = r.Check(ok, rule, fn, s.Desc+" → "+nd, a.Pos(),
			"precedes on every path, with its error checked nil", "ordering/err-check broken: "+nd+" is reachable without "+s.Desc+" having succeeded") && all
	}
	return all
}

// fileOf returns the base file name containing fn.
func (w *World) fileOf(fn *ssa.Function) string {
	p := fn.Pos()
	for f := fn; !p.IsValid() && f.Parent() != nil; f = f.Parent() {
		p = f.Parent().Pos()
	}
	if !p.IsValid() {
		return ""
	}
	name := w.Fset.Position(p).Filename
	for i := len(name) - 1; i >= 0; i-- {
		if name[i] == '/' {
			return name[i+1:]
		}
	}
	return name
}

// GlobalInitCallArg: for `var G = f(const)` returns the string constant passed
// as first argument in the package initialiser.
func (w *World) GlobalRegexLiteral(short string) (string, bool) {
	i := lastDot(short)
	pkg := w.SSAPkg(short[:i])
	if pkg == nil {
		return "", false
	}
	g, _ := pkg.Members[short[i+1:]].(*ssa.Global)
	if g == nil {
		return "", false
	}
	init := pkg.Func("init")
	var lit string
	found := false
	allInstrs(init, func(in ssa.Instruction) {
		if s, ok := in.(*ssa.Store); ok && s.Addr == ssa.Value(g) {
			if c, ok := Strip(s.Val).(*ssa.Call); ok && CalleeName(c.Common()) == "regexp.MustCompile" {
				if str, ok := ConstString(c.Call.Args[0]); ok {
					lit, found = str, true
				}
			}
		}
	})
	return lit, found
}

func lastDot(s string) int {
	for i := len(s) - 1; i >= 0; i-- {
		if s[i] == '.' {
			return i
		}
	}
	return -1
}

// definitelyNonNilErr: an interface made from a concrete value, or the result
// of fmt.Errorf / errors.New, is a non-nil error.
func definitelyNonNilErr(v ssa.Value) bool {
	switch x := v.(type) {
	case *ssa.MakeInterface:
		return true
	case *ssa.Call:
		switch CalleeName(x.Common()) {
		case "fmt.Errorf", "errors.New":
			return true
		}
	}
	return false
}

// MaybeSuccess: the return may yield a nil error: some possible operand is not
// definitely non-nil and is not guarded by a dominating `v != nil` test.
func MaybeSuccess(fn *ssa.Function, ret *ssa.Return) bool {
	_, maybe := IsSuccessReturn(ret)
	if !maybe {
		return false
	}
	return !nonNilGuarded(fn, ret)
}

// rootBase strips field selections / loads to find the root object of an access path.
func rootBase(v ssa.Value) ssa.Value {
	for {
		v = Strip(v)
		switch x := v.(type) {
		case *ssa.FieldAddr:
			v = x.X
		case *ssa.Field:
			v = x.X
		case *ssa.UnOp:
			if x.Op == token.MUL {
				if _, ok := x.X.(*ssa.FieldAddr); ok {
					v = x.X
					continue
				}
			}
			return v
		default:
			return v
		}
	}
}

// ---------------------------------------------------------------------------
// SYM: symbolic description of a keyed hash computation

// HMACInfo describes `hex(hmac.New(H, key) ; writes... ; Sum(nil))`.
type HMACInfo struct {
	HashCtor string      // e.g. "crypto/sha1.New"
	Key      ssa.Value   // argument of []byte(key) conversion, stripped
	Writes   []ssa.Value // values written, in order (string or []byte, stripped of conversions)
	Parts    []string    // the message as a canonical byte sequence: every write flattened (a+b, strings.Join, Sprintf %s), adjacent constants merged
	NewCall  *ssa.Call
}

// HexHMACOf: v == fmt.Sprintf("%x", h.Sum(nil)) with h := hmac.New(ctor, key)
// and only WriteString/Write calls on h in between.
func HexHMACOf(v ssa.Value) (*HMACInfo, bool) {
	hx, ok := HexOf(v)
	if !ok {
		return nil, false
	}
	sum, ok := Resolve1(stripIface(hx)).(*ssa.Call)
	if !ok || bareName(CalleeName(sum.Common())) != "Sum" || !sum.Common().IsInvoke() {
		return nil, false
	}
	if !IsNilConst(sum.Common().Args[0]) {
		return nil, false
	}
	h, ok := Resolve1(sum.Common().Value).(*ssa.Call)
	if !ok || CalleeName(h.Common()) != "crypto/hmac.New" {
		return nil, false
	}
	info := &HMACInfo{NewCall: h}
	switch c := Strip(h.Call.Args[0]).(type) {
	case *ssa.Function:
		info.HashCtor = fnName(c)
	default:
		return nil, false
	}
	info.Key = Strip(h.Call.Args[1])
	// every use of h between New and Sum
	type use struct {
		in  ssa.Instruction
		val ssa.Value
	}
	var uses []use
	bad := false
	var visit func(x ssa.Value)
	visit = func(x ssa.Value) {
		for _, ref := range *x.Referrers() {
			switch u := ref.(type) {
			case *ssa.MakeInterface:
				visit(u)
			case *ssa.ChangeInterface:
				visit(u)
			case *ssa.DebugRef:
			case *ssa.Call:
				if u == sum {
					continue
				}
				n := CalleeName(u.Common())
				switch {
				case n == "io.WriteString" && len(u.Call.Args) == 2:
					uses = append(uses, use{u, Strip(u.Call.Args[1])})
				case u.Common().IsInvoke() && bareName(n) == "Write":
					uses = append(uses, use{u, Strip(u.Common().Args[0])})
				default:
					bad = true
				}
			default:
				bad = true
			}
		}
	}
	visit(h)
	if bad {
		return nil, false
	}
	// order: all in dominance order before sum
	for i := 0; i < len(uses); i++ {
		for j := i + 1; j < len(uses); j++ {
			if Before(uses[j].in, uses[i].in) {
				uses[i], uses[j] = uses[j], uses[i]
			}
		}
	}
	for i, u := range uses {
		if !Before(u.in, sum) || !Before(h, u.in) {
			return nil, false
		}
		if i > 0 && !Before(uses[i-1].in, u.in) {
			return nil, false
		}
		info.Writes = append(info.Writes, u.val)
	}
	var seq []SeqPart
	for _, wv := range info.Writes {
		seq = append(seq, ByteSeq(wv)...)
	}
	info.Parts = SeqCanon(seq)
	return info, true
}

// RegexLiteralOf: the pattern of the *regexp.Regexp value re — compiled in place (regexp.MustCompile("lit"))
// or a package-level variable initialised that way.
func (w *World) RegexLiteralOf(re ssa.Value) (string, bool) {
	re = ResolveOnce(Resolve1(re))
	if mc, ok := re.(*ssa.Call); ok && CalleeName(mc.Common()) == "regexp.MustCompile" {
		return ConstString(mc.Common().Args[0])
	}
	if g, ok := LoadedGlobal(re); ok {
		return w.GlobalRegexLiteral(g)
	}
	return "", false
}

// SeqPart is one element of a byte/string sequence: a constant or an opaque value.
type SeqPart struct {
	Const *string
	Val   ssa.Value
}

// ByteSeq flattens the ways of building one string out of pieces — a + b, strings.Join([]string{…}, sep),
// fmt.Sprintf with only %s/%v verbs on string operands — into the sequence of pieces.
func ByteSeq(v ssa.Value) []SeqPart {
	v = ResolveOnce(Resolve1(v)) // also through `prefix := "+R" + id + "-"` hoisted out of a closure
	if s, ok := ConstString(v); ok {
		return []SeqPart{{Const: &s}}
	}
	switch x := v.(type) {
	case *ssa.BinOp:
		if x.Op == token.ADD {
			return append(ByteSeq(x.X), ByteSeq(x.Y)...)
		}
	case *ssa.Call:
		switch CalleeName(x.Common()) {
		case "strings.Join":
			elems, ok := VarargElems(x.Call.Args[0])
			sep, okS := ConstString(x.Call.Args[1])
			if ok && okS {
				var out []SeqPart
				for i, e := range elems {
					if e == nil {
						return []SeqPart{{Val: v}}
					}
					if i > 0 {
						sc := sep
						out = append(out, SeqPart{Const: &sc})
					}
					out = append(out, ByteSeq(e)...)
				}
				return out
			}
		case "fmt.Sprintf":
			f, args, ok := SprintfCall(x)
			if ok {
				var out []SeqPart
				ai := 0
				lit := ""
				good := true
				for i := 0; i < len(f) && good; i++ {
					if f[i] != '%' {
						lit += string(f[i])
						continue
					}
					if i+1 < len(f) && f[i+1] == '%' {
						lit += "%"
						i++
						continue
					}
					if i+1 < len(f) && (f[i+1] == 's' || f[i+1] == 'v') && ai < len(args) && args[ai] != nil {
						a := Strip(args[ai])
						if mi, isMI := args[ai].(*ssa.MakeInterface); isMI {
							a = mi.X
						}
						if b, isB := a.Type().Underlying().(*types.Basic); isB && b.Info()&types.IsString != 0 {
							l := lit
							out = append(out, SeqPart{Const: &l})
							lit = ""
							out = append(out, ByteSeq(a)...)
							ai++
							i++
							continue
						}
					}
					good = false
				}
				if good && ai == len(args) {
					out = append(out, SeqPart{Const: &lit})
					return out
				}
			}
		}
	}
	return []SeqPart{{Val: v}}
}

// SeqCanon renders a sequence canonically: adjacent constants merged, empty constants dropped, values by Canon.
func SeqCanon(seq []SeqPart) []string {
	var out []string
	pending := ""
	has := false
	flush := func() {
		if has && pending != "" {
			out = append(out, strconv.Quote(pending))
		}
		pending, has = "", false
	}
	for _, p := range seq {
		if p.Const != nil {
			pending += *p.Const
			has = true
			continue
		}
		flush()
		out = append(out, Canon(p.Val))
	}
	flush()
	return out
}

// ConcatParts flattens a string concatenation tree (BinOp ADD) into its leaves.
func ConcatParts(v ssa.Value) []ssa.Value {
	v = Resolve1(v)
	if b, ok := v.(*ssa.BinOp); ok && b.Op == token.ADD {
		return append(ConcatParts(b.X), ConcatParts(b.Y)...)
	}
	return []ssa.Value{v}
}

// freeVarBinding: the value bound to free variable fv at the (unique) MakeClosure of its function.
func freeVarBinding(fv *ssa.FreeVar) ssa.Value {
	fn := fv.Parent()
	if fn.Parent() == nil {
		return nil
	}
	var out ssa.Value
	allInstrs(fn.Parent(), func(in ssa.Instruction) {
		if mc, ok := in.(*ssa.MakeClosure); ok && mc.Fn == fn {
			for i, f := range fn.FreeVars {
				if f == fv {
					out = mc.Bindings[i]
				}
			}
		}
	})
	return out
}

// ---------------------------------------------------------------------------
// call-site index (per program): static call/go/defer sites of every function, and functions used as values

type siteIndex struct {
	sites map[*ssa.Function][]ssa.CallInstruction
	asVal map[*ssa.Function]bool
}

var siteIndexes sync.Map // *ssa.Program → *siteIndex

func callSiteIndex(prog *ssa.Program) *siteIndex {
	if v, ok := siteIndexes.Load(prog); ok {
		return v.(*siteIndex)
	}
	ix := &siteIndex{sites: map[*ssa.Function][]ssa.CallInstruction{}, asVal: map[*ssa.Function]bool{}}
	for fn := range ssautil.AllFunctions(prog) {
		for _, b := range fn.Blocks {
			for _, in := range b.Instrs {
				var callee *ssa.Function
				if ci, ok := in.(ssa.CallInstruction); ok {
					if g := ci.Common().StaticCallee(); g != nil {
						callee = g
						ix.sites[g] = append(ix.sites[g], ci)
					}
				}
				var buf [8]*ssa.Value
				for _, op := range in.Operands(buf[:0]) {
					if g, ok := (*op).(*ssa.Function); ok && g != callee {
						ix.asVal[g] = true
					}
				}
			}
		}
	}
	v, _ := siteIndexes.LoadOrStore(prog, ix)
	return v.(*siteIndex)
}

// invalidateSiteIndex is called after the normaliser rewrote function bodies.
func invalidateSiteIndex(prog *ssa.Program) { siteIndexes.Delete(prog) }

// soleCallSite: fn is an unexported, non-closure function that is never used as a value and is called from
// exactly one place; returns that site.
func soleCallSite(fn *ssa.Function) ssa.CallInstruction {
	if fn == nil || fn.Parent() != nil || fn.Object() == nil || fn.Object().Exported() || fn.Prog == nil {
		return nil
	}
	ix := callSiteIndex(fn.Prog)
	if ix.asVal[fn] || len(ix.sites[fn]) != 1 {
		return nil
	}
	return ix.sites[fn][0]
}

// GoBodies: the functions fn starts as goroutines — function literals and named functions/methods alike.
func GoBodies(fn *ssa.Function) []*ssa.Function {
	seen := map[*ssa.Function]bool{}
	var out []*ssa.Function
	for _, f := range append([]*ssa.Function{fn}, Closures(fn)...) {
		allInstrs(f, func(in ssa.Instruction) {
			g, ok := in.(*ssa.Go)
			if !ok {
				return
			}
			var callee *ssa.Function
			if mc, isMC := g.Call.Value.(*ssa.MakeClosure); isMC {
				callee, _ = mc.Fn.(*ssa.Function)
			} else {
				callee = g.Call.StaticCallee()
			}
			if callee != nil && len(callee.Blocks) > 0 && !seen[callee] {
				seen[callee] = true
				out = append(out, callee)
			}
		})
	}
	return out
}

// ClosuresAndGoBodies: closures of fn plus named functions it starts with `go` (a goroutine body moved out of a
// function literal into a method is still the same goroutine).
func ClosuresAndGoBodies(fn *ssa.Function) []*ssa.Function {
	out := Closures(fn)
	seen := map[*ssa.Function]bool{}
	for _, c := range out {
		seen[c] = true
	}
	for _, g := range GoBodies(fn) {
		if !seen[g] && g.Parent() == nil {
			seen[g] = true
			out = append(out, g)
			out = append(out, Closures(g)...)
		}
	}
	return out
}

// ClosuresAndHelpers: the function literals of fn plus the unexported functions of the same package they (or fn)
// call directly, with those functions' own literals — the places a block of fn's code can have been moved to by
// "extract method" when the extracted body cannot be inlined (it contains function literals or defers).
func ClosuresAndHelpers(fn *ssa.Function) []*ssa.Function {
	out := Closures(fn)
	seen := map[*ssa.Function]bool{fn: true}
	for _, c := range out {
		seen[c] = true
	}
	for _, f := range append([]*ssa.Function{fn}, Closures(fn)...) {
		allInstrs(f, func(in ssa.Instruction) {
			ci, ok := in.(ssa.CallInstruction)
			if !ok {
				return
			}
			g := ci.Common().StaticCallee()
			if g == nil || seen[g] || len(g.Blocks) == 0 || g.Parent() != nil || g.Object() == nil || g.Object().Exported() || g.Pkg != fn.Pkg {
				return
			}
			if soleCallSite(g) == nil {
				return // shared helpers have a meaning of their own
			}
			seen[g] = true
			out = append(out, g)
			out = append(out, Closures(g)...)
		})
	}
	return out
}
