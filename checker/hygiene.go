package main

import (
	"go/token"
	"go/types"
	"sort"
	"strings"

	"golang.org/x/tools/go/ssa"
)

// Liveness hygiene of the functions a property's rules examine. Every property
// speaks about operations that return (an acknowledged PUT, a read that ends
// with data or an error, a sweep that ends): a mutex that is left held, a
// WaitGroup that is never released or a request that is answered with an
// implicit empty 200 falsifies those clauses for every later operation. These
// rules are the same for all properties and run over exactly the source
// functions named by the property's own obligations:
//
//   H1  every mutex (sync.Mutex/RWMutex/Locker, any zero-argument
//       Lock/RLock method, keepstore's UnixVolume.lock) taken in such a
//       function is released on every path to every exit (explicitly or by
//       defer; paths on which a conditional lock reported failure excepted),
//       and every release is preceded on every path by the matching acquire.
//   H2  an HTTP handler among them writes a response (http.Error,
//       WriteHeader, Write, or a callee that is handed the ResponseWriter)
//       on every path to every return: no request ends in net/http's
//       implicit empty 200.
//   H3  a goroutine that calls WaitGroup.Done does so on each of its paths,
//       and its `go` statement is preceded by Add on every path of the same
//       loop iteration; a WaitGroup.Add before a `go` is matched by a Done in
//       that goroutine.

// lockOp: +2 Lock, +1 RLock, -2 Unlock, -1 RUnlock; cond = acquisition only when the call's error result is nil.
func lockOp(c *ssa.CallCommon) (op int, recv ssa.Value, cond bool) {
	if op, recv := mutexOp(c); op != 0 {
		return op, recv, false
	}
	name := CalleeName(c)
	if len(CallArgs(c)) != 0 && !strings.HasSuffix(name, "UnixVolume).lock") {
		return 0, nil, false
	}
	var rv ssa.Value
	if c.IsInvoke() {
		rv = c.Value
	} else if f := StaticCallee(c); f != nil && f.Signature.Recv() != nil && len(c.Args) > 0 {
		rv = c.Args[0]
	} else {
		return 0, nil, false
	}
	switch {
	case strings.HasSuffix(name, "UnixVolume).lock"):
		return 2, rv, true
	case strings.HasSuffix(name, "UnixVolume).unlock"):
		return -2, rv, false
	}
	switch bareName(name) {
	case "Lock":
		return 2, rv, false
	case "RLock":
		return 1, rv, false
	case "Unlock":
		return -2, rv, false
	case "RUnlock":
		return -1, rv, false
	}
	return 0, nil, false
}

// hygieneWrappers: functions whose whole purpose is to take or release a lock for their caller, and functions
// documented as entered with the lock held that hand it back temporarily. One line of reason each.
var hygieneWrappers = map[string]string{
	"(*sdk/go/arvados.fileSystem).Rename": "locks a computed list of ancestors (sync.Locker values loaded from a slice in a loop) and defers each release: the acquire and its release are different SSA loads of the same element; root-first order and completeness are decided by C13-R5",
}

// toleratedErrors: the only places (in all functions examined by any property) where the error branch of an
// `err != nil` test continues on the success path, each confirmed by reading. Key: function / callee.
var toleratedErrors = map[string]string{
	"(*lib/controller/federation.Conn).tryLocalThenRemotes / dynamic": "a 404 from the local cluster falls through to asking the remotes",
	"(*lib/dispatchcloud/scheduler.Scheduler).cancel / Cancel":        "a failed Cancel is logged; the next sync retries",
	"(*lib/dispatchcloud/scheduler.Scheduler).requeue / Unlock":       "a failed Unlock is logged; the next sync retries",
	"(*sdk/go/arvados.contextGroup).Go / dynamic":                     "the callback's error is recorded (first error wins) and the group cancelled; the goroutine then ends normally",
	"(*sdk/go/keepclient.KeepClient).uploadToKeepServer / ReadAll":    "if / else-if chain: each arm sends exactly one status (C11-R2)",
	"(*services/keepstore.UnixVolume).EmptyTrash / Walk":              "a failed directory walk is logged; the sweep still drains its workers",
	"(*services/keepstore.UnixVolume).Untrash / Rename":               "a failed rename of one trashed copy tries the next copy; the last error is returned",
	"(*services/keep-balance.Balancer).GetCurrentState / value":       "the collection fetcher records EachCollection's error in errs (C06-R2), cancels, and then ends like the success path",
	"(*sdk/go/keepclient.BlockCache).Get / value":                     "a cache entry that holds an error is fetched again (C03-R4)",
	"services/keepstore.PutBlock / CompareAndTouch":                   "a non-collision compare error falls through to writing a fresh copy",
}

// benignUnreadErrors: the callees whose error result goes unread somewhere in the functions examined by the
// properties, each confirmed by reading (38 sites on the current tree). Key: callee, or "function / callee".
var benignUnreadErrors = map[string]string{
	"(io.Writer).Write":                        "writes into a hash.Hash (never fails) — makePermSignature, HashCheckingReader, collisionOrCorrupt",
	"io.WriteString":                           "write into an hmac hash (never fails)",
	"(*strings.Builder).WriteString":           "in-memory builder: documented to always return a nil error",
	"(*strings.Builder).WriteByte":             "in-memory builder: documented to always return a nil error",
	"(*strings.Builder).WriteRune":             "in-memory builder: documented to always return a nil error",
	"(*strings.Builder).Write":                 "in-memory builder: documented to always return a nil error",
	"(*bytes.Buffer).WriteString":              "in-memory buffer: the error is always nil",
	"(*bytes.Buffer).WriteByte":                "in-memory buffer: the error is always nil",
	"(*bytes.Buffer).WriteRune":                "in-memory buffer: the error is always nil",
	"(*bytes.Buffer).Write":                    "in-memory buffer: the error is always nil",
	"(net/http.ResponseWriter).Write":          "response body write: the client is gone if it fails, nothing to undo",
	"(io.Closer).Close":                        "closing a response body / reader after its content was consumed or on an error path",
	"(*os.File).Close":                         "closing a read-only descriptor or a temp file on an error path (the publishing Close is checked by C02-R1)",
	"(*io.PipeReader).Close":                   "pipe teardown",
	"(*io.PipeReader).CloseWithError":          "pipe teardown",
	"(*io.PipeWriter).CloseWithError":          "pipe teardown",
	"(sdk/go/asyncbuf.Buffer).CloseWithError":  "buffer teardown; the error is delivered to the readers",
	"(*services/keepstore.osWithStats).Remove": "best-effort removal of temp files / trash markers; failures are counted in stats",
	"os.Remove":                                "best-effort removal of a temp file",
	"(*sdk/go/keepclient.KeepClient).uploadToKeepServer / fmt.Sscanf":                                         "an unparsable X-Keep-Replicas-Stored header leaves the default of 1 (C11-R1)",
	"(*sdk/go/keepclient.KeepClient).getOrHead / io/ioutil.ReadAll":                                           "reads an error response's body only to build the error message",
	"(*services/keepstore.router).handleIndex / (*net/http.Request).ParseForm":                                "a malformed query means no prefix filter",
	"(*lib/dispatchcloud/scheduler.Scheduler).runQueue / (lib/dispatchcloud/scheduler.ContainerQueue).Unlock": "over-quota unlock is best effort; the next scheduling pass retries",
}

type lockSite struct {
	in   ssa.Instruction
	op   int
	key  string
	cond bool
	call ssa.CallInstruction
	dfr  bool
}

func lockSites(fn *ssa.Function) []lockSite {
	var out []lockSite
	allInstrs(fn, func(in ssa.Instruction) {
		ci, ok := in.(ssa.CallInstruction)
		if !ok {
			return
		}
		if _, isGo := in.(*ssa.Go); isGo {
			return
		}
		op, recv, cond := lockOp(ci.Common())
		if op == 0 || recv == nil {
			return
		}
		_, isDefer := in.(*ssa.Defer)
		out = append(out, lockSite{in, op, CanonDeep(recv), cond, ci, isDefer})
	})
	return out
}

func hygieneFuncs(r *R) []*ssa.Function {
	seen := map[*ssa.Function]bool{}
	var out []*ssa.Function
	for _, o := range r.Obs {
		if o.Status == Info || strings.Contains(o.Rule, "-H") {
			continue
		}
		fn := r.W.Fn(o.Func)
		if fn == nil {
			continue
		}
		fn = rootFn(fn)
		if seen[fn] || len(fn.Blocks) == 0 {
			continue
		}
		seen[fn] = true
		out = append(out, fn)
	}
	sort.Slice(out, func(i, j int) bool { return out[i].String() < out[j].String() })
	return out
}

func hygiene(r *R) {
	fns := hygieneFuncs(r)
	h1, h2, h3, h4, h5, h6, h7 := r.Prop+"-H1", r.Prop+"-H2", r.Prop+"-H3", r.Prop+"-H4", r.Prop+"-H5", r.Prop+"-H6", r.Prop+"-H7"
	r.Rule(h1, "functions examined by this property: every mutex taken is released on every path to every exit, and every release follows its acquire (a leaked or doubly released lock blocks or kills every later operation)", 0)
	r.Rule(h2, "HTTP handlers examined by this property write a response on every path to every return (no implicit empty 200)", 0)
	r.Rule(h3, "goroutines examined by this property: WaitGroup.Add before `go`, Done on every path of the goroutine", 0)
	r.Rule(h4, "functions examined by this property: the arm of an if statement that runs when an error is nil never returns, formats or dereferences that error (signature of an inverted error test)", 0)
	r.Rule(h5, "functions examined by this property: the error side of every nil-test on a call's error result leaves the success path (return, continue, break, panic) — except the sites confirmed by reading, where a failure is deliberately tolerated", 0)
	r.Rule(h6, "functions examined by this property read the error result of every call that has one, except calls confirmed harmless to ignore (hash writes, best-effort Close/Remove, response body writes)", 0)
	r.Rule(h7, "goroutines started in a loop by the functions examined capture no variable that later iterations reassign (loop variables of this pre-1.22 module included)", 0)
	for _, root := range fns {
		all := append([]*ssa.Function{root}, Closures(root)...)
		for _, fn := range all {
			if hygieneWrappers[fnShort(rootFn(fn))] == "" {
				hygieneLocks(r, h1, fn)
			} else if fn == root {
				r.Info(h1, fn, "lock wrapper / documented lock hand-over", fn.Pos(), hygieneWrappers[fnShort(root)])
			}
			hygieneWaitGroup(r, h3, fn)
			hygieneLoopCapture(r, h7, fn)
			hygieneNilErr(r, h4, fn)
			for _, c := range unusedErrors(fn) {
				name := CalleeName(c.Common())
				why, benign := benignUnreadErrors[name]
				if !benign {
					why, benign = benignUnreadErrors[fnShort(rootFn(fn))+" / "+name]
				}
				r.Check(benign, h6, fn, "unread error of "+bareName(name), c.Pos(), "confirmed harmless to ignore: "+why,
					"the error result of this call is never read: a failure here goes unnoticed (the check that used it is gone?)")
			}
			for _, ft := range errFallThrough(fn) {
				key := fnShort(rootFn(fn)) + " / " + ft.src
				why, tolerated := toleratedErrors[key]
				r.Check(tolerated, h5, fn, "error of "+ft.src+" handled", ft.pos, "confirmed tolerated failure: "+why,
					"the error side of this `err != nil` test runs on into the success path (the return/continue that ended it is missing): the failure is ignored")
			}
		}
		hygieneHTTP(r, h2, root)
	}
}

func hygieneLocks(r *R, rule string, fn *ssa.Function) {
	sites := lockSites(fn)
	if len(sites) == 0 {
		return
	}
	exits := Exits(fn)
	for _, s := range sites {
		if s.op > 0 {
			if s.dfr {
				continue // `defer mu.Lock()` does not occur
			}
			avoid := map[ssa.Instruction]bool{}
			for _, u := range sites {
				if u.op == -s.op && u.key == s.key {
					avoid[u.in] = true
				}
			}
			if len(avoid) == 0 {
				// released by a closure that captured the same lock (defer func() { mu.Unlock() }()) or handed to a goroutine
				if releasedByClosure(fn, s) {
					r.Ok(rule, fn, "Lock "+s.key, s.in.Pos(), "released by a deferred/spawned closure of this function")
					continue
				}
				r.Bad(rule, fn, "Lock "+s.key, s.in.Pos(), "lock taken and not released anywhere in this function: every later operation on it blocks")
				continue
			}
			cut := CorrelatedCut(fn, s.in)
			if s.cond {
				if idx := ErrIndex(s.call.Common()); idx >= 0 {
					es, _ := IfEdges(fn, NeqC("lock err != nil", ResultVP(s.call.Value(), idx), NilV).Match)
					cut.Add(es)
				}
			}
			leak := false
			for _, e := range exits {
				if _, isPanic := e.(*ssa.Panic); isPanic {
					continue
				}
				if Reach(fn, s.in, e, cut, avoid) {
					leak = true
				}
			}
			if leak {
				// unlock … wait … relock inside a defer-protected section (`mu.Lock(); defer mu.Unlock(); for !cond { mu.Unlock(); <-ch; mu.Lock() }`):
				// a deferred release registered before this acquire runs at every exit; it covers this acquire when every path
				// from the defer to here passes an explicit release (so the lock is held once, not twice, at the exit).
				var explicit []ssa.Instruction
				for _, u := range sites {
					if u.op == -s.op && u.key == s.key && !u.dfr {
						explicit = append(explicit, u.in)
					}
				}
				for _, d := range sites {
					if d.op == -s.op && d.key == s.key && d.dfr && len(explicit) > 0 && Precedes(d.in, s.in) && !Reach(fn, d.in, s.in, cut, setOf(explicit)) {
						leak = false
					}
				}
			}
			r.Check(!leak, rule, fn, "Lock "+s.key, s.in.Pos(), "released on every path to every return", "a path reaches a return with this lock still held: every later operation that needs it blocks forever")
		} else {
			var locks []ssa.Instruction
			for _, l := range sites {
				if l.op == -s.op && l.key == s.key && !l.dfr {
					locks = append(locks, l.in)
				}
			}
			if len(locks) == 0 {
				if fn.Parent() != nil && acquiredByParent(fn, s) {
					r.Ok(rule, fn, "Unlock "+s.key, s.in.Pos(), "releases the lock its enclosing function took before creating this closure")
					continue
				}
				r.Bad(rule, fn, "Unlock "+s.key, s.in.Pos(), "release without an acquire in this function: unlock of an unlocked mutex is fatal, or it releases a lock the caller still relies on")
				continue
			}
			// immutable mode flags (`if !sync { Lock } … if !sync { Unlock }`): contradictory branches are pruned
			ok := !Reach(fn, nil, s.in, CorrelatedCut(fn, s.in), setOf(locks))
			r.Check(ok, rule, fn, "Unlock "+s.key, s.in.Pos(), "preceded by its acquire on every path", "a path reaches this release without the acquire: unlock of an unlocked mutex is fatal")
		}
	}
}

// releasedByClosure: some closure of fn releases the lock s (same canonical receiver seen through the capture).
func releasedByClosure(fn *ssa.Function, s lockSite) bool {
	for _, cl := range Closures(fn) {
		for _, u := range lockSites(cl) {
			if u.op == -s.op && u.key == s.key {
				return true
			}
		}
	}
	return false
}

func acquiredByParent(fn *ssa.Function, s lockSite) bool {
	for p := fn.Parent(); p != nil; p = p.Parent() {
		for _, l := range lockSites(p) {
			if l.op == -s.op && l.key == s.key {
				return true
			}
		}
	}
	return false
}

func hygieneHTTP(r *R, rule string, fn *ssa.Function) {
	var resp ssa.Value
	hasReq := false
	for _, p := range fn.Params {
		switch typeString(p.Type()) {
		case "net/http.ResponseWriter":
			resp = p
		case "*net/http.Request":
			hasReq = true
		}
	}
	if resp == nil || !hasReq {
		return
	}
	isResp := func(v ssa.Value) bool {
		v = stripIface(Resolve1(v))
		return v == resp || ResolveOnce(v) == resp
	}
	var responders []ssa.Instruction
	allInstrs(fn, func(in ssa.Instruction) {
		ci, ok := in.(ssa.CallInstruction)
		if !ok {
			return
		}
		c := ci.Common()
		if c.IsInvoke() && isResp(c.Value) {
			if c.Method.Name() != "Header" {
				responders = append(responders, in)
			}
			return
		}
		for _, a := range c.Args {
			if isResp(a) {
				responders = append(responders, in)
				return
			}
		}
	})
	for _, ret := range Returns(fn) {
		ok := len(responders) > 0 && MustPassFromEntry(fn, ret, responders)
		r.Check(ok, rule, fn, "return", ret.Pos(), "a response was written (or the writer handed on) on every path", "a path returns without writing any response: net/http answers 200 with an empty body")
	}
}

func hygieneWaitGroup(r *R, rule string, fn *ssa.Function) {
	wgCalls := func(f *ssa.Function, name string) []ssa.Instruction {
		var out []ssa.Instruction
		allInstrs(f, func(in ssa.Instruction) {
			if ci, ok := in.(ssa.CallInstruction); ok {
				if _, isGo := in.(*ssa.Go); !isGo && CalleeName(ci.Common()) == "(*sync.WaitGroup)."+name {
					out = append(out, in)
				}
			}
		})
		return out
	}
	adds := wgCalls(fn, "Add")
	allInstrs(fn, func(in ssa.Instruction) {
		g, ok := in.(*ssa.Go)
		if !ok {
			return
		}
		cl := StaticCallee(g.Common())
		if cl == nil || len(cl.Blocks) == 0 {
			return
		}
		dones := wgCalls(cl, "Done")
		if len(dones) == 0 {
			return
		}
		okDone := true
		for _, e := range Exits(cl) {
			if _, isPanic := e.(*ssa.Panic); isPanic {
				continue
			}
			if !MustPassFromEntry(cl, e, dones) {
				okDone = false
			}
		}
		r.Check(okDone, rule, cl, "WaitGroup.Done", cl.Pos(), "on every path of the goroutine", "a path of the goroutine ends without Done: the waiter blocks forever")
		// Add before go, within the same loop iteration
		okAdd := len(adds) > 0
		if okAdd {
			if hdr := loopHeaderOf(in.Block()); hdr != nil && len(hdr.Instrs) > 0 {
				okAdd = !reachAvoidingFromBlockStart(hdr, in, setOf(adds))
			} else {
				okAdd = MustPassFromEntry(fn, in, adds)
			}
		}
		r.Check(okAdd, rule, fn, "WaitGroup.Add before go", in.Pos(), "Add precedes the go statement on every path", "the goroutine calls Done without a preceding Add (negative counter panic, or Wait returns before the work is done)")
	})
}

func setOf(ins []ssa.Instruction) map[ssa.Instruction]bool {
	m := map[ssa.Instruction]bool{}
	for _, i := range ins {
		m[i] = true
	}
	return m
}

// hygieneNilErr (H4): the arm of an if statement that runs when an error value is nil uses that very value
// (`if err == nil { return x, err }`, `… { return fmt.Errorf("…: %v", err) }`, `… { http.Error(w, err.Error(), …) }`):
// an error-handling position entered on success — the signature of an inverted error test.
func hygieneNilErr(r *R, rule string, fn *ssa.Function) {
	for _, b := range fn.Blocks {
		iff, ok := lastInstr(b).(*ssa.If)
		if !ok || len(b.Succs) != 2 {
			continue
		}
		c, flip := stripNot(iff.Cond)
		bo, ok := c.(*ssa.BinOp)
		if !ok || (bo.Op != token.EQL && bo.Op != token.NEQ) {
			continue
		}
		var x ssa.Value
		if IsNilConst(bo.Y) {
			x = bo.X
		} else if IsNilConst(bo.X) {
			x = bo.Y
		} else {
			continue
		}
		if typeString(x.Type()) != "error" {
			continue
		}
		if _, isC := x.(*ssa.Const); isC {
			continue
		}
		eqOnTrue := (bo.Op == token.EQL) != flip
		nilSide := b.Succs[1]
		if eqOnTrue {
			nilSide = b.Succs[0]
		}
		// only the branch written under the test (then/else arm), not the code that follows the if statement
		if (nilSide.Comment != "if.then" && nilSide.Comment != "if.else") || len(nilSide.Preds) != 1 {
			continue
		}
		var use ssa.Instruction
		for _, in := range nilSide.Instrs {
			var buf [8]*ssa.Value
			for _, op := range in.Operands(buf[:0]) {
				if *op == x {
					use = in
				}
			}
			if use != nil {
				break
			}
		}
		r.Check(use == nil, rule, fn, "branch under "+describeShort(x)+" == nil", iff.Pos(), "the nil error is not used in the branch where it is known to be nil",
			"this branch runs when the error is nil and yet returns / formats / dereferences that error: the test is inverted (success is treated as failure, and a real failure falls through)")
	}
}

func describeShort(v ssa.Value) string {
	if c, idx := ResultOf(v); c != nil {
		return "err#" + itoa(idx) + " of " + bareName(CalleeName(c.Common()))
	}
	return v.Name()
}

// errFallThrough lists, for fn, the `if err != nil { … }` tests on a call's error result whose error side runs on
// into the success side (no return / continue / break / panic): sites where a failure is deliberately tolerated —
// or where the statement that ended the error path was lost.
type fallThrough struct {
	src string // callee of the error, or "<-chan" / "value" when it does not come straight from a call
	pos token.Pos
}

func errFallThrough(fn *ssa.Function) []fallThrough {
	var out []fallThrough
	seen := map[ssa.Value]bool{}
	for _, b := range fn.Blocks {
		iff, ok := lastInstr(b).(*ssa.If)
		if !ok || len(b.Succs) != 2 {
			continue
		}
		c, flip := stripNot(iff.Cond)
		bo, ok := c.(*ssa.BinOp)
		if !ok || (bo.Op != token.EQL && bo.Op != token.NEQ) {
			continue
		}
		var x ssa.Value
		if IsNilConst(bo.Y) {
			x = bo.X
		} else if IsNilConst(bo.X) {
			x = bo.Y
		} else {
			continue
		}
		if typeString(x.Type()) != "error" {
			continue
		}
		var call ssa.CallInstruction
		for _, l := range PhiLeaves(x) {
			if l == nil {
				continue
			}
			if cc, idx := ResultOf(l); cc != nil && idx == ErrIndex(cc.Common()) {
				call = cc
			} else if cc, ok := l.(*ssa.Call); ok && typeString(cc.Type()) == "error" {
				call = cc
			}
		}
		src, pos := "value", iff.Pos()
		if call != nil {
			src, pos = bareName(CalleeName(call.Common())), call.Pos()
		} else if u, isU := Strip(x).(*ssa.UnOp); isU && u.Op == token.ARROW {
			src = "<-chan"
		}
		if seen[x] {
			continue
		}
		neqOnTrue := (bo.Op == token.NEQ) != flip
		errSide, okSide := b.Succs[1], b.Succs[0]
		if neqOnTrue {
			errSide, okSide = b.Succs[0], b.Succs[1]
		}
		if errSide == okSide {
			seen[x] = true
			out = append(out, fallThrough{src, pos})
			continue
		}
		// forward reachability from the error side to the success side, not through a loop header enclosing the test
		visited := map[*ssa.BasicBlock]bool{}
		stack := []*ssa.BasicBlock{errSide}
		fall := false
		for len(stack) > 0 && !fall {
			n := stack[len(stack)-1]
			stack = stack[:len(stack)-1]
			if visited[n] {
				continue
			}
			visited[n] = true
			if n == okSide {
				fall = true
				break
			}
			handledSide := -1
			if iff2, isIf := lastInstr(n).(*ssa.If); isIf && n != b {
				// `err == ErrSomething` (a specific, non-nil error): the equal side is explicit handling of that
				// failure, not a fall-through
				c2, flip2 := stripNot(iff2.Cond)
				if bo2, isB := c2.(*ssa.BinOp); isB && (bo2.Op == token.EQL || bo2.Op == token.NEQ) {
					other := ssa.Value(nil)
					if bo2.X == x {
						other = bo2.Y
					} else if bo2.Y == x {
						other = bo2.X
					}
					if other != nil && !IsNilConst(other) {
						if (bo2.Op == token.EQL) != flip2 {
							handledSide = 0
						} else {
							handledSide = 1
						}
					}
				}
			}
			for i, s := range n.Succs {
				if s == b || s.Dominates(b) {
					continue // back edge: next iteration
				}
				if i == handledSide {
					continue
				}
				stack = append(stack, s)
			}
		}
		if fall {
			seen[x] = true
			out = append(out, fallThrough{src, pos})
		}
	}
	return out
}

// unusedErrors lists calls in fn whose error result is never read (no Extract of it / call value unused).
func unusedErrors(fn *ssa.Function) []*ssa.Call {
	var out []*ssa.Call
	allInstrs(fn, func(in ssa.Instruction) {
		c, ok := in.(*ssa.Call)
		if !ok {
			return
		}
		idx := ErrIndex(c.Common())
		if idx < 0 {
			return
		}
		used := false
		if tup, isT := c.Type().(*types.Tuple); isT && tup.Len() > 1 {
			for _, ref := range *c.Referrers() {
				if ex, ok := ref.(*ssa.Extract); ok && ex.Index == idx && len(*ex.Referrers()) > 0 {
					used = true
				}
			}
		} else {
			used = len(*c.Referrers()) > 0
		}
		if !used {
			out = append(out, c)
		}
	})
	return out
}

// hygieneLoopCapture (H7): a goroutine started inside a loop captures a variable that lives outside the loop
// body and is assigned again by later iterations (the loop variable of a pre-1.22 module, or any variable
// declared before the loop): every goroutine then works on whatever the last iteration left there.
func hygieneLoopCapture(r *R, rule string, fn *ssa.Function) {
	allInstrs(fn, func(in ssa.Instruction) {
		g, ok := in.(*ssa.Go)
		if !ok {
			return
		}
		mc, ok := g.Call.Value.(*ssa.MakeClosure)
		if !ok {
			return
		}
		hdr := loopHeaderOf(g.Block())
		if hdr == nil {
			return
		}
		body := loopBody(hdr)
		bad := ""
		for _, b := range mc.Bindings {
			al, ok := b.(*ssa.Alloc)
			if !ok || body[al.Block()] {
				continue // a per-iteration variable (declared inside the loop body)
			}
			// written inside the loop (directly, not through the closure)?
			for _, ref := range *al.Referrers() {
				if st, isS := ref.(*ssa.Store); isS && st.Addr == ssa.Value(al) && body[st.Block()] {
					// and read by the goroutine
					bad = al.Comment
				}
			}
		}
		r.Check(bad == "", rule, fn, "go func in loop", g.Pos(), "captures only per-iteration variables (or variables the loop does not reassign)",
			"the goroutine captures `"+bad+"`, which lives outside the loop body and is reassigned by later iterations: all goroutines see the last value")
	})
}
