package main

import (
	"embed"
	"fmt"
	"go/scanner"
	"go/token"
	"go/types"
	"io"
	"os"
	"reflect"
	"regexp"
	"sort"
	"strings"
	"sync"
	"unsafe"

	"golang.org/x/tools/go/ssa"
	"golang.org/x/tools/go/ssa/ssautil"
)

// Helper normalisation (second opinion before an alarm is raised).
//
// Every rule is written against the shape of one function body. Extracting a
// few lines into a small helper ("checksumOK()", "md5Hex(b)") leaves the
// behaviour — and the property — unchanged but hides the shape from the rule.
// Before a rule's failure becomes an alarm, the functions it looked at are
// therefore normalised: every static call to a small module-local helper that
// no rule knows by name is inlined at SSA level (the callee's blocks are
// cloned into the caller, parameters replaced by the arguments, returns by
// jumps to the continuation with phis for the results), and the rules run
// again. The inlined program is observationally equivalent to the original,
// and each rule is sound for any program, so "the rule passes on the
// normalised program" proves the clause for the original. A rule's verdict is
// a violation only if it fails on both forms.
//
// Not inlined (conservative): callees whose name occurs anywhere in the rule
// sources (the rules give those calls a meaning: lock wrappers, volume
// accesses, annotated "caller must hold lock" functions...), interface calls,
// closures and functions containing closures, defer/recover, generics,
// recursion, and bodies above the size bound.

//go:embed c*.go helpers.go lock.go match.go
var ruleSources embed.FS

var (
	ruleWordsOnce sync.Once
	ruleWords     map[string]bool
)

func knownToRules(name string) bool {
	ruleWordsOnce.Do(func() {
		ruleWords = map[string]bool{}
		re := regexp.MustCompile(`[A-Za-z_][A-Za-z0-9_]*`)
		ents, _ := ruleSources.ReadDir(".")
		for _, e := range ents {
			b, err := ruleSources.ReadFile(e.Name())
			if err != nil {
				continue
			}
			// identifiers of the code, and the words of string literals that are names (no blank inside: callee names,
			// field names, type names) — not the words of comments or of diagnostic messages
			var sc scanner.Scanner
			fset := token.NewFileSet()
			sc.Init(fset.AddFile(e.Name(), fset.Base(), len(b)), b, nil, 0)
			for {
				_, tok, lit := sc.Scan()
				if tok == token.EOF {
					break
				}
				switch tok {
				case token.IDENT:
					ruleWords[lit] = true
				case token.STRING:
					if strings.ContainsAny(lit, " \t") {
						continue
					}
					for _, w := range re.FindAllString(lit, -1) {
						ruleWords[w] = true
					}
				}
			}
		}
	})
	return ruleWords[name]
}

//go:linkname ssaBuildDomTree golang.org/x/tools/go/ssa.buildDomTree
func ssaBuildDomTree(f *ssa.Function)

//go:linkname ssaSanityCheck golang.org/x/tools/go/ssa.sanityCheck
func ssaSanityCheck(fn *ssa.Function, reporter io.Writer) bool

const (
	inlineMaxInstrs  = 600
	inlineMaxBlocks  = 120
	inlineMaxPerFunc = 60
)

func unexportedField(v reflect.Value, name string) unsafe.Pointer {
	f := v.FieldByName(name)
	if !f.IsValid() {
		panic("no field " + name + " in " + v.Type().String())
	}
	return unsafe.Pointer(f.UnsafeAddr())
}

func setInstrBlock(in ssa.Instruction, b *ssa.BasicBlock) {
	*(**ssa.BasicBlock)(unexportedField(reflect.ValueOf(in).Elem(), "block")) = b
}

func setBlockParent(b *ssa.BasicBlock, fn *ssa.Function) {
	*(**ssa.Function)(unexportedField(reflect.ValueOf(b).Elem(), "parent")) = fn
}

func setRegType(v ssa.Value, t types.Type) {
	*(*types.Type)(unexportedField(reflect.ValueOf(v).Elem(), "typ")) = t
}

func cloneInstr(in ssa.Instruction) ssa.Instruction {
	rv := reflect.ValueOf(in).Elem()
	nv := reflect.New(rv.Type())
	nv.Elem().Set(rv)
	ni := nv.Interface().(ssa.Instruction)
	switch x := ni.(type) {
	case *ssa.Call:
		x.Call.Args = append([]ssa.Value(nil), x.Call.Args...)
	case *ssa.Go:
		x.Call.Args = append([]ssa.Value(nil), x.Call.Args...)
	case *ssa.Defer:
		x.Call.Args = append([]ssa.Value(nil), x.Call.Args...)
	case *ssa.Phi:
		x.Edges = append([]ssa.Value(nil), x.Edges...)
	case *ssa.Return:
		x.Results = append([]ssa.Value(nil), x.Results...)
	case *ssa.MakeClosure:
		x.Bindings = append([]ssa.Value(nil), x.Bindings...)
	case *ssa.Select:
		st := make([]*ssa.SelectState, len(x.States))
		for i, s := range x.States {
			c := *s
			st[i] = &c
		}
		x.States = st
	}
	if v, ok := ni.(ssa.Value); ok {
		if r := v.Referrers(); r != nil {
			*r = nil
		}
	}
	return ni
}

func addReferrer(v ssa.Value, user ssa.Instruction) {
	if v == nil {
		return
	}
	if r := v.Referrers(); r != nil {
		*r = append(*r, user)
	}
}

func dropReferrer(v ssa.Value, user ssa.Instruction) {
	if v == nil {
		return
	}
	if r := v.Referrers(); r != nil {
		out := (*r)[:0]
		for _, u := range *r {
			if u != user {
				out = append(out, u)
			}
		}
		*r = out
	}
}

func replaceUses(old, new ssa.Value) {
	r := old.Referrers()
	if r == nil {
		return
	}
	users := append([]ssa.Instruction(nil), *r...)
	for _, u := range users {
		var buf [8]*ssa.Value
		hit := false
		for _, op := range u.Operands(buf[:0]) {
			if *op == old {
				*op = new
				hit = true
			}
		}
		if hit {
			addReferrer(new, u)
		}
	}
	*r = nil
}

func inlinable(caller, g *ssa.Function) bool { return inlinableAs(caller, g, false) }

// inlinableAs: localClosure = g is a function literal of caller itself, called directly at this site (its free
// variables are the bindings of the MakeClosure, which live in caller's scope).
func inlinableAs(caller, g *ssa.Function, localClosure bool) bool {
	if g == nil || g == caller || len(g.Blocks) == 0 || g.Pkg == nil || g.Pkg.Pkg == nil {
		return false
	}
	if !strings.HasPrefix(g.Pkg.Pkg.Path()+"/", modPrefix) {
		return false
	}
	if g.Recover != nil || len(g.AnonFuncs) != 0 || g.Synthetic != "" {
		return false
	}
	if localClosure {
		if g.Parent() != caller {
			return false
		}
	} else if len(g.FreeVars) != 0 || g.Parent() != nil {
		return false
	}
	if g.TypeParams().Len() != 0 || len(g.TypeArgs()) != 0 {
		return false
	}
	if !localClosure && knownToRules(g.Name()) {
		return false
	}
	if len(g.Blocks) > inlineMaxBlocks {
		return false
	}
	n := 0
	for _, b := range g.Blocks {
		if b != g.Blocks[0] && len(b.Preds) == 0 {
			return false // unreachable leftovers: keep it simple
		}
		for _, in := range b.Instrs {
			n++
			switch x := in.(type) {
			case *ssa.Defer, *ssa.RunDefers, *ssa.MakeClosure:
				return false
			case *ssa.Call:
				if x.Call.StaticCallee() == g {
					return false
				}
			}
		}
	}
	if len(g.Blocks[0].Preds) != 0 {
		return false
	}
	return n <= inlineMaxInstrs
}

// inlineCall replaces the static call c (in caller) by a clone of g's body.
func inlineCall(caller *ssa.Function, c *ssa.Call, g *ssa.Function) {
	B := c.Block()
	idx := -1
	for i, in := range B.Instrs {
		if in == c {
			idx = i
		}
	}
	if idx < 0 {
		panic("call not in its block")
	}
	// continuation block K
	K := &ssa.BasicBlock{Comment: "inl.cont"}
	setBlockParent(K, caller)
	K.Instrs = append([]ssa.Instruction(nil), B.Instrs[idx+1:]...)
	for _, in := range K.Instrs {
		setInstrBlock(in, K)
	}
	K.Succs = B.Succs
	for _, s := range K.Succs {
		for i, p := range s.Preds {
			if p == B {
				s.Preds[i] = K
			}
		}
	}
	B.Instrs = B.Instrs[:idx:idx]
	B.Succs = nil

	// clone g
	bmap := map[*ssa.BasicBlock]*ssa.BasicBlock{}
	vmap := map[ssa.Value]ssa.Value{}
	for i, p := range g.Params {
		vmap[p] = c.Call.Args[i]
	}
	if mc, ok := c.Call.Value.(*ssa.MakeClosure); ok {
		for i, fv := range g.FreeVars {
			vmap[fv] = mc.Bindings[i]
		}
	}
	var nblocks []*ssa.BasicBlock
	for _, ob := range g.Blocks {
		nb := &ssa.BasicBlock{Comment: "inl." + g.Name() + "." + ob.Comment}
		setBlockParent(nb, caller)
		bmap[ob] = nb
		nblocks = append(nblocks, nb)
	}
	var clones []ssa.Instruction
	for _, ob := range g.Blocks {
		nb := bmap[ob]
		for _, in := range ob.Instrs {
			ni := cloneInstr(in)
			setInstrBlock(ni, nb)
			nb.Instrs = append(nb.Instrs, ni)
			clones = append(clones, ni)
			if ov, ok := in.(ssa.Value); ok {
				vmap[ov] = ni.(ssa.Value)
			}
			if a, ok := ni.(*ssa.Alloc); ok && !a.Heap {
				caller.Locals = append(caller.Locals, a)
			}
		}
		for _, s := range ob.Succs {
			nb.Succs = append(nb.Succs, bmap[s])
		}
		for _, p := range ob.Preds {
			nb.Preds = append(nb.Preds, bmap[p])
		}
	}
	// rewrite operands
	for _, ni := range clones {
		var buf [8]*ssa.Value
		for _, op := range ni.Operands(buf[:0]) {
			if *op == nil {
				continue
			}
			if nv, ok := vmap[*op]; ok {
				*op = nv
			}
			addReferrer(*op, ni)
		}
	}
	// the call no longer uses its arguments
	{
		var buf [8]*ssa.Value
		for _, op := range c.Operands(buf[:0]) {
			if *op != nil {
				dropReferrer(*op, c)
			}
		}
	}
	// returns → jumps to K
	nres := g.Signature.Results().Len()
	type retInfo struct {
		blk  *ssa.BasicBlock
		vals []ssa.Value
	}
	var rets []retInfo
	for _, nb := range nblocks {
		if len(nb.Instrs) == 0 {
			continue
		}
		if ret, ok := nb.Instrs[len(nb.Instrs)-1].(*ssa.Return); ok {
			vals := append([]ssa.Value(nil), ret.Results...)
			for _, v := range vals {
				dropReferrer(v, ret)
			}
			j := &ssa.Jump{}
			setInstrBlock(j, nb)
			nb.Instrs[len(nb.Instrs)-1] = j
			nb.Succs = []*ssa.BasicBlock{K}
			K.Preds = append(K.Preds, nb)
			rets = append(rets, retInfo{nb, vals})
		}
	}
	// result values
	results := make([]ssa.Value, nres)
	if len(rets) == 1 {
		copy(results, rets[0].vals)
	} else if len(rets) > 1 {
		var phis []ssa.Instruction
		for i := 0; i < nres; i++ {
			phi := &ssa.Phi{Comment: "inl." + g.Name() + ".result"}
			setRegType(phi, g.Signature.Results().At(i).Type())
			setInstrBlock(phi, K)
			for _, ri := range rets {
				phi.Edges = append(phi.Edges, ri.vals[i])
				addReferrer(ri.vals[i], phi)
			}
			results[i] = phi
			phis = append(phis, phi)
		}
		K.Instrs = append(phis, K.Instrs...)
	}
	if len(rets) > 0 {
		if nres == 1 {
			replaceUses(c, results[0])
		} else if nres > 1 {
			users := append([]ssa.Instruction(nil), *c.Referrers()...)
			for _, u := range users {
				ex, ok := u.(*ssa.Extract)
				if !ok {
					panic("tuple call used by non-Extract")
				}
				replaceUses(ex, results[ex.Index])
				eb := ex.Block()
				for i, in := range eb.Instrs {
					if in == ssa.Instruction(ex) {
						eb.Instrs = append(eb.Instrs[:i:i], eb.Instrs[i+1:]...)
						break
					}
				}
			}
		}
	}
	// B → cloned entry
	entry := bmap[g.Blocks[0]]
	j := &ssa.Jump{}
	setInstrBlock(j, B)
	B.Instrs = append(B.Instrs, j)
	B.Succs = []*ssa.BasicBlock{entry}
	entry.Preds = []*ssa.BasicBlock{B}

	caller.Blocks = append(caller.Blocks, nblocks...)
	caller.Blocks = append(caller.Blocks, K)

	// fuse straight-line joints so the result looks like hand-inlined code
	fuse := func(p *ssa.BasicBlock) {
		for {
			if len(p.Succs) != 1 {
				return
			}
			s := p.Succs[0]
			if s == p || len(s.Preds) != 1 || s == caller.Blocks[0] || s == caller.Recover {
				return
			}
			if _, ok := p.Instrs[len(p.Instrs)-1].(*ssa.Jump); !ok {
				return
			}
			// single-pred block cannot hold meaningful phis; replace them
			keep := s.Instrs[:0:0]
			for _, in := range s.Instrs {
				if phi, ok := in.(*ssa.Phi); ok {
					for _, e := range phi.Edges {
						dropReferrer(e, phi)
					}
					replaceUses(phi, phi.Edges[0])
					continue
				}
				keep = append(keep, in)
			}
			p.Instrs = append(p.Instrs[:len(p.Instrs)-1:len(p.Instrs)-1], keep...)
			for _, in := range keep {
				setInstrBlock(in, p)
			}
			p.Succs = s.Succs
			for _, ss := range p.Succs {
				for i, pp := range ss.Preds {
					if pp == s {
						ss.Preds[i] = p
					}
				}
			}
			// drop s
			out := caller.Blocks[:0]
			for _, b := range caller.Blocks {
				if b != s {
					out = append(out, b)
				}
			}
			caller.Blocks = out
			s.Instrs, s.Succs, s.Preds = nil, nil, nil
		}
	}
	fuse(B)
	for _, ri := range rets {
		if len(ri.blk.Instrs) > 0 { // not already swallowed
			fuse(ri.blk)
		}
	}
	if len(rets) == 0 {
		// callee never returns (always panics): K is unreachable; remove it unless it has other preds (it has none)
		out := caller.Blocks[:0]
		for _, b := range caller.Blocks {
			if b != K {
				out = append(out, b)
			}
		}
		caller.Blocks = out
		for _, s := range K.Succs {
			np := s.Preds[:0]
			removed := -1
			for i, p := range s.Preds {
				if p == K && removed < 0 {
					removed = i
					continue
				}
				np = append(np, p)
			}
			s.Preds = np
			if removed >= 0 {
				for _, in := range s.Instrs {
					if phi, ok := in.(*ssa.Phi); ok {
						dropReferrer(phi.Edges[removed], phi)
						phi.Edges = append(phi.Edges[:removed:removed], phi.Edges[removed+1:]...)
					}
				}
			}
		}
	}
	for i, b := range caller.Blocks {
		b.Index = i
	}
}

// NormaliseHelpers inlines eligible helper calls in fns (and their closures). Returns the inlined sites.
func (w *World) NormaliseHelpers(fns []*ssa.Function) []string {
	var sites []string
	inlinedCallees := map[*ssa.Function]bool{}
	seen := map[*ssa.Function]bool{}
	var all []*ssa.Function
	var add func(f *ssa.Function)
	add = func(f *ssa.Function) {
		if f == nil || seen[f] || len(f.Blocks) == 0 {
			return
		}
		seen[f] = true
		all = append(all, f)
		for _, a := range f.AnonFuncs {
			add(a)
		}
	}
	for _, f := range fns {
		add(rootFn(f))
	}
	for _, f := range all {
		count := 0
		changed := true
		for changed && count < inlineMaxPerFunc {
			changed = false
		scan:
			for _, b := range f.Blocks {
				for _, in := range b.Instrs {
					c, ok := in.(*ssa.Call)
					if !ok || c.Call.IsInvoke() {
						continue
					}
					g := c.Call.StaticCallee()
					if mc, isMC := c.Call.Value.(*ssa.MakeClosure); isMC {
						// a function literal of f called directly (`discard := func(err error) error {…}; return discard(err)`)
						if mc.Parent() != f || !inlinableAs(f, g, true) {
							continue
						}
					} else if !inlinable(f, g) {
						continue
					}
					if g.Signature.Results().Len() > 1 {
						okUse := true
						for _, u := range *c.Referrers() {
							if _, ok := u.(*ssa.Extract); !ok {
								okUse = false
							}
						}
						if !okUse {
							continue
						}
					}
					sites = append(sites, fmt.Sprintf("%s ← %s at %s", fnShort(f), fnShort(g), w.Pos(c.Pos())))
					inlineCall(f, c, g)
					inlinedCallees[g] = true
					count++
					changed = true
					break scan
				}
			}
		}
		if fw := removeForwarders(f); fw > 0 {
			sites = append(sites, fmt.Sprintf("%s: %d forwarding block(s) of merged values removed", fnShort(f), fw))
			count += fw
		}
		if count > 0 {
			ssaBuildDomTree(f)
			if os.Getenv("ARVCHECK_INLINE_DEBUG") != "" {
				var sb strings.Builder
				if !ssaSanityCheck(f, &sb) || sb.Len() > 0 {
					fmt.Printf("INLINE SANITY %s:\n%s\n", f, sb.String())
				}
			}
		}
	}
	globalFuncMu.Lock()
	globalFuncCache = map[*ssa.Global]*ssa.Function{}
	globalFuncMu.Unlock()
	w.dropDeadHelpers(inlinedCallees)
	invalidateSiteIndex(w.Prog)
	return sites
}

// dropDeadHelpers removes from the function index every inlined helper that nothing refers to any more: an
// unexported function (or an unexported method no interface of its package asks for) that is not called,
// passed or stored anywhere in the loaded program cannot run, so package-wide rules need not visit its body
// (its code now lives in its former callers, where the rules do see it).
func (w *World) dropDeadHelpers(cands map[*ssa.Function]bool) {
	if len(cands) == 0 {
		return
	}
	used := map[*ssa.Function]bool{}
	for fn := range ssautilAll(w) {
		for _, b := range fn.Blocks {
			for _, in := range b.Instrs {
				var buf [8]*ssa.Value
				for _, op := range in.Operands(buf[:0]) {
					if g, ok := (*op).(*ssa.Function); ok && cands[g] && fn != g {
						used[g] = true
					}
				}
			}
		}
	}
	for g := range cands {
		if used[g] || g.Object() == nil || g.Object().Exported() {
			continue
		}
		if g.Signature.Recv() != nil {
			asked := false
			sc := g.Pkg.Pkg.Scope()
			for _, n := range sc.Names() {
				if tn, ok := sc.Lookup(n).(*types.TypeName); ok {
					if it, ok := tn.Type().Underlying().(*types.Interface); ok {
						for i := 0; i < it.NumMethods(); i++ {
							if it.Method(i).Name() == g.Name() {
								asked = true
							}
						}
					}
				}
			}
			if asked {
				continue
			}
		}
		delete(w.funcs, shortName(g.String()))
		w.Dropped = append(w.Dropped, fnShort(g))
	}
}

func ssautilAll(w *World) map[*ssa.Function]bool {
	return ssautil.AllFunctions(w.Prog)
}

// failingRules: rules with an unlisted violation, an undecided obligation or an unmet floor.
func (r *R) failingRules(verifDir string) map[string]bool {
	out := map[string]bool{}
	counts := r.floorCounts()
	known, _ := loadKnown(verifDir + "/known_findings.txt")
	for _, o := range r.Obs {
		switch o.Status {
		case Undecided:
			out[o.Rule] = true
		case Violation:
			isKnown := false
			for _, k := range known {
				if k.Prop == r.Prop && k.Key == o.Key() {
					isKnown = true
				}
			}
			if !isKnown {
				out[o.Rule] = true
			}
		}
	}
	for _, id := range r.ruleSeq {
		if counts[id] < r.floors[id] {
			out[id] = true
		}
	}
	return out
}

// RunProperty runs the property's rules; if a rule fails, the functions the run looked at are normalised
// (helpers inlined) and the rules run again; a rule that passes on the normalised program is taken from that run.
func RunProperty(w *World, pd *propDef, tier, verifDir string) *R {
	r := NewR(w, pd.ID, tier)
	pd.Run(r)
	failing := r.failingRules(verifDir)
	if len(failing) == 0 || os.Getenv("ARVCHECK_NO_NORMALISE") != "" {
		return r
	}
	var fns []*ssa.Function
	seen := map[*ssa.Function]bool{}
	for _, o := range r.Obs {
		fn := w.Fn(o.Func)
		if fn == nil {
			continue
		}
		fn = rootFn(fn)
		if !seen[fn] {
			seen[fn] = true
			fns = append(fns, fn)
		}
	}
	for _, fn := range r.Anchors {
		fn = rootFn(fn)
		if !seen[fn] {
			seen[fn] = true
			fns = append(fns, fn)
		}
	}
	// a failing obligation may sit in a helper that was split off from an anchored function: its callers are
	// normalised too, so that the helper's body is judged where it runs
	failFns := map[*ssa.Function]bool{}
	for _, o := range r.Obs {
		if (o.Status == Violation || o.Status == Undecided) && failing[o.Rule] {
			if fn := w.Fn(o.Func); fn != nil {
				failFns[rootFn(fn)] = true
			}
		}
	}
	for round := 0; round < 2 && len(failFns) > 0; round++ {
		next := map[*ssa.Function]bool{}
		for _, cf := range w.funcs {
			for _, b := range cf.Blocks {
				for _, in := range b.Instrs {
					if c, ok := in.(*ssa.Call); ok {
						if g := c.Call.StaticCallee(); g != nil && failFns[g] && !seen[rootFn(cf)] {
							seen[rootFn(cf)] = true
							fns = append(fns, rootFn(cf))
							next[rootFn(cf)] = true
						}
					}
				}
			}
		}
		failFns = next
	}
	sort.Slice(fns, func(i, j int) bool { return fns[i].String() < fns[j].String() })
	sites := w.NormaliseHelpers(fns)
	if len(sites) == 0 {
		return r
	}
	r2 := NewR(w, pd.ID, tier)
	pd.Run(r2)
	failing2 := r2.failingRules(verifDir)
	if os.Getenv("ARVCHECK_INLINE_DEBUG") != "" {
		for _, o := range r2.Obs {
			if o.Status == Violation || o.Status == Undecided {
				fmt.Printf("INLINE pass2 %s %s at %s — %s\n", o.Status, o.Key(), o.Pos, o.Detail)
			}
		}
	}
	var merged []Ob
	var rescued []string
	for _, id := range r.ruleSeq {
		src, tag := r, ""
		if failing[id] && !failing2[id] {
			src, tag = r2, "[decided on the helper-inlined form] "
			rescued = append(rescued, id)
		}
		for _, o := range src.Obs {
			if o.Rule == id {
				if tag != "" {
					o.Detail = tag + o.Detail
				}
				merged = append(merged, o)
			}
		}
	}
	r.Obs = merged
	r.Extra["helper_normalisation"] = map[string]interface{}{
		"why":           "a rule failed on the program as written; small module-local helpers unknown to the rules were inlined at SSA level in the functions examined and the rules were run again; a rule is a violation only if it fails on both forms",
		"inlined_sites": sites,
		"rules_rescued": rescued,
		"rules_failing": len(failing) - len(rescued),
	}
	return r
}

// removeForwarders deletes blocks that consist only of phis and a jump and whose phis are used solely by the phis
// of their successor (`x = a || b` assigned inside an `if` and merged again right after): the predecessors are
// connected to the successor directly and the successor's phis take the forwarded operands. The branch on the
// merged value is then decided per arrival edge by the walker, exactly as if the source had spelled out the
// if / else-if chain. Returns the number of blocks removed.
func removeForwarders(f *ssa.Function) int {
	n := 0
	for changed := true; changed; {
		changed = false
	scan:
		for _, P := range f.Blocks {
			if P == f.Blocks[0] || P == f.Recover || len(P.Succs) != 1 || len(P.Preds) < 2 || len(P.Instrs) == 0 {
				continue
			}
			S := P.Succs[0]
			if S == P {
				continue
			}
			if _, ok := P.Instrs[len(P.Instrs)-1].(*ssa.Jump); !ok {
				continue
			}
			var phis []*ssa.Phi
			for _, in := range P.Instrs[:len(P.Instrs)-1] {
				p, ok := in.(*ssa.Phi)
				if !ok {
					continue scan
				}
				phis = append(phis, p)
			}
			if len(phis) == 0 {
				continue
			}
			idxP := -1
			for i, q := range S.Preds {
				if q == P {
					if idxP >= 0 {
						continue scan
					}
					idxP = i
				}
			}
			if idxP < 0 {
				continue
			}
			for _, q := range P.Preds {
				for _, sp := range S.Preds {
					if sp == q {
						continue scan // would create a duplicate edge
					}
				}
				cnt := 0
				for _, s := range q.Succs {
					if s == P {
						cnt++
					}
				}
				if cnt != 1 {
					continue scan
				}
			}
			for _, p := range phis {
				for _, ref := range *p.Referrers() {
					q, ok := ref.(*ssa.Phi)
					if !ok || q.Block() != S {
						continue scan
					}
					for i, e := range q.Edges {
						if e == ssa.Value(p) && i != idxP {
							continue scan
						}
					}
				}
			}
			// rewrite S's phis
			for _, in := range S.Instrs {
				q, ok := in.(*ssa.Phi)
				if !ok {
					break
				}
				v := q.Edges[idxP]
				var ins []ssa.Value
				for j := range P.Preds {
					if pp, isP := v.(*ssa.Phi); isP && pp.Block() == P {
						ins = append(ins, pp.Edges[j])
						addReferrer(pp.Edges[j], q)
					} else {
						ins = append(ins, v)
					}
				}
				if pp, isP := v.(*ssa.Phi); isP && pp.Block() == P {
					dropReferrer(pp, q)
				}
				ne := append([]ssa.Value(nil), q.Edges[:idxP]...)
				ne = append(ne, ins...)
				ne = append(ne, q.Edges[idxP+1:]...)
				q.Edges = ne
			}
			np := append([]*ssa.BasicBlock(nil), S.Preds[:idxP]...)
			np = append(np, P.Preds...)
			np = append(np, S.Preds[idxP+1:]...)
			S.Preds = np
			for _, q := range P.Preds {
				for i, s := range q.Succs {
					if s == P {
						q.Succs[i] = S
					}
				}
			}
			for _, p := range phis {
				for _, e := range p.Edges {
					dropReferrer(e, p)
				}
			}
			out := f.Blocks[:0]
			for _, b := range f.Blocks {
				if b != P {
					out = append(out, b)
				}
			}
			f.Blocks = out
			P.Instrs, P.Succs, P.Preds = nil, nil, nil
			for i, b := range f.Blocks {
				b.Index = i
			}
			n++
			changed = true
			break
		}
	}
	return n
}
