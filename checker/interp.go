package main

import (
	"go/token"
	"go/types"

	"golang.org/x/tools/go/ssa"
)

// A small finite-domain interpreter over the SSA form of a loop-free region of pure integer code
// (TABLE family). Nothing of the repository is executed: the region's own data-flow expressions
// (constants, + - * / %, comparisons, phis, conversions) are evaluated for chosen values of a few
// named leaves ("symbols"), following the region's branches. It is used to compare a formula in the
// code with the formula the property states, on a grid of values around the formula's boundaries,
// without fixing the *shape* in which the formula is written (max(a,b)+b, if/else, temporaries …).
//
// Anything that is not integer arithmetic on symbols and constants makes the evaluation fail
// (ok=false → the rule reports UNDECIDED): there is no heap, no calls, no loops.

type ienv struct {
	sym  func(ssa.Value) (int64, bool)
	prev map[*ssa.BasicBlock]*ssa.BasicBlock
	memo map[ssa.Value]int64
}

func newIenv(sym func(ssa.Value) (int64, bool)) *ienv {
	return &ienv{sym: sym, prev: map[*ssa.BasicBlock]*ssa.BasicBlock{}, memo: map[ssa.Value]int64{}}
}

func (e *ienv) phiEdge(p *ssa.Phi) (ssa.Value, bool) {
	pb := p.Block()
	pr, ok := e.prev[pb]
	if !ok {
		return nil, false
	}
	for i, q := range pb.Preds {
		if q == pr {
			return p.Edges[i], true
		}
	}
	return nil, false
}

func (e *ienv) eval(v ssa.Value) (int64, bool) {
	if n, ok := e.sym(v); ok {
		return n, true
	}
	if n, ok := e.memo[v]; ok {
		return n, true
	}
	n, ok := e.eval1(v)
	if ok {
		e.memo[v] = n
	}
	return n, ok
}

func (e *ienv) eval1(v ssa.Value) (int64, bool) {
	switch x := v.(type) {
	case *ssa.Const:
		if b, ok := ConstBool(x); ok {
			if b {
				return 1, true
			}
			return 0, true
		}
		return ConstInt(x)
	case *ssa.Convert:
		if isIntType(x.Type()) && isIntType(x.X.Type()) {
			return e.eval(x.X)
		}
	case *ssa.ChangeType:
		return e.eval(x.X)
	case *ssa.Phi:
		ed, ok := e.phiEdge(x)
		if !ok {
			return 0, false
		}
		return e.eval(ed)
	case *ssa.UnOp:
		switch x.Op {
		case token.SUB:
			n, ok := e.eval(x.X)
			return -n, ok
		case token.NOT:
			n, ok := e.eval(x.X)
			return 1 - n, ok
		}
	case *ssa.BinOp:
		a, ok1 := e.eval(x.X)
		b, ok2 := e.eval(x.Y)
		if !ok1 || !ok2 {
			return 0, false
		}
		bi := func(c bool) (int64, bool) {
			if c {
				return 1, true
			}
			return 0, true
		}
		switch x.Op {
		case token.ADD:
			return a + b, true
		case token.SUB:
			return a - b, true
		case token.MUL:
			return a * b, true
		case token.QUO:
			if b == 0 {
				return 0, false
			}
			return a / b, true
		case token.REM:
			if b == 0 {
				return 0, false
			}
			return a % b, true
		case token.LSS:
			return bi(a < b)
		case token.LEQ:
			return bi(a <= b)
		case token.GTR:
			return bi(a > b)
		case token.GEQ:
			return bi(a >= b)
		case token.EQL:
			return bi(a == b)
		case token.NEQ:
			return bi(a != b)
		}
	}
	return 0, false
}

func isIntType(t types.Type) bool {
	b, ok := t.Underlying().(*types.Basic)
	return ok && b.Info()&types.IsInteger != 0
}

// runFrom follows the control flow from the start of block b (arriving from `from`, which may be nil
// when b has no phis that matter) until a Return, evaluating branch conditions in the environment.
// It returns the Return reached; ok=false when a condition cannot be evaluated, the walk re-enters a
// block (a loop) or exceeds a step bound.
func (e *ienv) runFrom(from, b *ssa.BasicBlock) (*ssa.Return, bool) {
	seen := map[*ssa.BasicBlock]bool{}
	if from != nil {
		e.prev[b] = from
	}
	for steps := 0; steps < 256; steps++ {
		if seen[b] {
			return nil, false
		}
		seen[b] = true
		switch t := lastInstr(b).(type) {
		case *ssa.Return:
			return t, true
		case *ssa.Jump:
			e.prev[b.Succs[0]] = b
			b = b.Succs[0]
		case *ssa.If:
			c, ok := e.eval(t.Cond)
			if !ok {
				return nil, false
			}
			nb := b.Succs[1]
			if c != 0 {
				nb = b.Succs[0]
			}
			e.prev[nb] = b
			b = nb
		default:
			return nil, false
		}
	}
	return nil, false
}
