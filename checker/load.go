package main

import (
	_ "embed"
	"fmt"
	"go/token"
	"go/types"
	"os"
	"sort"
	"strings"
	"sync"
	"time"

	"golang.org/x/tools/go/packages"
	"golang.org/x/tools/go/ssa"
	"golang.org/x/tools/go/ssa/ssautil"
)

const modPrefix = "git.arvados.org/arvados.git/"

// World is the loaded, type-checked and SSA-built view of /repo's working tree.
type World struct {
	RepoDir  string
	Fset     *token.FileSet
	Roots    []*packages.Package
	All      map[string]*packages.Package
	Prog     *ssa.Program
	funcs    map[string]*ssa.Function
	NPkgs    int
	NFuncs   int
	LoadErrs []string
	Dropped  []string // helpers removed from the index by the normaliser (fully inlined, unreferenced)
}

// packages whose type errors are tolerated: cgo packages whose C headers are
// absent in this sandbox, and the files that depend on them. None contains an
// anchored function.
var tolerated = []string{
	"github.com/msteinert/pam",
	"github.com/arvados/cgofuse/fuse",
	modPrefix + "lib/pam",
	modPrefix + "lib/mount",
	modPrefix + "lib/controller/localdb",
}

func toleratedErr(pkgPath string, msg string) bool {
	for _, t := range tolerated {
		if pkgPath == t {
			if pkgPath == modPrefix+"lib/controller/localdb" {
				// only the pam file
				return strings.Contains(msg, "login_pam.go") || strings.Contains(msg, "msteinert/pam")
			}
			return true
		}
	}
	return false
}

//go:embed stubs/pam_transaction.go.txt
var pamStub []byte

// cgoStubModfile makes a temporary copy of /repo's go.mod with one extra line
// replacing github.com/msteinert/pam (a cgo package whose C headers are absent
// here) by a type-only Go stub, so that everything importing it —
// lib/controller/localdb and, transitively, lib/controller and
// lib/controller/federation — type-checks and gets SSA. /repo's own files are
// never replaced and /repo is not written to. Returns the -modfile build flag
// and a cleanup function.
func cgoStubModfile(repo string) ([]string, func()) {
	gomod, err := os.ReadFile(repo + "/go.mod")
	if err != nil {
		return nil, func() {}
	}
	gosum, _ := os.ReadFile(repo + "/go.sum")
	tmp, err := os.MkdirTemp("", "arvcheck-mod-")
	if err != nil {
		return nil, func() {}
	}
	cleanup := func() { os.RemoveAll(tmp) }
	os.MkdirAll(tmp+"/pam", 0o755)
	os.WriteFile(tmp+"/pam/go.mod", []byte("module github.com/msteinert/pam\n\ngo 1.13\n"), 0o644)
	os.WriteFile(tmp+"/pam/pam.go", pamStub, 0o644)
	mod := string(gomod) + "\nreplace github.com/msteinert/pam => " + tmp + "/pam\n"
	if os.WriteFile(tmp+"/go.mod", []byte(mod), 0o644) != nil {
		cleanup()
		return nil, func() {}
	}
	os.WriteFile(tmp+"/go.sum", gosum, 0o644)
	return []string{"-modfile=" + tmp + "/go.mod"}, cleanup
}

// Load type-checks the given package patterns (relative to the repo, e.g.
// "./services/keepstore") with full syntax for the whole import closure and
// builds SSA for everything.
func Load(repo string, patterns []string, tests bool, overlay map[string][]byte) (*World, error) {
	os.Unsetenv("GOWORK")
	env := append(os.Environ(),
		"GOFLAGS=-mod=mod", "GOPROXY=off", "GOSUMDB=off", "GOTOOLCHAIN=local", "GOWORK=off")
	t0 := time.Now()
	flags, cleanup := cgoStubModfile(repo)
	defer cleanup()
	fset := token.NewFileSet()
	cfg := &packages.Config{
		Mode:       packages.LoadAllSyntax,
		Dir:        repo,
		Fset:       fset,
		Tests:      tests,
		Env:        env,
		Overlay:    overlay,
		BuildFlags: flags,
	}
	roots, err := packages.Load(cfg, patterns...)
	if err != nil {
		return nil, fmt.Errorf("packages.Load: %v", err)
	}
	if len(roots) == 0 {
		return nil, fmt.Errorf("no packages matched %v", patterns)
	}
	w := &World{RepoDir: repo, Fset: fset, Roots: roots, All: map[string]*packages.Package{}}
	var fatal []string
	packages.Visit(roots, nil, func(p *packages.Package) {
		w.All[p.ID] = p
		w.NPkgs++
		for _, e := range p.Errors {
			msg := e.Error()
			if toleratedErr(p.PkgPath, msg) {
				w.LoadErrs = append(w.LoadErrs, "tolerated: "+msg)
				continue
			}
			fatal = append(fatal, p.PkgPath+": "+msg)
		}
	})
	if len(fatal) > 0 {
		sort.Strings(fatal)
		if len(fatal) > 20 {
			fatal = fatal[:20]
		}
		return nil, fmt.Errorf("type-check errors (undecided):\n  %s", strings.Join(fatal, "\n  "))
	}
	prog, _ := ssautil.AllPackages(roots, ssa.InstantiateGenerics)
	// Function bodies are only needed for the repository's own packages; dependencies keep their
	// declarations (types, signatures) but are not lowered to SSA instructions.
	t1 := time.Now()
	var wg sync.WaitGroup
	for _, p := range prog.AllPackages() {
		if p.Pkg != nil && strings.HasPrefix(p.Pkg.Path(), strings.TrimSuffix(modPrefix, "/")) {
			wg.Add(1)
			go func(p *ssa.Package) { defer wg.Done(); p.Build() }(p)
		}
	}
	wg.Wait()
	if os.Getenv("ARVCHECK_TIMING") != "" {
		fmt.Fprintf(os.Stderr, "timing: load+typecheck %.1fs, ssa build %.1fs\n", t1.Sub(t0).Seconds(), time.Since(t1).Seconds())
	}
	w.Prog = prog
	w.indexFuncs()
	if w.NFuncs == 0 {
		return nil, fmt.Errorf("no SSA functions built")
	}
	return w, nil
}

// indexFuncs (re)builds the name → function index of the program.
func (w *World) indexFuncs() {
	w.funcs = map[string]*ssa.Function{}
	w.NFuncs = 0
	for fn := range ssautil.AllFunctions(w.Prog) {
		w.NFuncs++
		if fn.Pkg == nil && fn.Parent() == nil && fn.Synthetic != "" {
			continue
		}
		w.funcs[shortName(fn.String())] = fn
	}
}

func shortName(s string) string {
	return strings.ReplaceAll(s, modPrefix, "")
}

// Fn finds a source function by its short SSA name, e.g.
// "services/keepstore.GetBlock" or "(*services/keepstore.UnixVolume).Trash".
func (w *World) Fn(name string) *ssa.Function {
	return w.funcs[name]
}

// Pkg returns the root or dependency package with the given short path.
func (w *World) Pkg(short string) *packages.Package {
	for _, p := range w.All {
		if p.PkgPath == modPrefix+short || p.PkgPath == short {
			if strings.HasSuffix(p.ID, ".test") || strings.Contains(p.ID, " [") {
				continue
			}
			return p
		}
	}
	return nil
}

func (w *World) SSAPkg(short string) *ssa.Package {
	p := w.Pkg(short)
	if p == nil || p.Types == nil {
		return nil
	}
	return w.Prog.Package(p.Types)
}

// FuncsIn lists every source function (incl. methods and closures) of a package.
func (w *World) FuncsIn(short string) []*ssa.Function {
	var out []*ssa.Function
	full := modPrefix + short
	for _, fn := range w.funcs {
		if fn.Synthetic != "" {
			continue
		}
		p := fn.Package()
		if p == nil || p.Pkg == nil {
			continue
		}
		if p.Pkg.Path() == full || p.Pkg.Path() == short {
			out = append(out, fn)
		}
	}
	sort.Slice(out, func(i, j int) bool { return out[i].String() < out[j].String() })
	return out
}

// Closures returns all anonymous functions nested (transitively) in fn.
func Closures(fn *ssa.Function) []*ssa.Function {
	var out []*ssa.Function
	for _, a := range fn.AnonFuncs {
		out = append(out, a)
		out = append(out, Closures(a)...)
	}
	return out
}

func (w *World) Pos(p token.Pos) string {
	if !p.IsValid() {
		return "-"
	}
	pp := w.Fset.Position(p)
	f := strings.TrimPrefix(pp.Filename, w.RepoDir+"/")
	return fmt.Sprintf("%s:%d", f, pp.Line)
}

// NamedType finds a named type "services/keepstore.UnixVolume".
func (w *World) NamedType(short string) *types.Named {
	i := strings.LastIndex(short, ".")
	if i < 0 {
		return nil
	}
	p := w.Pkg(short[:i])
	if p == nil || p.Types == nil {
		return nil
	}
	obj := p.Types.Scope().Lookup(short[i+1:])
	if obj == nil {
		return nil
	}
	n, _ := obj.Type().(*types.Named)
	return n
}
