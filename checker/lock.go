package main

import (
	"go/token"
	"go/types"
	"sort"

	"golang.org/x/tools/go/ssa"
)

// Lock modes, ordered: a meet is the minimum.
const (
	lkNone = 0
	lkR    = 1
	lkW    = 2
)

// LockClass describes one lock (or a set of names for the same lock).
type LockClass struct {
	Name string
	// Classify returns op for a call: +2 Lock, +1 RLock, -2 Unlock, -1 RUnlock, 0 unrelated.
	Classify func(c *ssa.CallCommon) int
	// Annotated functions: entered with the lock held (mode).
	Annotated map[string]int
}

// mutexOp recognises sync.Mutex/RWMutex/Locker method calls and returns the op and the receiver value.
func mutexOp(c *ssa.CallCommon) (int, ssa.Value) {
	name := CalleeName(c)
	var op int
	switch name {
	case "(*sync.RWMutex).Lock", "(*sync.Mutex).Lock", "(sync.Locker).Lock":
		op = 2
	case "(*sync.RWMutex).RLock":
		op = 1
	case "(*sync.RWMutex).Unlock", "(*sync.Mutex).Unlock", "(sync.Locker).Unlock":
		op = -2
	case "(*sync.RWMutex).RUnlock":
		op = -1
	default:
		return 0, nil
	}
	if c.IsInvoke() {
		return op, c.Value
	}
	return op, c.Args[0]
}

// LockStates computes, for every instruction of fn, the lock mode held just
// before it (must-analysis; merge = minimum). entry is the mode at function entry.
type LockStates struct {
	fn    *ssa.Function
	in    map[*ssa.BasicBlock]int
	class *LockClass
}

func ComputeLocks(fn *ssa.Function, class *LockClass, entry int) *LockStates {
	ls := &LockStates{fn: fn, in: map[*ssa.BasicBlock]int{}, class: class}
	if len(fn.Blocks) == 0 {
		return ls
	}
	const top = 99
	out := map[*ssa.BasicBlock]int{}
	for _, b := range fn.Blocks {
		ls.in[b] = top
		out[b] = top
	}
	ls.in[fn.Blocks[0]] = entry
	changed := true
	for changed {
		changed = false
		for _, b := range fn.Blocks {
			in := ls.in[b]
			if b != fn.Blocks[0] {
				in = top
				for _, p := range b.Preds {
					if out[p] < in {
						in = out[p]
					}
				}
			} else {
				in = entry
				for _, p := range b.Preds {
					if out[p] < in {
						in = out[p]
					}
				}
			}
			st := in
			for _, ins := range b.Instrs {
				st = ls.transfer(st, ins)
			}
			if in != ls.in[b] || st != out[b] {
				ls.in[b] = in
				out[b] = st
				changed = true
			}
		}
	}
	return ls
}

func (ls *LockStates) transfer(st int, ins ssa.Instruction) int {
	if st == 99 {
		return st
	}
	c, ok := ins.(*ssa.Call)
	if !ok {
		return st // Defer of Unlock: lock stays held until exit; Go: separate goroutine
	}
	switch ls.class.Classify(c.Common()) {
	case 2:
		return lkW
	case 1:
		if st < lkR {
			return lkR
		}
		return st
	case -2, -1:
		return lkNone
	}
	return st
}

// At returns the lock mode held just before ins.
func (ls *LockStates) At(ins ssa.Instruction) int {
	b := ins.Block()
	st := ls.in[b]
	if st == 99 {
		return lkW // unreachable code: vacuous
	}
	for _, x := range b.Instrs {
		if x == ins {
			return st
		}
		st = ls.transfer(st, x)
	}
	return st
}

// Access is one read or write of a guarded field.
type Access struct {
	Instr ssa.Instruction
	Type  string
	Field string
	Write bool
	Base  ssa.Value
	What  string
}

// FieldAccesses finds reads/writes of fields typ.{fields} in fn: direct
// stores/loads, and map/slice element updates, deletes, lookups and ranges on
// a container loaded from the field.
func FieldAccesses(fn *ssa.Function, guarded map[string]map[string]bool) []Access {
	var out []Access
	isG := func(v ssa.Value) (string, string, ssa.Value, bool) {
		t, f, base, ok := FieldName(v)
		if ok && guarded[t] != nil && guarded[t][f] {
			return t, f, base, true
		}
		return "", "", nil, false
	}
	allInstrs(fn, func(in ssa.Instruction) {
		switch x := in.(type) {
		case *ssa.Store:
			if t, f, b, ok := isG(x.Addr); ok {
				out = append(out, Access{in, t, f, true, b, "store"})
			}
			// element store through &field[i] or &(*field)[i]
			if ia, ok := x.Addr.(*ssa.IndexAddr); ok {
				if t, f, b, ok := LoadedField(ia.X); ok && guarded[t] != nil && guarded[t][f] {
					out = append(out, Access{in, t, f, true, b, "elem store"})
				}
			}
		case *ssa.UnOp:
			if x.Op == token.MUL {
				if t, f, b, ok := isG(x.X); ok {
					// a load feeding only a MapUpdate/delete is classified there; still a read
					out = append(out, Access{in, t, f, false, b, "load"})
				}
			}
		case *ssa.MapUpdate:
			if t, f, b, ok := LoadedField(x.Map); ok && guarded[t] != nil && guarded[t][f] {
				out = append(out, Access{in, t, f, true, b, "map update"})
			}
		case *ssa.Call:
			if bi, ok := x.Call.Value.(*ssa.Builtin); ok && bi.Name() == "delete" {
				if t, f, b, ok := LoadedField(x.Call.Args[0]); ok && guarded[t] != nil && guarded[t][f] {
					out = append(out, Access{in, t, f, true, b, "map delete"})
				}
			}
			if CalleeName(x.Common()) == "sync/atomic.AddInt64" || CalleeName(x.Common()) == "sync/atomic.StoreInt64" {
				return
			}
		}
	})
	return out
}

// isFreshObject: base derives from an allocation in the same function (object under construction, not yet published).
func isFreshObject(base ssa.Value) bool {
	v := rootBase(base)
	switch x := v.(type) {
	case *ssa.Alloc:
		return true
	case *ssa.UnOp:
		if a, ok := x.X.(*ssa.Alloc); ok && x.Op == token.MUL {
			// load of a local pointer variable: fresh if all its stores are Allocs
			all := true
			for _, s := range cellStores(a) {
				if _, ok := rootBase(s.Val).(*ssa.Alloc); !ok {
					all = false
				}
			}
			return all && len(cellStores(a)) > 0
		}
	}
	return false
}

// closureEntryMode decides the lock mode a closure starts with: none for
// goroutines and escaping closures; the mode at the defer/call site for
// closures that are only invoked synchronously in their parent.
func closureEntryMode(cl *ssa.Function, parentStates *LockStates, syncCallbacks map[string]bool) int {
	parent := cl.Parent()
	if parent == nil {
		return lkNone
	}
	mode := 99
	found := false
	allInstrs(parent, func(in ssa.Instruction) {
		mc, ok := in.(*ssa.MakeClosure)
		if !ok || mc.Fn != cl {
			return
		}
		for _, ref := range *mc.Referrers() {
			switch u := ref.(type) {
			case *ssa.Go:
				mode = lkNone
				found = true
			case *ssa.Defer:
				// runs at function exit: conservatively the minimum over exits is unknown → use state at defer site only if the lock is released by a defer registered earlier (LIFO) — approximate with state at site.
				m := parentStates.At(u)
				if m < mode {
					mode = m
				}
				found = true
			case *ssa.Call:
				if u.Call.Value == ssa.Value(mc) {
					m := parentStates.At(u)
					if m < mode {
						mode = m
					}
					found = true
				} else if syncCallbacks[CalleeName(u.Common())] {
					m := parentStates.At(u)
					if m < mode {
						mode = m
					}
					found = true
				} else {
					mode = lkNone
					found = true
				}
			case *ssa.DebugRef:
			default:
				mode = lkNone
				found = true
			}
		}
	})
	if !found || mode == 99 {
		return lkNone
	}
	return mode
}

// LockRule runs the guarded-by analysis over a set of functions.
type LockRule struct {
	Rule          string
	Class         *LockClass
	Guarded       map[string]map[string]bool // type → fields
	ReadFuncs     map[string]bool            // functions in which reads also need the lock
	SyncCallbacks map[string]bool
	Exempt        map[string]string // function short name → reason (documented no-lock constructors)
}

func (lr *LockRule) Run(r *R, fns []*ssa.Function) {
	states := map[*ssa.Function]*LockStates{}
	var get func(fn *ssa.Function) *LockStates
	get = func(fn *ssa.Function) *LockStates {
		if s, ok := states[fn]; ok {
			return s
		}
		entry := lkNone
		name := fnShort(fn)
		if m, ok := lr.Class.Annotated[name]; ok {
			entry = m
		} else if fn.Parent() != nil && fn.Parent().Synthetic == "" {
			entry = closureEntryMode(fn, get(fn.Parent()), lr.SyncCallbacks)
		}
		s := ComputeLocks(fn, lr.Class, entry)
		states[fn] = s
		return s
	}
	sort.Slice(fns, func(i, j int) bool { return fns[i].String() < fns[j].String() })
	for _, fn := range fns {
		name := fnShort(fn)
		if reason, ok := lr.Exempt[fnShort(rootFn(fn))]; ok {
			r.Info(lr.Rule, fn, "exempt", fn.Pos(), reason)
			continue
		}
		ls := get(fn)
		for _, a := range FieldAccesses(fn, lr.Guarded) {
			if isFreshObject(a.Base) {
				continue
			}
			m := ls.At(a.Instr)
			if a.Write {
				r.Check(m >= lkW, lr.Rule, fn, a.What+" "+a.Type+"."+a.Field, a.Instr.Pos(), "write lock held", "guarded field written without holding "+lr.Class.Name)
			} else if lr.ReadFuncs[fnShort(rootFn(fn))] || lr.ReadFuncs[name] {
				r.Check(m >= lkR, lr.Rule, fn, a.What+" "+a.Type+"."+a.Field, a.Instr.Pos(), "lock held", "guarded field read in a decision function without holding "+lr.Class.Name)
			}
		}
		// calls of annotated functions
		allInstrs(fn, func(in ssa.Instruction) {
			ci, ok := in.(ssa.CallInstruction)
			if !ok {
				return
			}
			callee := CalleeName(ci.Common())
			need, ok := lr.Class.Annotated[callee]
			if !ok {
				return
			}
			switch x := in.(type) {
			case *ssa.Go:
				r.Bad(lr.Rule, fn, "go "+callee, in.Pos(), "function that requires "+lr.Class.Name+" started as a goroutine")
			case *ssa.Defer:
				m := ls.At(x)
				r.Check(m >= need, lr.Rule, fn, "defer "+callee, in.Pos(), "lock held (deferred before the unlock runs)", "deferred call of a requires-lock function without the lock")
			default:
				m := ls.At(in)
				r.Check(m >= need, lr.Rule, fn, "call "+callee, in.Pos(), "lock held at call", "function documented 'caller must have lock' is called without holding "+lr.Class.Name)
			}
		})
	}
}

var _ = types.Typ
