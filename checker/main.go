// arvcheck: repository-specific static analyser deciding structural necessary
// conditions of the 20 Arvados properties (see /verif/DESIGN.md).
package main

import (
	"encoding/json"
	"flag"
	"fmt"
	"os"
	"runtime/debug"
	"sort"
	"strconv"
	"strings"
	"time"
)

type propDef struct {
	ID       string
	Patterns []string // package patterns relative to /repo
	Run      func(r *R)
}

var props = map[string]*propDef{}

// extraRules: further rules of a property that live outside its cNN.go (added in later rounds).
var extraRules = map[string][]func(r *R){}

func register(id string, patterns []string, run func(r *R)) {
	props[id] = &propDef{id, patterns, func(r *R) {
		run(r)
		n0 := len(r.ruleSeq)
		for _, f := range extraRules[id] {
			f(r)
		}
		if len(r.ruleSeq) > n0 && r.Explain != "" {
			// rules added in later rounds describe themselves: their one-line statements are part of the explanation
			var extra []string
			for _, rid := range r.ruleSeq[n0:] {
				extra = append(extra, "("+strings.TrimPrefix(rid, id+"-")+") "+r.RuleDocs[rid])
			}
			r.Explain += " Further clauses decided by rules added after the seeded-change rounds: " + strings.Join(extra, "; ") + "."
		}
		hygiene(r)
	}}
}

func main() {
	prop := flag.String("prop", "", "property id (C01..C20)")
	tier := flag.String("tier", "quick", "quick|thorough")
	repo := flag.String("repo", "/repo", "repository working tree")
	verif := flag.String("verif", "/verif", "verif directory (evidence, known findings)")
	list := flag.Bool("list", false, "list armed properties")
	overlayFile := flag.String("overlay", "", "JSON file {path: replacement-file} analysed instead of the working tree file (self-test only)")
	explain := flag.String("explain", "", "violations file written by an earlier run: print each recorded violation, then re-run the property's check on the current tree")
	patternsFlag := flag.Bool("patterns", false, "list armed properties with the package patterns their quick tier loads")
	flag.Parse()
	if *patternsFlag {
		var ids []string
		for id := range props {
			ids = append(ids, id)
		}
		sort.Strings(ids)
		for _, id := range ids {
			fmt.Println(id, strings.Join(props[id].Patterns, " "))
		}
		return
	}
	if *explain != "" {
		b, err := os.ReadFile(*explain)
		if err != nil {
			fmt.Println(err)
			os.Exit(2)
		}
		var v struct {
			Property   string `json:"property"`
			Violations []Ob   `json:"violations"`
			Undecided  []Ob   `json:"undecided"`
		}
		if err := json.Unmarshal(b, &v); err != nil {
			fmt.Println(err)
			os.Exit(2)
		}
		for _, o := range v.Violations {
			fmt.Printf("recorded violation %s at %s — %s\n", o.Key(), o.Pos, o.Detail)
		}
		for _, o := range v.Undecided {
			fmt.Printf("recorded undecided %s at %s — %s\n", o.Key(), o.Pos, o.Detail)
		}
		if *prop == "" {
			*prop = v.Property
		}
		fmt.Println("re-running the check on the current tree:")
	}
	if *list {
		var ids []string
		for id := range props {
			ids = append(ids, id)
		}
		sort.Strings(ids)
		for _, id := range ids {
			fmt.Println(id)
		}
		return
	}
	if t := os.Getenv("VERIF_TIER"); t != "" && !isFlagSet("tier") {
		*tier = t
	}
	seed := 0
	if s := os.Getenv("VERIF_SEED"); s != "" {
		seed, _ = strconv.Atoi(s)
	}
	pd := props[*prop]
	if pd == nil {
		fmt.Printf("unknown or unarmed property %q\n", *prop)
		os.Exit(2)
	}
	start := time.Now()
	if os.Getenv("GOGC") == "" {
		debug.SetGCPercent(200)
	}
	code := 2
	func() {
		defer func() {
			if e := recover(); e != nil {
				fmt.Printf("checker panic (undecided): %v\n%s\n", e, debug.Stack())
				os.MkdirAll(*verif+"/evidence", 0o755)
				vb, _ := json.Marshal(map[string]interface{}{"property": pd.ID, "undecided": []Ob{{Rule: "checker", Func: "-", Construct: "panic", Pos: "-", Status: Undecided, Detail: fmt.Sprint(e)}}})
				os.WriteFile(*verif+"/evidence/"+pd.ID+".violations.json", vb, 0o644)
				fmt.Printf("VIOLATION property=%s replay=%s/evidence/%s.violations.json\n", pd.ID, *verif, pd.ID)
				code = 1
			}
		}()
		overlay, err := readOverlay(*overlayFile)
		if err != nil {
			fmt.Println(err)
			return
		}
		patterns := pd.Patterns
		if *tier == "thorough" {
			patterns = []string{"./..."}
		}
		w, err := Load(*repo, patterns, false, overlay)
		if err != nil {
			fmt.Printf("load failed (undecided): %v\n", err)
			if os.Getenv("ARVCHECK_SELFTEST") != "" {
				code = 3 // variant does not type-check: skipped by the self-test
				return
			}
			os.MkdirAll(*verif+"/evidence", 0o755)
			vb, _ := json.Marshal(map[string]interface{}{"property": pd.ID, "undecided": []Ob{{Rule: "checker", Func: "-", Construct: "load", Pos: "-", Status: Undecided, Detail: err.Error()}}})
			os.WriteFile(*verif+"/evidence/"+pd.ID+".violations.json", vb, 0o644)
			fmt.Printf("VIOLATION property=%s replay=%s/evidence/%s.violations.json\n", pd.ID, *verif, pd.ID)
			code = 1
			return
		}
		r := RunProperty(w, pd, *tier, *verif)
		if *tier == "thorough" && os.Getenv("ARVCHECK_SELFTEST") == "" {
			max := 300
			if m := os.Getenv("VERIF_SELFTEST_MAX"); m != "" {
				if n, err := strconv.Atoi(m); err == nil {
					max = n
				}
			}
			r.Extra["whole_module_load"] = true
			st := runSelfTest(r, *repo, *verif, seed, max)
			r.Extra["selftest"] = st
			if dir := os.Getenv("VERIF_SELFTEST_DIR"); dir != "" {
				if b, err := json.MarshalIndent(st, "", " "); err == nil {
					os.MkdirAll(dir, 0o755)
					os.WriteFile(dir+"/"+pd.ID+".json", b, 0o644)
				}
			}
		}
		code = r.Finish(*verif, start, seed)
	}()
	os.Exit(code)
}

func isFlagSet(name string) bool {
	set := false
	flag.Visit(func(f *flag.Flag) {
		if f.Name == name {
			set = true
		}
	})
	return set
}

func init() {
	if os.Getenv("ARVCHECK_DEBUG_LOAD") != "" {
		w, err := Load("/repo", []string{"./lib/controller/..."}, false, nil)
		fmt.Println("err:", err)
		if w != nil {
			for _, e := range w.LoadErrs {
				fmt.Println(e)
			}
			for _, p := range w.Roots {
				fmt.Println(p.PkgPath, p.IllTyped, len(p.Errors))
			}
		}
		os.Exit(0)
	}
}

func init() {
	if n := os.Getenv("ARVCHECK_DUMP"); n != "" {
		pats := []string{"./lib/controller/...", "./sdk/go/arvados"}
		if p := os.Getenv("ARVCHECK_DUMP_PKGS"); p != "" {
			pats = []string{p}
		}
		repoDir := "/repo"
		if d := os.Getenv("ARVCHECK_DUMP_REPO"); d != "" {
			repoDir = d
		}
		w, err := Load(repoDir, pats, false, nil)
		if err != nil {
			fmt.Println(err)
			os.Exit(1)
		}
		fn := w.Fn(n)
		if fn == nil {
			fmt.Println("not found")
			os.Exit(1)
		}
		fn.WriteTo(os.Stdout)
		os.Exit(0)
	}
}
