package main

import (
	"fmt"
	"go/constant"
	"go/token"
	"go/types"
	"os"
	"strings"
	"sync"

	"golang.org/x/tools/go/ssa"
)

// ---------------------------------------------------------------------------
// callee resolution

// CalleeName gives a resolved name for the callee of a call:
//
//	static function/method:  "pkg.F", "(*pkg.T).M", "(pkg.T).M"
//	interface method:        "(pkg.I).M"
//	builtin:                 "builtin.len"
//	closure literal:         the closure's SSA name
//	otherwise:               "dynamic"
func CalleeName(c *ssa.CallCommon) string {
	if c.IsInvoke() {
		return shortName(c.Method.FullName())
	}
	switch v := c.Value.(type) {
	case *ssa.Function:
		return fnName(v)
	case *ssa.Builtin:
		return "builtin." + v.Name()
	case *ssa.MakeClosure:
		if f, ok := v.Fn.(*ssa.Function); ok {
			return fnName(f)
		}
	case *ssa.UnOp:
		// call through a package-level function variable that is assigned exactly once, in the
		// package initialiser, a function value (e.g. `var SignLocator = arvados.SignLocator`)
		if g, ok := v.X.(*ssa.Global); ok && v.Op == token.MUL {
			if f := globalFuncValue(g); f != nil {
				return fnName(f)
			}
		}
	}
	return "dynamic"
}

var globalFuncCache = map[*ssa.Global]*ssa.Function{}
var globalFuncMu sync.Mutex

func globalFuncValue(g *ssa.Global) *ssa.Function {
	globalFuncMu.Lock()
	defer globalFuncMu.Unlock()
	if f, ok := globalFuncCache[g]; ok {
		return f
	}
	var found *ssa.Function
	n := 0
	if g.Pkg != nil {
		for _, m := range g.Pkg.Members {
			fn, ok := m.(*ssa.Function)
			if !ok {
				continue
			}
			fns := append([]*ssa.Function{fn}, Closures(fn)...)
			for _, f := range fns {
				allInstrs(f, func(in ssa.Instruction) {
					if st, ok := in.(*ssa.Store); ok && st.Addr == ssa.Value(g) {
						n++
						if fv, ok := Strip(st.Val).(*ssa.Function); ok && f.Name() == "init" {
							found = fv
						}
					}
				})
			}
		}
	}
	if n != 1 {
		found = nil
	}
	globalFuncCache[g] = found
	return found
}

func fnName(f *ssa.Function) string {
	// bound method wrappers / thunks: name by underlying object
	if f.Synthetic != "" && f.Object() != nil {
		if o, ok := f.Object().(*types.Func); ok {
			return shortName(o.FullName())
		}
	}
	return shortName(f.String())
}

// StaticCallee returns the SSA function called, looking through closures.
func StaticCallee(c *ssa.CallCommon) *ssa.Function {
	if c.IsInvoke() {
		return nil
	}
	switch v := c.Value.(type) {
	case *ssa.Function:
		return v
	case *ssa.MakeClosure:
		if f, ok := v.Fn.(*ssa.Function); ok {
			return f
		}
	}
	return nil
}

// CallsIn returns all call-like instructions (Call, Go, Defer) in fn whose
// callee name is in names.
func CallsIn(fn *ssa.Function, names ...string) []ssa.CallInstruction {
	set := map[string]bool{}
	for _, n := range names {
		set[n] = true
	}
	var out []ssa.CallInstruction
	allInstrs(fn, func(in ssa.Instruction) {
		if ci, ok := in.(ssa.CallInstruction); ok {
			if set[CalleeName(ci.Common())] {
				out = append(out, ci)
			}
		}
	})
	return out
}

// CallsInDeep: fn and all nested closures.
func CallsInDeep(fn *ssa.Function, names ...string) []ssa.CallInstruction {
	out := CallsIn(fn, names...)
	for _, c := range Closures(fn) {
		out = append(out, CallsIn(c, names...)...)
	}
	return out
}

// CallsMatching returns calls whose callee name satisfies pred.
func CallsMatching(fn *ssa.Function, pred func(name string, c *ssa.CallCommon) bool) []ssa.CallInstruction {
	var out []ssa.CallInstruction
	allInstrs(fn, func(in ssa.Instruction) {
		if ci, ok := in.(ssa.CallInstruction); ok {
			if pred(CalleeName(ci.Common()), ci.Common()) {
				out = append(out, ci)
			}
		}
	})
	return out
}

// methodName returns the bare method/function name of a callee name.
func bareName(callee string) string {
	if i := strings.LastIndex(callee, "."); i >= 0 {
		return callee[i+1:]
	}
	return callee
}

// CallArgs returns the arguments excluding the receiver.
func CallArgs(c *ssa.CallCommon) []ssa.Value {
	if c.IsInvoke() {
		return c.Args
	}
	if f := StaticCallee(c); f != nil && f.Signature.Recv() != nil {
		if len(c.Args) > 0 {
			return c.Args[1:]
		}
	}
	return c.Args
}

// CallRecv returns the receiver value of a method call (invoke or static), or nil.
func CallRecv(c *ssa.CallCommon) ssa.Value {
	if c.IsInvoke() {
		return c.Value
	}
	if f := StaticCallee(c); f != nil && f.Signature.Recv() != nil && len(c.Args) > 0 {
		return c.Args[0]
	}
	return nil
}

// ---------------------------------------------------------------------------
// value helpers

// Strip removes value-preserving conversions.
func Strip(v ssa.Value) ssa.Value {
	for {
		switch x := v.(type) {
		case *ssa.ChangeType:
			v = x.X
		case *ssa.Convert:
			v = x.X
		case *ssa.MakeInterface:
			v = x.X
		case *ssa.ChangeInterface:
			v = x.X
		default:
			return v
		}
	}
}

func IsNilConst(v ssa.Value) bool {
	c, ok := Strip(v).(*ssa.Const)
	return ok && c.IsNil()
}

func ConstBool(v ssa.Value) (bool, bool) {
	c, ok := Strip(v).(*ssa.Const)
	if !ok || c.Value == nil || c.Value.Kind() != constant.Bool {
		return false, false
	}
	return constant.BoolVal(c.Value), true
}

func ConstString(v ssa.Value) (string, bool) {
	c, ok := Strip(v).(*ssa.Const)
	if !ok || c.Value == nil || c.Value.Kind() != constant.String {
		return "", false
	}
	return constant.StringVal(c.Value), true
}

func ConstInt(v ssa.Value) (int64, bool) {
	c, ok := Strip(v).(*ssa.Const)
	if !ok || c.Value == nil || c.Value.Kind() != constant.Int {
		return 0, false
	}
	return c.Int64(), true
}

// ResultOf: if v is the i-th result of a call (Extract of tuple, or the call
// itself when it has one result) returns the call and index.
func ResultOf(v ssa.Value) (*ssa.Call, int) {
	v = Strip(v)
	switch x := v.(type) {
	case *ssa.Extract:
		if c, ok := x.Tuple.(*ssa.Call); ok {
			return c, x.Index
		}
	case *ssa.Call:
		return x, 0
	}
	return nil, -1
}

// IsResultOfCall reports whether v is result idx of call.
func IsResultOfCall(v ssa.Value, call ssa.Value, idx int) bool {
	c, i := ResultOf(v)
	return c != nil && ssa.Value(c) == call && i == idx
}

// ErrIndex gives the index of the last result of the call's signature if it is `error`, else -1.
func ErrIndex(c *ssa.CallCommon) int {
	res := c.Signature().Results()
	if res.Len() == 0 {
		return -1
	}
	last := res.At(res.Len() - 1).Type()
	if types.Identical(last, types.Universe.Lookup("error").Type()) {
		return res.Len() - 1
	}
	return -1
}

// fieldInfo describes a FieldAddr / Field value.
func FieldName(v ssa.Value) (structType string, field string, base ssa.Value, ok bool) {
	switch x := v.(type) {
	case *ssa.FieldAddr:
		pt, _ := x.X.Type().Underlying().(*types.Pointer)
		if pt == nil {
			return
		}
		st, _ := pt.Elem().Underlying().(*types.Struct)
		if st == nil {
			return
		}
		return shortName(typeString(pt.Elem())), st.Field(x.Field).Name(), x.X, true
	case *ssa.Field:
		st, _ := x.X.Type().Underlying().(*types.Struct)
		if st == nil {
			return
		}
		return shortName(typeString(x.X.Type())), st.Field(x.Field).Name(), x.X, true
	}
	return
}

func typeString(t types.Type) string {
	return types.TypeString(t, nil)
}

// LoadedField: if v (after Strip) is a load of a struct field (`*FieldAddr`)
// or a Field extraction, returns struct type, field name and base.
func LoadedField(v ssa.Value) (string, string, ssa.Value, bool) {
	v = Strip(v)
	if u, ok := v.(*ssa.UnOp); ok && u.Op == token.MUL {
		return FieldName(u.X)
	}
	if f, ok := v.(*ssa.Field); ok {
		return FieldName(f)
	}
	return "", "", nil, false
}

// IsFieldLoad reports v == load of T.f (any base).
func IsFieldLoad(v ssa.Value, typ, field string) bool {
	t, f, _, ok := LoadedField(v)
	return ok && t == typ && f == field
}

// LoadedGlobal: v is a load of package-level var → its short name "pkg.V".
func LoadedGlobal(v ssa.Value) (string, bool) {
	v = Strip(v)
	if u, ok := v.(*ssa.UnOp); ok && u.Op == token.MUL {
		if g, ok := u.X.(*ssa.Global); ok {
			return shortName(g.String()), true
		}
	}
	return "", false
}

// ---------------------------------------------------------------------------
// local cells (Alloc) — stores and loads

// cellStores returns all Store instructions whose address is exactly the alloc.
func cellStores(a *ssa.Alloc) []*ssa.Store {
	var out []*ssa.Store
	for _, r := range *a.Referrers() {
		if s, ok := r.(*ssa.Store); ok && s.Addr == a {
			out = append(out, s)
		}
	}
	return out
}

// cellEscapes reports whether the alloc's address is used by anything other
// than loads, stores to it, and debug refs within its function (i.e. passed
// to calls, captured by closures, stored elsewhere).
func cellEscapes(a *ssa.Alloc) bool {
	for _, r := range *a.Referrers() {
		switch x := r.(type) {
		case *ssa.Store:
			if x.Addr != a {
				return true
			}
		case *ssa.UnOp:
			if x.Op != token.MUL {
				return true
			}
		case *ssa.DebugRef:
		case *ssa.FieldAddr, *ssa.IndexAddr:
			// read-only projections (&cell.f used only by loads) do not let the cell escape
			for _, rr := range *r.(ssa.Value).Referrers() {
				switch y := rr.(type) {
				case *ssa.UnOp:
					if y.Op != token.MUL {
						return true
					}
				case *ssa.DebugRef:
				default:
					return true
				}
			}
		default:
			return true
		}
	}
	return false
}

// ReachingStores computes, for a load (or any instruction `at`) of local cell
// a, the set of stores that may be the most recent on some path. nil store in
// the result denotes "zero value / no store yet".
func ReachingStores(a *ssa.Alloc, at ssa.Instruction) []*ssa.Store {
	fn := a.Parent()
	stores := map[*ssa.Store]bool{}
	for _, s := range cellStores(a) {
		stores[s] = true
	}
	type set map[*ssa.Store]bool
	out := map[*ssa.BasicBlock]set{}
	lastIn := func(b *ssa.BasicBlock, upto int) *ssa.Store {
		var last *ssa.Store
		for i, in := range b.Instrs {
			if upto >= 0 && i >= upto {
				break
			}
			if s, ok := in.(*ssa.Store); ok && stores[s] {
				last = s
			}
		}
		return last
	}
	inOf := func(b *ssa.BasicBlock) set {
		r := set{}
		if b == fn.Blocks[0] {
			r[nil] = true
		}
		for _, p := range b.Preds {
			for s := range out[p] {
				r[s] = true
			}
		}
		return r
	}
	changed := true
	for changed {
		changed = false
		for _, b := range fn.Blocks {
			var o set
			if l := lastIn(b, -1); l != nil {
				o = set{l: true}
			} else {
				o = inOf(b)
			}
			if len(o) != len(out[b]) {
				out[b] = o
				changed = true
			}
		}
	}
	b := at.Block()
	if l := lastIn(b, instrIndex(at)); l != nil {
		return []*ssa.Store{l}
	}
	var res []*ssa.Store
	for s := range inOf(b) {
		res = append(res, s)
	}
	return res
}

// Resolve looks through conversions and loads of non-escaping local cells
// with a unique reaching store. It returns the set of possible underlying
// values (more than one when several stores reach); unknown=true if some path
// has the zero value or the cell escapes.
func Resolve(v ssa.Value) (vals []ssa.Value, unknown bool) {
	seen := map[ssa.Value]bool{}
	var rec func(v ssa.Value)
	rec = func(v ssa.Value) {
		v = Strip(v)
		if seen[v] {
			return
		}
		seen[v] = true
		if u, ok := v.(*ssa.UnOp); ok && u.Op == token.MUL {
			if a, ok := u.X.(*ssa.Alloc); ok && !cellEscapesBeyondDefer(a) {
				for _, s := range ReachingStores(a, u) {
					if s == nil {
						rec(zeroOf(a))
						continue
					}
					rec(s.Val)
				}
				return
			}
		}
		vals = append(vals, v)
	}
	rec(v)
	return
}

// Resolve1 returns the single resolved value or v itself (stripped).
func Resolve1(v ssa.Value) ssa.Value {
	vals, unk := Resolve(v)
	if !unk && len(vals) == 1 {
		return vals[0]
	}
	return Strip(v)
}

// PhiLeaves expands Phi nodes (and resolves cells) into their leaf values.
func PhiLeaves(v ssa.Value) []ssa.Value {
	seen := map[ssa.Value]bool{}
	var out []ssa.Value
	var rec func(v ssa.Value)
	rec = func(v ssa.Value) {
		vals, unk := Resolve(v)
		if unk {
			out = append(out, nil)
		}
		for _, x := range vals {
			if seen[x] {
				continue
			}
			seen[x] = true
			if p, ok := x.(*ssa.Phi); ok {
				for _, e := range p.Edges {
					rec(e)
				}
				continue
			}
			out = append(out, x)
		}
	}
	rec(v)
	return out
}

// ReturnOperands resolves the operands of a return, looking through the
// defer-spill pattern (*res = e; rundefers; t = *res; return t).
func ReturnOperands(r *ssa.Return) [][]ssa.Value {
	out := make([][]ssa.Value, len(r.Results))
	for i, v := range r.Results {
		out[i] = returnOperand(r, v)
	}
	return out
}

func returnOperand(r *ssa.Return, v ssa.Value) []ssa.Value {
	var out []ssa.Value
	seen := map[ssa.Value]bool{}
	var rec func(v ssa.Value, at ssa.Instruction)
	rec = func(v ssa.Value, at ssa.Instruction) {
		// strip conversions except MakeInterface (a made interface is a non-nil value)
		for {
			switch x := v.(type) {
			case *ssa.ChangeType:
				v = x.X
				continue
			case *ssa.ChangeInterface:
				v = x.X
				continue
			}
			break
		}
		if seen[v] {
			return
		}
		seen[v] = true
		switch x := v.(type) {
		case *ssa.Phi:
			for _, e := range x.Edges {
				rec(e, nil)
			}
			return
		case *ssa.UnOp:
			if a, ok := x.X.(*ssa.Alloc); ok && x.Op == token.MUL {
				if cellEscapesBeyondDefer(a) {
					out = append(out, x) // opaque: may be written elsewhere
					return
				}
				var where ssa.Instruction = x
				if at != nil {
					where = at
				}
				for _, s := range ReachingStores(a, where) {
					if s == nil {
						out = append(out, zeroOf(a))
						continue
					}
					rec(s.Val, nil)
				}
				return
			}
		}
		out = append(out, v)
	}
	var at ssa.Instruction
	for _, in := range r.Block().Instrs {
		if rd, ok := in.(*ssa.RunDefers); ok {
			at = rd
			break
		}
	}
	rec(v, at)
	return out
}

// ---------------------------------------------------------------------------
// condition patterns

// VP is a predicate on SSA values.
type VP func(v ssa.Value) bool

// CP matches a branch condition; it returns ok and the side (true successor
// or false successor) on which the described fact holds.
type CP struct {
	Desc  string
	Match func(c ssa.Value) (ok bool, side bool)
}

func AnyV(ssa.Value) bool { return true }

func Is(x ssa.Value) VP {
	return func(v ssa.Value) bool { return Strip(v) == Strip(x) || Resolve1(v) == Resolve1(x) }
}

func NilV(v ssa.Value) bool { return IsNilConst(v) }

// stripNot peels boolean negations, returning the inner value and whether the polarity flipped.
func stripNot(c ssa.Value) (ssa.Value, bool) {
	flip := false
	for {
		c = Strip(c)
		if bo, ok := c.(*ssa.BinOp); ok && (bo.Op == token.EQL || bo.Op == token.NEQ) {
			// x == false, x != true  ≡ !x ;  x == true, x != false ≡ x
			if k, isC := ConstBool(bo.Y); isC {
				if (bo.Op == token.EQL) != k {
					flip = !flip
				}
				c = bo.X
				continue
			}
			if k, isC := ConstBool(bo.X); isC {
				if (bo.Op == token.EQL) != k {
					flip = !flip
				}
				c = bo.Y
				continue
			}
		}
		u, ok := c.(*ssa.UnOp)
		if !ok || u.Op != token.NOT {
			return c, flip
		}
		c = u.X
		flip = !flip
	}
}

// EqC: the fact "a == b".
func EqC(desc string, a, b VP) CP {
	return CP{desc, func(c ssa.Value) (bool, bool) {
		c, flip := stripNot(c)
		bo, ok := c.(*ssa.BinOp)
		if !ok || (bo.Op != token.EQL && bo.Op != token.NEQ) {
			return false, false
		}
		if !((a(bo.X) && b(bo.Y)) || (a(bo.Y) && b(bo.X))) {
			return false, false
		}
		side := bo.Op == token.EQL
		if flip {
			side = !side
		}
		return true, side
	}}
}

// NeqC: the fact "a != b".
func NeqC(desc string, a, b VP) CP { return NotC(EqC(desc, a, b)) }

// NotC: the fact is the negation of p.
func NotC(p CP) CP { return notC(p) }

func notC(p CP) CP {
	return CP{p.Desc, func(c ssa.Value) (bool, bool) {
		ok, side := p.Match(c)
		return ok, !side
	}}
}

// TrueC: the fact "v is true" where the condition value itself matches vp.
func TrueC(desc string, vp VP) CP {
	return CP{desc, func(c ssa.Value) (bool, bool) {
		c, flip := stripNot(c)
		if !vp(c) {
			return false, false
		}
		return true, !flip
	}}
}

// FalseC: the fact "v is false".
func FalseC(desc string, vp VP) CP { return NotC(TrueC(desc, vp)) }

// LtC: the fact "a < b" (strict). Matches a<b, b>a on the true side and
// a>=b, b<=a on the false side.
func LtC(desc string, a, b VP) CP {
	return CP{desc, func(c ssa.Value) (bool, bool) {
		c, flip := stripNot(c)
		bo, ok := c.(*ssa.BinOp)
		if !ok {
			return false, false
		}
		var side bool
		switch {
		case bo.Op == token.LSS && a(bo.X) && b(bo.Y):
			side = true
		case bo.Op == token.GTR && b(bo.X) && a(bo.Y):
			side = true
		case bo.Op == token.GEQ && a(bo.X) && b(bo.Y):
			side = false
		case bo.Op == token.LEQ && b(bo.X) && a(bo.Y):
			side = false
		default:
			return false, false
		}
		if flip {
			side = !side
		}
		return true, side
	}}
}

// LeC: the fact "a <= b".
// `a == b` (true edge) and `a != b` (false edge) establish it too, so LeC/GeC are one-way facts:
// never wrap them in NotC.
func GeC(desc string, a, b VP) CP { return LeC(desc, b, a) }

func LeC(desc string, a, b VP) CP {
	lt := notC(LtC(desc, b, a))
	return CP{desc, func(c ssa.Value) (bool, bool) {
		if m, side := lt.Match(c); m {
			return m, side
		}
		c, flip := stripNot(c)
		bo, ok := c.(*ssa.BinOp)
		if !ok || !(a(bo.X) && b(bo.Y) || a(bo.Y) && b(bo.X)) {
			return false, false
		}
		switch bo.Op {
		case token.EQL:
			return true, !flip
		case token.NEQ:
			return true, flip
		}
		return false, false
	}}
}

// Guard decides "every path from entry (or from `from` if non-nil) to target
// passes an edge establishing one of the alternative facts alts". Returns true
// if guarded and the list of matching If positions.
func Guard(fn *ssa.Function, from ssa.Instruction, target ssa.Instruction, alts ...CP) (bool, []*ssa.If) {
	cut := EdgeSet{}
	var ifs []*ssa.If
	for _, a := range alts {
		es, is := IfEdges(fn, a.Match)
		cut.Add(es)
		ifs = append(ifs, is...)
	}
	if len(alts) > 1 {
		// the disjunction as one fact: needed where a named boolean (`need := a || b`) is tested later
		es, is := IfEdges(fn, anyMatch(alts))
		cut.Add(es)
		ifs = append(ifs, is...)
	}
	if debugGuard {
		fmt.Printf("GUARD %s target=%s cutEdges=%d\n", fn.Name(), target, len(cut))
		for e := range cut {
			fmt.Printf("   cut %d->%d\n", e.From.Index, e.From.Succs[e.Succ].Index)
		}
	}
	if len(cut) == 0 {
		return false, nil
	}
	var reach bool
	if from != nil {
		reach = ReachFromInstr(from, target, cut)
	} else {
		reach = ReachFromEntry(fn, target, cut)
	}
	if debugGuard {
		fmt.Printf("   => guarded=%v\n", !reach)
	}
	return !reach, ifs
}

// CallResultVP: v is result idx of a call to one of names (any such call).
func CallResultVP(idx int, names ...string) VP {
	set := map[string]bool{}
	for _, n := range names {
		set[n] = true
	}
	return func(v ssa.Value) bool {
		for _, x := range PhiLeaves(v) {
			if x == nil {
				return false
			}
			c, i := ResultOf(x)
			if c == nil || i != idx || !set[CalleeName(c.Common())] {
				return false
			}
		}
		return true
	}
}

// ResultVP: v is exactly result idx of this call (through cells).
func ResultVP(call ssa.Value, idx int) VP {
	return func(v ssa.Value) bool {
		vals, unk := Resolve(v)
		if unk || len(vals) == 0 {
			return false
		}
		for _, x := range vals {
			if !IsResultOfCall(x, call, idx) {
				return false
			}
		}
		return true
	}
}

// GlobalVP: v is a load of the named package-level variable.
func GlobalVP(name string) VP {
	return func(v ssa.Value) bool {
		g, ok := LoadedGlobal(Resolve1(v))
		return ok && g == name
	}
}

// FieldVP: v is a load of field T.f whose base satisfies base (nil = any).
func FieldVP(typ, field string, base VP) VP {
	return func(v ssa.Value) bool {
		t, f, b, ok := LoadedField(Resolve1(v))
		if !ok || t != typ || f != field {
			return false
		}
		return base == nil || base(b)
	}
}

// ParamVP: v is the named parameter of its function.
func ParamVP(name string) VP {
	return func(v ssa.Value) bool {
		p, ok := Resolve1(v).(*ssa.Parameter)
		return ok && p.Name() == name
	}
}

func ConstStrVP(s string) VP {
	return func(v ssa.Value) bool {
		x, ok := ConstString(v)
		return ok && x == s
	}
}

func ConstIntVP(n int64) VP {
	return func(v ssa.Value) bool {
		x, ok := ConstInt(v)
		return ok && x == n
	}
}

// CallVP: v is (the single result of) a call to name whose args satisfy argps (nil = any).
func CallVP(name string, argps ...VP) VP {
	return func(v ssa.Value) bool {
		c, ok := Resolve1(v).(*ssa.Call)
		if !ok || CalleeName(c.Common()) != name {
			return false
		}
		args := CallArgs(c.Common())
		for i, p := range argps {
			if p == nil {
				continue
			}
			if i >= len(args) || !p(args[i]) {
				return false
			}
		}
		return true
	}
}

// zeroOf returns the zero constant of the cell's element type.
func zeroOf(a *ssa.Alloc) ssa.Value {
	pt := a.Type().Underlying().(*types.Pointer)
	return ssa.NewConst(nil, pt.Elem())
}

// cellEscapesBeyondDefer: like cellEscapes, but a capture by a closure that
// never stores to the cell (only reads it, e.g. a deferred logger) is benign.
func cellEscapesBeyondDefer(a *ssa.Alloc) bool {
	for _, r := range *a.Referrers() {
		switch x := r.(type) {
		case *ssa.Store:
			if x.Addr != a {
				return true
			}
		case *ssa.UnOp:
			if x.Op != token.MUL {
				return true
			}
		case *ssa.DebugRef:
		case *ssa.FieldAddr, *ssa.IndexAddr:
			for _, rr := range *r.(ssa.Value).Referrers() {
				switch y := rr.(type) {
				case *ssa.UnOp:
					if y.Op != token.MUL {
						return true
					}
				case *ssa.DebugRef:
				default:
					return true
				}
			}
		case *ssa.MakeClosure:
			fn, _ := x.Fn.(*ssa.Function)
			if fn == nil {
				return true
			}
			for i, b := range x.Bindings {
				if b != ssa.Value(a) {
					continue
				}
				if freeVarWritten(fn, fn.FreeVars[i]) {
					return true
				}
			}
		default:
			return true
		}
	}
	return false
}

func freeVarWritten(fn *ssa.Function, fv *ssa.FreeVar) bool {
	for _, r := range *fv.Referrers() {
		switch x := r.(type) {
		case *ssa.UnOp:
			if x.Op != token.MUL {
				return true
			}
		case *ssa.DebugRef:
		case *ssa.Store:
			return true
		case *ssa.MakeClosure:
			inner, _ := x.Fn.(*ssa.Function)
			if inner == nil {
				return true
			}
			for i, b := range x.Bindings {
				if b == ssa.Value(fv) && freeVarWritten(inner, inner.FreeVars[i]) {
					return true
				}
			}
		default:
			return true
		}
	}
	return false
}

var debugGuard = os.Getenv("ARVCHECK_DEBUG_GUARD") != ""

// EdgeGuarded: the CFG edge pred→succ lies behind a branch establishing one of alts: either every path to the end of
// pred passes such a branch, or pred itself ends in the branch and succ is on the establishing side.
func EdgeGuarded(fn *ssa.Function, from ssa.Instruction, pred, succ *ssa.BasicBlock, alts ...CP) bool {
	if g, _ := Guard(fn, from, lastInstr(pred), alts...); g {
		return true
	}
	for _, a := range alts {
		es, _ := IfEdges(fn, a.Match)
		for e := range es {
			if e.From == pred && pred.Succs[e.Succ] == succ {
				return true
			}
		}
	}
	return false
}

// NormLess reads a comparison as `lo < hi` (strict) or `lo <= hi`, whichever way it was written
// (a < b, b > a, !(a >= b), …).
func NormLess(v ssa.Value) (lo, hi ssa.Value, strict bool, ok bool) {
	c, flip := stripNot(Resolve1(v))
	bo, isB := c.(*ssa.BinOp)
	if !isB {
		return nil, nil, false, false
	}
	switch bo.Op {
	case token.LSS:
		lo, hi, strict = bo.X, bo.Y, true
	case token.GTR:
		lo, hi, strict = bo.Y, bo.X, true
	case token.LEQ:
		lo, hi, strict = bo.X, bo.Y, false
	case token.GEQ:
		lo, hi, strict = bo.Y, bo.X, false
	default:
		return nil, nil, false, false
	}
	if flip { // !(lo < hi) ≡ hi <= lo ; !(lo <= hi) ≡ hi < lo
		lo, hi, strict = hi, lo, !strict
	}
	return lo, hi, strict, true
}

// returnDirect: the value a return hands back in position v, looking through the defer-spill pattern
// (*res = e; rundefers; t = *res; return t) but not through phis: the merged value itself.
func returnDirect(r *ssa.Return, v ssa.Value) ssa.Value {
	v = Strip(v)
	u, ok := v.(*ssa.UnOp)
	if !ok || u.Op != token.MUL {
		return v
	}
	a, ok := u.X.(*ssa.Alloc)
	if !ok || cellEscapesBeyondDefer(a) {
		return v
	}
	var at ssa.Instruction = u
	for _, in := range r.Block().Instrs {
		if rd, ok := in.(*ssa.RunDefers); ok {
			at = rd
			break
		}
	}
	st := ReachingStores(a, at)
	if len(st) == 1 && st[0] != nil {
		return Strip(st[0].Val)
	}
	return v
}

// IntC: the fact "x op k" for an integer x compared with constants, whichever way the program spells a test that
// implies it (`len(s) == 0`, `len(s) < 1`, `!(len(s) > 0)`, `0 >= len(s)` all establish len(s) <= 0 …). An edge
// of a comparison `x op' c` establishes the fact iff every integer admitted on that edge satisfies it; nonNeg
// restricts x to values >= 0 (lengths, counts).
func IntC(desc string, x VP, op token.Token, k int64, nonNeg bool) CP {
	holds := func(o token.Token, v, c int64) bool {
		switch o {
		case token.EQL:
			return v == c
		case token.NEQ:
			return v != c
		case token.LSS:
			return v < c
		case token.LEQ:
			return v <= c
		case token.GTR:
			return v > c
		case token.GEQ:
			return v >= c
		}
		return false
	}
	flipOp := map[token.Token]token.Token{token.LSS: token.GTR, token.GTR: token.LSS, token.LEQ: token.GEQ, token.GEQ: token.LEQ, token.EQL: token.EQL, token.NEQ: token.NEQ}
	return CP{desc, func(c ssa.Value) (bool, bool) {
		c2, flip := stripNot(c)
		bo, ok := c2.(*ssa.BinOp)
		if !ok {
			return false, false
		}
		o := bo.Op
		var cst int64
		if kk, isC := ConstInt(bo.Y); isC && x(bo.X) {
			cst = kk
		} else if kk, isC := ConstInt(bo.X); isC && x(bo.Y) {
			cst = kk
			o = flipOp[o]
		} else {
			return false, false
		}
		if _, known := flipOp[o]; !known {
			return false, false
		}
		lo, hi := cst, k
		if lo > hi {
			lo, hi = hi, lo
		}
		implied := func(edgeTrue bool) bool {
			any := false
			for v := lo - 3; v <= hi+3; v++ {
				if nonNeg && v < 0 {
					continue
				}
				if holds(o, v, cst) != edgeTrue {
					continue
				}
				any = true
				if !holds(op, v, k) {
					return false
				}
			}
			return any
		}
		t, f := implied(true), implied(false)
		if flip {
			t, f = f, t
		}
		switch {
		case t && !f:
			return true, true
		case f && !t:
			return true, false
		}
		return false, false
	}}
}

// anyMatch: the condition matcher of a disjunction of alternatives (first alternative that accepts the condition).
func anyMatch(alts []CP) func(c ssa.Value) (bool, bool) {
	return func(c ssa.Value) (bool, bool) {
		for _, a := range alts {
			if ok, side := a.Match(c); ok {
				return true, side
			}
		}
		return false, false
	}
}
