package main

import (
	"bufio"
	"encoding/json"
	"fmt"
	"go/token"
	"os"
	"sort"
	"strings"
	"time"

	"golang.org/x/tools/go/ssa"
)

type Status string

const (
	OK        Status = "ok"
	Violation Status = "violation"
	Undecided Status = "undecided"
	Info      Status = "info"
)

// Ob is one obligation examined by a rule.
type Ob struct {
	Rule      string `json:"rule"`
	Func      string `json:"function"`
	Construct string `json:"construct"`
	Pos       string `json:"pos"`
	Status    Status `json:"status"`
	Detail    string `json:"detail,omitempty"`
}

func (o Ob) Key() string { return o.Rule + ":" + o.Func + ":" + o.Construct }

// R collects the obligations of one property run.
type R struct {
	W        *World
	Prop     string
	Tier     string
	Obs      []Ob
	RuleDocs map[string]string
	ruleSeq  []string
	floors   map[string]int
	NotDec   []string
	Assume   []string
	Explain  string
	Extra    map[string]interface{}
	Anchors  []*ssa.Function // functions resolved by NeedFn (normalised too when a rule fails, even if the rule found nothing in them)
}

func NewR(w *World, prop, tier string) *R {
	return &R{W: w, Prop: prop, Tier: tier, RuleDocs: map[string]string{}, floors: map[string]int{}, Extra: map[string]interface{}{}}
}

// Rule declares a rule and its floor: the minimum number of distinct source functions in which the rule must
// find an obligation (non-vacuity: an anchor that was renamed or moved makes the rule fail instead of pass).
// Counting functions rather than sites keeps the floor indifferent to merging or splitting of call sites.
func (r *R) Rule(id, doc string, floor int) {
	r.RuleDocs[id] = doc
	r.ruleSeq = append(r.ruleSeq, id)
	r.floors[id] = floor
}

// floorCounts: per rule, the number of distinct source functions (closures count as their enclosing function)
// that carry a non-info obligation.
func (r *R) floorCounts() map[string]int {
	seen := map[string]bool{}
	counts := map[string]int{}
	for _, o := range r.Obs {
		if o.Status == Info {
			continue
		}
		f := o.Func
		if i := strings.Index(f, "$"); i >= 0 {
			f = f[:i]
		}
		k := o.Rule + "\x00" + f
		if !seen[k] {
			seen[k] = true
			counts[o.Rule]++
		}
	}
	return counts
}

func fnShort(fn *ssa.Function) string {
	if fn == nil {
		return "?"
	}
	return shortName(fn.String())
}

func (r *R) add(rule string, fn *ssa.Function, construct string, pos token.Pos, st Status, detail string) {
	r.addS(rule, fnShort(fn), construct, r.W.Pos(pos), st, detail)
}

func (r *R) addS(rule, fn, construct, pos string, st Status, detail string) {
	if _, ok := r.RuleDocs[rule]; !ok {
		panic("undeclared rule " + rule)
	}
	r.Obs = append(r.Obs, Ob{rule, fn, construct, pos, st, detail})
}

func (r *R) Ok(rule string, fn *ssa.Function, construct string, pos token.Pos, detail string) {
	r.add(rule, fn, construct, pos, OK, detail)
}
func (r *R) Bad(rule string, fn *ssa.Function, construct string, pos token.Pos, detail string) {
	r.add(rule, fn, construct, pos, Violation, detail)
}
func (r *R) Und(rule string, fn *ssa.Function, construct string, pos token.Pos, detail string) {
	r.add(rule, fn, construct, pos, Undecided, detail)
}
func (r *R) Info(rule string, fn *ssa.Function, construct string, pos token.Pos, detail string) {
	r.add(rule, fn, construct, pos, Info, detail)
}

// Check records ok/violation depending on cond.
func (r *R) Check(cond bool, rule string, fn *ssa.Function, construct string, pos token.Pos, okDetail, badDetail string) bool {
	if cond {
		r.Ok(rule, fn, construct, pos, okDetail)
	} else {
		r.Bad(rule, fn, construct, pos, badDetail)
	}
	return cond
}

// NeedFn resolves an anchored function or records an undecided obligation.
func (r *R) NeedFn(rule, name string) *ssa.Function {
	fn := r.W.Fn(name)
	if fn == nil || len(fn.Blocks) == 0 {
		r.addS(rule, name, "anchor", "-", Undecided, "anchored function not found in the loaded program")
		return nil
	}
	r.Anchors = append(r.Anchors, fn)
	return fn
}

// ---------------------------------------------------------------------------
// known findings

type knownFinding struct {
	Prop string
	Key  string
	Text string
}

func loadKnown(path string) ([]knownFinding, error) {
	f, err := os.Open(path)
	if err != nil {
		if os.IsNotExist(err) {
			return nil, nil
		}
		return nil, err
	}
	defer f.Close()
	var out []knownFinding
	sc := bufio.NewScanner(f)
	for sc.Scan() {
		line := strings.TrimSpace(sc.Text())
		if !strings.HasPrefix(line, "finding:") {
			continue // comments and "fixed:" lines suppress nothing
		}
		rest := strings.TrimSpace(strings.TrimPrefix(line, "finding:"))
		var kf knownFinding
		for _, tok := range strings.Fields(rest) {
			if strings.HasPrefix(tok, "property=") && kf.Prop == "" {
				kf.Prop = strings.TrimPrefix(tok, "property=")
			} else if strings.HasPrefix(tok, "key=") && kf.Key == "" {
				kf.Key = strings.TrimPrefix(tok, "key=")
			}
		}
		if i := strings.Index(rest, " -- "); i >= 0 {
			kf.Text = rest[i+4:]
		}
		if kf.Prop != "" && kf.Key != "" {
			out = append(out, kf)
		}
	}
	return out, sc.Err()
}

// Verdict applies floors and the known-findings file and reports whether the run fails, and the first failing key
// (used by the in-process self-test; writes nothing).
func (r *R) Verdict(verifDir string) (fail bool, first string) {
	counts := r.floorCounts()
	known, _ := loadKnown(verifDir + "/known_findings.txt")
	for _, o := range r.Obs {
		switch o.Status {
		case Undecided:
			if os.Getenv("ARVCHECK_SELFTEST_DEBUG") != "" {
				fmt.Println("  DEBUG undecided", o.Key(), o.Pos, o.Detail)
			}
			return true, o.Rule
		case Violation:
			isKnown := false
			for _, k := range known {
				if k.Prop == r.Prop && k.Key == o.Key() {
					isKnown = true
				}
			}
			if !isKnown {
				if os.Getenv("ARVCHECK_SELFTEST_DEBUG") != "" {
					fmt.Println("  DEBUG violation", o.Key(), o.Pos, o.Detail)
				}
				return true, o.Rule
			}
		}
	}
	for _, id := range r.ruleSeq {
		if counts[id] < r.floors[id] {
			return true, id + " (floor)"
		}
	}
	return false, ""
}

// ---------------------------------------------------------------------------
// finishing a run: floors, evidence, exit code

type evidence struct {
	PropertyID  string                 `json:"property_id"`
	Tier        string                 `json:"tier"`
	Seed        int                    `json:"seed"`
	Level       string                 `json:"level"`
	Coverage    map[string]interface{} `json:"coverage"`
	Assumptions []string               `json:"assumptions"`
	WallS       float64                `json:"wall_s"`
	Violations  int                    `json:"violations"`
}

func (r *R) Finish(verifDir string, start time.Time, seed int) int {
	// floors
	counts := r.floorCounts()
	for _, id := range r.ruleSeq {
		if counts[id] < r.floors[id] {
			r.addS(id, "-", "floor", "-", Undecided,
				fmt.Sprintf("rule found obligations in %d functions, floor is %d: anchors moved or renamed; the rule would pass vacuously", counts[id], r.floors[id]))
		}
	}
	known, err := loadKnown(verifDir + "/known_findings.txt")
	if err != nil {
		fmt.Printf("cannot read known findings: %v\n", err)
		return 2
	}
	var viol, und, knownHit []Ob
	nOK, nInfo := 0, 0
	distinct := map[string]bool{}
	for _, o := range r.Obs {
		switch o.Status {
		case OK:
			nOK++
			distinct[o.Key()] = true
		case Info:
			nInfo++
		case Undecided:
			und = append(und, o)
			distinct[o.Key()] = true
		case Violation:
			distinct[o.Key()] = true
			isKnown := false
			for _, k := range known {
				if k.Prop == r.Prop && k.Key == o.Key() {
					isKnown = true
				}
			}
			if isKnown {
				knownHit = append(knownHit, o)
			} else {
				viol = append(viol, o)
			}
		}
	}
	if os.Getenv("ARVCHECK_DUMP_OBS") != "" {
		for _, o := range r.Obs {
			fmt.Printf("OB\t%s\t%s\t%s\t%s\t%s\n", o.Rule, o.Status, o.Func, o.Construct, o.Pos)
		}
	}
	// per-rule summary
	perRule := map[string]map[string]int{}
	for _, o := range r.Obs {
		if perRule[o.Rule] == nil {
			perRule[o.Rule] = map[string]int{}
		}
		perRule[o.Rule][string(o.Status)]++
	}
	for _, id := range r.ruleSeq {
		m := perRule[id]
		fmt.Printf("%-8s ok=%d violation=%d undecided=%d info=%d  %s\n", id, m["ok"], m["violation"], m["undecided"], m["info"], r.RuleDocs[id])
	}
	printed := map[string]bool{}
	for _, o := range knownHit {
		if printed[o.Key()] {
			continue
		}
		printed[o.Key()] = true
		fmt.Printf("KNOWN-FINDING: property=%s %s at %s — %s\n", r.Prop, o.Key(), o.Pos, o.Detail)
	}
	for _, o := range und {
		fmt.Printf("UNDECIDED %s at %s — %s\n", o.Key(), o.Pos, o.Detail)
	}
	for _, o := range viol {
		fmt.Printf("FAIL %s at %s — %s\n", o.Key(), o.Pos, o.Detail)
	}

	nObl := len(r.Obs) - nInfo
	samples := []Ob{}
	seenRule := map[string]int{}
	for _, o := range r.Obs {
		if o.Status == Info {
			continue
		}
		if seenRule[o.Rule] < 3 {
			samples = append(samples, o)
			seenRule[o.Rule]++
		}
	}
	rules := []string{}
	for _, id := range r.ruleSeq {
		rules = append(rules, id+": "+r.RuleDocs[id])
	}
	sort.Strings(r.NotDec)
	knownKeys := []string{}
	for k := range printed {
		knownKeys = append(knownKeys, k)
	}
	sort.Strings(knownKeys)
	cov := map[string]interface{}{
		"explanation":         r.Explain,
		"obligations":         nObl,
		"discharged":          nOK,
		"evaluations":         nObl,
		"distinct_nontrivial": len(distinct),
		"rule":                "each obligation is one (rule, function, construct) instance found in the SSA/type-checked program of /repo's working tree; distinct = distinct keys; every obligation names a real code construct so all are non-trivial. Rules: " + strings.Join(rules, " | "),
		"samples":             samples,
		"per_rule":            perRule,
		"packages_loaded":     r.W.NPkgs,
		"ssa_functions":       r.W.NFuncs,
		"tolerated_load_errs": len(r.W.LoadErrs),
		"not_decided":         r.NotDec,
		"known_findings_hit":  knownKeys,
		"undecided":           len(und),
		"checker_cmd":         fmt.Sprintf("/verif/bin/arvcheck -prop %s -tier %s", r.Prop, r.Tier),
		"trusted_base":        []string{"go/types", "go/ssa", "golang.org/x/tools/go/packages v0.29.0", "the arvcheck rule tables"},
	}
	for k, v := range r.Extra {
		cov[k] = v
	}
	ev := evidence{
		PropertyID:  r.Prop,
		Tier:        r.Tier,
		Seed:        seed,
		Level:       "other",
		Coverage:    cov,
		Assumptions: r.Assume,
		WallS:       time.Since(start).Seconds(),
		Violations:  len(viol) + len(und),
	}
	os.MkdirAll(verifDir+"/evidence", 0o755)
	b, _ := json.MarshalIndent(ev, "", " ")
	if err := os.WriteFile(verifDir+"/evidence/"+r.Prop+".json", b, 0o644); err != nil {
		fmt.Printf("cannot write evidence: %v\n", err)
		return 2
	}
	vpath := verifDir + "/evidence/" + r.Prop + ".violations.json"
	if len(viol)+len(und) > 0 {
		vb, _ := json.MarshalIndent(map[string]interface{}{"property": r.Prop, "violations": viol, "undecided": und}, "", " ")
		os.WriteFile(vpath, vb, 0o644)
		fmt.Printf("VIOLATION property=%s replay=%s\n", r.Prop, vpath)
		return 1
	}
	os.Remove(vpath)
	fmt.Printf("PASS property=%s tier=%s obligations=%d discharged=%d known_findings=%d pkgs=%d ssa_funcs=%d wall=%.1fs\n",
		r.Prop, r.Tier, nObl, nOK, len(printed), r.W.NPkgs, r.W.NFuncs, time.Since(start).Seconds())
	return 0
}
