package main

import (
	"strings"

	"golang.org/x/tools/go/ssa"
)

// Rules added after round 4 of the seeded changes (DESIGN.md section 8): all post-hoc.

func init() {
	extraRules["C03"] = append(extraRules["C03"], c03ReadEOF)
	extraRules["C07"] = append(extraRules["C07"], c07ParseWidth)
	extraRules["C08"] = append(extraRules["C08"], c08AppendReposition)
	extraRules["C09"] = append(extraRules["C09"], c09EmptyDirMarker)
}

// c03ReadEOF (C03-R9): HashCheckingReader.Read never hands io.EOF to its caller without having compared the digest.
func c03ReadEOF(r *R) {
	const rule = "C03-R9"
	r.Rule(rule, "HashCheckingReader.Read: every return is reached either with err != io.EOF established, or through the digest comparison (hashing the last bytes and testing the checksum are not alternatives)", 1)
	fn := r.NeedFn(rule, "("+kcl+".HashCheckingReader).Read")
	if fn == nil {
		return
	}
	var rd ssa.CallInstruction
	for _, c := range CallsMatching(fn, func(n string, c *ssa.CallCommon) bool { return c.IsInvoke() && bareName(n) == "Read" }) {
		rd = c
	}
	if rd == nil {
		r.Und(rule, fn, "underlying Read", fn.Pos(), "not found")
		return
	}
	errV := ResultVP(rd.Value(), 1)
	notEOF := NeqC("err != io.EOF", errV, GlobalVP("io.EOF"))
	sumTest := hcrSumEq()
	for _, ret := range Returns(fn) {
		cut := EdgeSet{}
		es, _ := IfEdges(fn, notEOF.Match)
		cut.Add(es)
		// both outcomes of the digest comparison count as "compared"
		for _, b := range fn.Blocks {
			if iff, ok := lastInstr(b).(*ssa.If); ok {
				if m, _ := sumTest.Match(iff.Cond); m {
					cut[E(b, 0)] = true
					cut[E(b, 1)] = true
				}
			}
		}
		ok := !ReachFromInstr(rd.(ssa.Instruction), ret, cut)
		r.Check(ok, rule, fn, "return n, err", ret.Pos(), "EOF reaches the caller only through the digest comparison", "Read can return io.EOF without comparing the digest (e.g. when the last bytes and EOF arrive together): corrupt data ends as a clean read")
	}
}

// c07ParseWidth (C07-R8): the expiry field is parsed as a 64-bit (or int-sized) hexadecimal number.
func c07ParseWidth(r *R) {
	const rule = "C07-R8"
	r.Rule(rule, "parseHexTimestamp: strconv.ParseInt(s, 16, 0|64) — base 16 and no narrower width (8 hex digits reach 2^32-1; SignLocator emits what Unix() returns)", 1)
	fn := r.NeedFn(rule, arv+".parseHexTimestamp")
	if fn == nil {
		return
	}
	n := 0
	for _, c := range CallsMatching(fn, func(nm string, _ *ssa.CallCommon) bool {
		return nm == "strconv.ParseInt" || nm == "strconv.ParseUint"
	}) {
		n++
		a := c.Common().Args
		base, ok1 := ConstInt(a[1])
		bits, ok2 := ConstInt(a[2])
		r.Check(ok1 && ok2 && base == 16 && (bits == 0 || bits == 64) && same(a[0], fn.Params[0]), rule, fn, "ParseInt(timestampHex, 16, 0)", c.Pos(), "hexadecimal, full width", "the expiry field is not parsed as a full-width hexadecimal number: valid signatures with large expiry values are rejected (or wrong ones accepted)")
	}
	if n == 0 {
		r.Bad(rule, fn, "ParseInt(timestampHex, 16, 0)", fn.Pos(), "expiry parser not found")
	}
}

// c08AppendReposition (C08-R7): a handle opened with O_APPEND writes at the current end of file, whatever it did before.
func c08AppendReposition(r *R) {
	const rule = "C08-R7"
	r.Rule(rule, "filehandle.Write: with f.append set (on a file node) the pointer is reset to {off: size, segmentIdx: len(segments)} on every path to inode.Write — no further condition", 1)
	fn := r.NeedFn(rule, "(*"+arv+".filehandle).Write")
	if fn == nil {
		return
	}
	// the reposition: stores of fn.fileinfo.size into f.ptr.off
	var repos []ssa.Instruction
	allInstrs(fn, func(in ssa.Instruction) {
		st, ok := in.(*ssa.Store)
		if !ok {
			return
		}
		if _, f, _, ok := FieldName(st.Addr); ok && f == "off" {
			if _, f2, _, ok2 := LoadedField(st.Val); ok2 && f2 == "size" {
				repos = append(repos, in)
			}
		}
	})
	// whole-struct store `f.ptr = filenodePtr{off: size, …}`
	allInstrs(fn, func(in ssa.Instruction) {
		st, ok := in.(*ssa.Store)
		if !ok {
			return
		}
		if _, f, _, ok := FieldName(st.Addr); ok && f == "ptr" {
			cf := compositeFields(st.Val)
			if v := cf["off"]; v != nil {
				if _, f2, _, ok2 := LoadedField(v); ok2 && f2 == "size" {
					repos = append(repos, in)
				}
			}
		}
	})
	if len(repos) == 0 {
		r.Bad(rule, fn, "f.ptr = {off: size…}", fn.Pos(), "O_APPEND repositioning not found")
		return
	}
	for _, c := range CallsMatching(fn, func(nm string, c *ssa.CallCommon) bool { return nm == "("+arv+".inode).Write" }) {
		ok := GuardOrPass(fn, nil, c.(ssa.Instruction), repos,
			FalseC("f.append", FieldVP(arv+".filehandle", "append", nil)),
			FalseC("inode is a *filenode", func(v ssa.Value) bool {
				e, ok := Resolve1(v).(*ssa.Extract)
				if !ok || e.Index != 1 {
					return false
				}
				_, isTA := e.Tuple.(*ssa.TypeAssert)
				return isTA
			}))
		r.Check(ok, rule, fn, "inode.Write(p, f.ptr)", c.Pos(), "an append handle always writes at EOF", "an O_APPEND handle can write at a stale offset (e.g. after the file was truncated through another handle): the write is not at the end of the file")
	}
}

// c09EmptyDirMarker (C09-R7): loading an empty-directory marker still creates the directory chain.
func c09EmptyDirMarker(r *R) {
	const rule = "C09-R7"
	r.Rule(rule, "createFileAndParents: the early success return for the `.` marker (nil file, nil error) comes only after the loop that creates the parent directories", 1)
	fn := r.NeedFn(rule, "(*"+arv+".dirnode).createFileAndParents")
	if fn == nil {
		return
	}
	// the parent-creating loop: the loop that contains the call inode.Child(name, func…) creating directories
	var loopHdr *ssa.BasicBlock
	for _, c := range CallsMatching(fn, func(nm string, c *ssa.CallCommon) bool { return nm == "("+arv+".inode).Child" }) {
		if h := loopHeaderOf(c.Block()); h != nil {
			loopHdr = h
		}
	}
	if loopHdr == nil {
		r.Bad(rule, fn, "parent-creating loop", fn.Pos(), "no loop calling Child() for the leading path components")
		return
	}
	body := loopBody(loopHdr)
	n := 0
	for _, ret := range Returns(fn) {
		if body[ret.Block()] || !MaybeSuccess(fn, ret) {
			continue // error returns
		}
		// returns that can hand back (nil, nil): the marker case and the final return
		n++
		ok := loopHdr.Dominates(ret.Block())
		r.Check(ok, rule, fn, "return after the parent loop", ret.Pos(), "parents exist before any success return", "a success return can be reached before the parent directories were created: a stream holding only the empty-directory marker creates nothing, so empty directories vanish when a saved manifest is loaded")
	}
	if n == 0 {
		r.Bad(rule, fn, "returns", fn.Pos(), "no return after the loop")
	}
	_ = strings.Contains
}

func init() {
	extraRules["C11"] = append(extraRules["C11"], c11BodyRead)
	extraRules["C12"] = append(extraRules["C12"], c12NoMapOrder)
	extraRules["C14"] = append(extraRules["C14"], c14IdleAfterStaleGuard)
	extraRules["C15"] = append(extraRules["C15"], c15QueuedKill)
	extraRules["C17"] = append(extraRules["C17"], c17MountsBelowBoundary)
	extraRules["C19"] = append(extraRules["C19"], c19BootstrapToken)
}

// c11BodyRead (C11-R7): the locator of a successful upload is the complete response body.
func c11BodyRead(r *R) {
	const rule = "C11-R7"
	r.Rule(rule, "uploadToKeepServer: the response text reported with a nil error is the result of ReadAll on the response body (a read that ends only at EOF), trimmed", 1)
	fn := r.NeedFn(rule, "(*"+kcl+".KeepClient).uploadToKeepServer")
	if fn == nil {
		return
	}
	n := 0
	allInstrs(fn, func(in ssa.Instruction) {
		s, ok := in.(*ssa.Send)
		if !ok {
			return
		}
		cf := compositeFields(s.X)
		if e := cf["err"]; e == nil || !IsNilConst(e) {
			return
		}
		n++
		v := cf["response"]
		okv := false
		for depth := 0; v != nil && depth < 6; depth++ {
			v = Resolve1(v)
			if cv, isConv := v.(*ssa.Convert); isConv {
				v = cv.X
				continue
			}
			if c, isC := v.(*ssa.Call); isC && CalleeName(c.Common()) == "strings.TrimSpace" {
				v = c.Call.Args[0]
				continue
			}
			if c, idx := ResultOf(v); c != nil {
				nm := CalleeName(c.Common())
				okv = idx == 0 && (nm == "io/ioutil.ReadAll" || nm == "io.ReadAll")
			}
			break
		}
		r.Check(okv, rule, fn, "uploadStatus{nil, …, response}", in.Pos(), "response = TrimSpace(string(ReadAll(body)))", "the locator reported for a successful upload is not the complete response body (a read that can stop short is treated as complete)")
	})
	if n == 0 {
		r.Bad(rule, fn, "success status", fn.Pos(), "no status with a nil error is sent")
	}
}

// c12NoMapOrder (C12-R7): no probe list is built in map-iteration order.
func c12NoMapOrder(r *R) {
	const rule = "C12-R7"
	r.Rule(rule, "putReplicas / getOrHead / getSortedRoots: no list of services is appended to inside a loop that ranges over a map (probe order never depends on map iteration order)", 2)
	for _, name := range []string{"(*" + kcl + ".KeepClient).putReplicas", "(*" + kcl + ".KeepClient).getOrHead", "(*" + kcl + ".KeepClient).getSortedRoots"} {
		fn := r.NeedFn(rule, name)
		if fn == nil {
			continue
		}
		bad := false
		var at ssa.Instruction
		allInstrs(fn, func(in ssa.Instruction) {
			rg, ok := in.(*ssa.Range)
			if !ok {
				return
			}
			if !strings.HasPrefix(typeString(rg.X.Type().Underlying()), "map[") {
				return
			}
			// the loop driven by this iterator
			for _, ref := range *rg.Referrers() {
				nx, ok := ref.(*ssa.Next)
				if !ok {
					continue
				}
				hdr := nx.Block()
				for b := range loopBody(hdr) {
					for _, x := range b.Instrs {
						if c, ok := x.(*ssa.Call); ok && CalleeName(c.Common()) == "builtin.append" && typeString(c.Type()) == "[]string" {
							onlyMap := len(*c.Referrers()) > 0
							for _, u := range *c.Referrers() {
								if _, isMU := u.(*ssa.MapUpdate); !isMU {
									onlyMap = false
								}
							}
							if onlyMap {
								continue // copying a header map value, not building a list of services
							}
							bad = true
							at = x
						}
					}
				}
			}
		})
		pos := fn.Pos()
		if at != nil {
			pos = at.Pos()
		}
		r.Check(!bad, rule, fn, "service lists", pos, "not built in map order", "a list of services is built while ranging over a map: the order in which services are (re)tried is random instead of the rendezvous order")
	}
}

// c14IdleAfterStaleGuard (C14-R9): a worker leaves Unknown/Booting only with its process list applied.
func c14IdleAfterStaleGuard(r *R) {
	const rule = "C14-R9"
	r.Rule(rule, "probeAndUpdate: wkr.state = StateIdle (first successful boot probe) only after the stale-probe test `updated == wkr.updated` passed and updateRunning(ctrUUIDs) was applied", 1)
	fn := r.NeedFn(rule, "(*"+wk+".worker).probeAndUpdate")
	if fn == nil {
		return
	}
	n := 0
	ur := CallsIn(fn, "(*"+wk+".worker).updateRunning")
	for _, st := range StoresToField(fn, wk+".worker", "state") {
		if k, ok := ConstInt(st.Val); !ok || k != stateConst(r.W, "StateIdle") {
			continue
		}
		n++
		g, _ := Guard(fn, nil, st, EqC("updated == wkr.updated", FieldVP(wk+".worker", "updated", nil), AnyV))
		okUR := len(ur) == 1 && MustPassFromEntry(fn, st, []ssa.Instruction{ur[0].(ssa.Instruction)})
		r.Check(g && okUR, rule, fn, "wkr.state = StateIdle", st.Pos(), "after the stale-probe guard and updateRunning", "a worker can become Idle from a probe that is already stale (staleGuard="+boolS(g)+" updateRunning="+boolS(okUR)+"): processes found by that probe are not recorded and their containers can be started a second time")
	}
	if n == 0 {
		r.Bad(rule, fn, "wkr.state = StateIdle", fn.Pos(), "first-boot transition not found")
	}
}

// c15QueuedKill (C15-R8): a process still attached to a container that went back to Queued is always killed/forgotten.
func c15QueuedKill(r *R) {
	const rule = "C15-R8"
	r.Rule(rule, "Scheduler.sync, Queued arm: whenever the pool still reports the container (running), kill() is started — no further condition (kill is what clears the pool's exited placeholder)", 1)
	fn := r.NeedFn(rule, "(*"+sc+".Scheduler).sync")
	if fn == nil {
		return
	}
	// the `go sch.kill(uuid, fmt.Sprintf("state=%s", …))` of the Queued arm
	var kill ssa.Instruction
	allInstrs(fn, func(in ssa.Instruction) {
		g, ok := in.(*ssa.Go)
		if !ok || CalleeName(g.Common()) != "(*"+sc+".Scheduler).kill" {
			return
		}
		a := CallArgs(g.Common())
		if f, _, ok := SprintfCall(a[1]); ok && strings.HasPrefix(f, "state=") {
			kill = in
		}
	})
	if kill == nil {
		r.Bad(rule, fn, "go sch.kill(uuid, \"state=…\")", fn.Pos(), "the Queued arm no longer kills a lingering process")
		return
	}
	// entry of the Queued arm: the true edges of State == Queued
	isQueued := EqC("State == Queued", func(v ssa.Value) bool { _, f, _, ok := LoadedField(v); return ok && f == "State" }, ConstStrVP("Queued"))
	es, _ := IfEdges(fn, isQueued.Match)
	hdr := loopHeaderOf(kill.Block())
	if len(es) == 0 || hdr == nil {
		r.Und(rule, fn, "Queued arm", kill.Pos(), "cannot locate the State == Queued test or the enclosing loop")
		return
	}
	running := FalseC("!running", func(v ssa.Value) bool {
		e, ok := Resolve1(v).(*ssa.Extract)
		if !ok || e.Index != 1 {
			return false
		}
		_, isL := e.Tuple.(*ssa.Lookup)
		return isL
	})
	cut, _ := IfEdges(fn, running.Match)
	ok := true
	for e := range es {
		start := e.From.Succs[e.Succ]
		// from the arm's entry, the next iteration (loop header) is reached only through kill or with !running
		if reachAvoidingFromBlockStartCut(start, hdr.Instrs[0], map[ssa.Instruction]bool{kill: true}, cut) {
			ok = false
		}
	}
	r.Check(ok, rule, fn, "Queued ∧ running ⇒ kill", kill.Pos(), "unconditional", "a container that went back to Queued while the pool still lists it is not always killed/forgotten: the pool's placeholder stays and runQueue never starts it again")
}

func reachAvoidingFromBlockStartCut(b *ssa.BasicBlock, to ssa.Instruction, avoid map[ssa.Instruction]bool, cut EdgeSet) bool {
	found := false
	walk(entryNodes(b), cut, func(n wnode) bool {
		if found {
			return false
		}
		for _, in := range n.b.Instrs {
			if in == to {
				found = true
				return false
			}
			if avoid[in] {
				return false
			}
		}
		return true
	})
	return found
}

// c17MountsBelowBoundary (C17-R7): "mounted below src" is decided on a path-component boundary.
func c17MountsBelowBoundary(r *R) {
	const rule = "C17-R7"
	r.Rule(rule, "copier.walkMountsBelow: a mount is processed only if strings.HasPrefix(mnt, src+\"/\") — the prefix test ends at a path separator", 1)
	fn := r.NeedFn(rule, "(*"+cr+".copier).walkMountsBelow")
	if fn == nil {
		return
	}
	src := paramOf(fn, "src")
	below := TrueC("HasPrefix(mnt, src+\"/\")", func(v ssa.Value) bool {
		c, ok := Resolve1(v).(*ssa.Call)
		if !ok || CalleeName(c.Common()) != "strings.HasPrefix" {
			return false
		}
		parts := SeqCanon(ByteSeq(c.Call.Args[1]))
		return len(parts) == 2 && parts[0] == Canon(src) && parts[1] == `"/"`
	})
	n := 0
	for _, c := range CallsMatching(fn, func(nm string, _ *ssa.CallCommon) bool {
		return strings.HasSuffix(nm, "copier).walkMount") || strings.HasSuffix(nm, "copier).copyRegularFiles")
	}) {
		n++
		g, _ := Guard(fn, nil, c.(ssa.Instruction), below)
		r.Check(g, rule, fn, "process mount "+bareName(CalleeName(c.Common())), c.Pos(), "only mounts whose path starts with src+\"/\"", "a mount that merely shares a string prefix with src (a sibling such as src+\"-inputs\") is copied into the output")
	}
	if n == 0 {
		r.Bad(rule, fn, "mount processing", fn.Pos(), "walkMount/copyRegularFiles calls not found")
	}
}

// c19BootstrapToken (C19-R8): the client keepstore caches per remote never carries a caller's token.
func c19BootstrapToken(r *R) {
	const rule = "C19-R8"
	r.Rule(rule, "keepstore remoteClient: the arvados.Client built for service discovery (cached per remote) has a constant placeholder AuthToken — never the caller's token", 1)
	fn := r.NeedFn(rule, "(*"+ks+".remoteProxy).remoteClient")
	if fn == nil {
		return
	}
	n := 0
	for _, st := range StoresToField(fn, arv+".Client", "AuthToken") {
		n++
		_, isC := ConstString(st.Val)
		r.Check(isC, rule, fn, "arvados.Client{AuthToken: …}", st.Pos(), "constant placeholder", "the discovery client for a remote cluster is created with a caller's token: the unsalted secret is sent to the remote's API server (discovery document, keep_services/accessible)")
	}
	if n == 0 {
		r.Info(rule, fn, "arvados.Client{AuthToken: …}", fn.Pos(), "no AuthToken set on the discovery client")
	}
}
