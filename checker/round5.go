package main

import (
	"go/ast"
	"go/token"
	"strconv"
	"strings"

	"golang.org/x/tools/go/ssa"
)

// Rules added after round 5 of the seeded changes (DESIGN.md section 8): all post-hoc.

func init() {
	extraRules["C01"] = append(extraRules["C01"], c01BufferPool)
	extraRules["C07"] = append(extraRules["C07"], c07ExpiredFirst)
	extraRules["C19"] = append(extraRules["C19"], c19TokenFormatGuard)
	extraRules["C20"] = append(extraRules["C20"], c20FreshFilter)
}

// usesValue: instruction `in` has v (or a slice/conversion of v) among its operands.
func usesValue(in ssa.Instruction, v ssa.Value) bool {
	for _, op := range in.Operands(nil) {
		if op == nil || *op == nil {
			continue
		}
		x := *op
		for i := 0; i < 4 && x != nil; i++ {
			if x == v {
				return true
			}
			switch y := x.(type) {
			case *ssa.Slice:
				x = y.X
			case *ssa.ChangeType:
				x = y.X
			case *ssa.Convert:
				x = y.X
			case *ssa.MakeInterface:
				x = y.X
			default:
				x = nil
			}
		}
	}
	return false
}

// c01BufferPool (C01-R10): a block buffer is handed back to the pool at most once per acquisition and is not
// touched after it was handed back. A buffer that is in the pool twice is given to two concurrent requests:
// a GET then streams bytes that another request is overwriting (200, right length, wrong MD5).
func c01BufferPool(r *R) {
	const rule = "C01-R10"
	r.Rule(rule, "block buffers: on every path a buffer is returned to bufferPool at most once (explicit Put and deferred Put never both run for the same buffer) and is never used after an explicit Put", 2)
	put := "(*" + ks + ".bufferPool).Put"
	for _, fn := range r.W.FuncsIn(ks) {
		var puts []ssa.CallInstruction
		for _, c := range CallsIn(fn, put) {
			puts = append(puts, c)
		}
		if len(puts) == 0 || r.W.fileOf(fn) != "handlers.go" {
			continue // C01's anchors: the GET/PUT handlers (the remote proxy has its own response path)
		}
		bufOf := func(c ssa.CallInstruction) ssa.Value {
			a := CallArgs(c.Common())
			if len(a) == 0 {
				return nil
			}
			return Strip(a[0])
		}
		for _, p := range puts {
			buf := bufOf(p)
			if buf == nil {
				r.Und(rule, fn, "bufs.Put(buf)", p.Pos(), "buffer argument not identified")
				continue
			}
			_, pDeferred := p.(*ssa.Defer)
			bad := ""
			for _, q := range puts {
				if q == p || bufOf(q) != buf {
					continue
				}
				// p then q on some path (a deferred Put runs at the exit, i.e. after everything that follows its registration)
				if ReachFromInstr(p.(ssa.Instruction), q.(ssa.Instruction), nil) {
					bad = "the same buffer is handed back to the pool twice on a path (second Put at " + r.W.Pos(q.Pos()) + ")"
				}
			}
			if !pDeferred && bad == "" {
				// use after an explicit Put
				reach := ReachableBlocksFromInstr(p.(ssa.Instruction), nil)
				allInstrs(fn, func(in ssa.Instruction) {
					if bad != "" || in == p.(ssa.Instruction) {
						return
					}
					if _, isPhi := in.(*ssa.Phi); isPhi {
						return
					}
					if _, isDbg := in.(*ssa.DebugRef); isDbg {
						return
					}
					if !usesValue(in, buf) {
						return
					}
					if in.Block() == p.Block() {
						if !Before(p.(ssa.Instruction), in) {
							// earlier in the same block: only a problem if the block is in a cycle through p
							if !reach[in.Block()] {
								return
							}
							if !ReachFromInstr(p.(ssa.Instruction), in, nil) {
								return
							}
						}
					} else if !reach[in.Block()] {
						return
					}
					if c, isCall := in.(ssa.CallInstruction); isCall && CalleeName(c.Common()) == put {
						return // reported as a double Put above
					}
					bad = "the buffer is used at " + r.W.Pos(posOf(in)) + " after it was handed back to the pool"
				})
			}
			r.Check(bad == "", rule, fn, "bufs.Put(buf)", p.Pos(), "at most once per buffer, nothing touches the buffer afterwards",
				bad+": two concurrent requests can be given the same memory, so a GET can answer 200 with bytes that another request is overwriting")
		}
	}
}

// c07ExpiredFirst (C07-R9): a well-formed signature whose expiry has passed is reported as expired — whatever
// else is wrong with it. Every other outcome of VerifySignature (nil, invalid, missing) is therefore behind
// "no match", "expiry unparseable" or "not expired".
func c07ExpiredFirst(r *R) {
	const rule = "C07-R9"
	r.Rule(rule, "arvados.VerifySignature: every return other than ErrSignatureExpired is reached only through `no regexp match`, `expiry does not parse` or `NOT expiry.Before(now)` — an expired well-formed hint is never reported as invalid/missing", 1)
	fn := r.NeedFn(rule, arv+".VerifySignature")
	if fn == nil {
		return
	}
	fsm := CallsIn(fn, "(*regexp.Regexp).FindStringSubmatch")
	if len(fsm) != 1 {
		r.Und(rule, fn, "FindStringSubmatch", fn.Pos(), "expected one regexp match")
		return
	}
	m := fsm[0].Value()
	var ph ssa.CallInstruction
	for _, c := range CallsIn(fn, arv+".parseHexTimestamp") {
		if isGroup(c.Common().Args[0], m, 7) {
			ph = c
		}
	}
	if ph == nil {
		r.Und(rule, fn, "parseHexTimestamp(group 7)", fn.Pos(), "expiry parse not found")
		return
	}
	unexpired := FalseC("expiryTime.Before(time.Now())", func(v ssa.Value) bool {
		c, ok := Resolve1(v).(*ssa.Call)
		if !ok {
			return false
		}
		switch CalleeName(c.Common()) {
		case "(time.Time).Before":
			return IsResultOfCall(Resolve1(c.Call.Args[0]), ph.Value(), 0) && isTimeNow(c.Call.Args[1])
		case "(time.Time).After":
			return isTimeNow(c.Call.Args[0]) && IsResultOfCall(Resolve1(c.Call.Args[1]), ph.Value(), 0)
		}
		return false
	})
	noMatch := EqC("matches == nil", Is(m), NilV)
	badParse := NotC(ErrNilC(ph))
	for _, ret := range Returns(fn) {
		isExpired := false
		for _, v := range returnOperand(ret, ret.Results[0]) {
			if v == nil {
				continue
			}
			if g, ok := LoadedGlobal(Resolve1(v)); ok && g == arv+".ErrSignatureExpired" {
				isExpired = true
			}
		}
		if isExpired {
			continue
		}
		ok := GuardOrPass(fn, nil, ret, nil, unexpired, noMatch, badParse)
		r.Check(ok, rule, fn, "return (not ErrSignatureExpired)", ret.Pos(), "only for unmatched, unparseable or unexpired hints",
			"an expired, well-formed signature can be reported as something other than expired (e.g. invalid, when the token or key also differs): keepstore then answers 403 instead of the 401 that tells the client to refresh its manifest")
	}
}

// c19TokenFormatGuard (C19-R9): only strings that are not "v2/<uuid>/<secret>[/...]" are classified as
// non-Arvados tokens. Callers pass ErrTokenFormat / ErrObsoleteToken tokens through UNSALTED, so this
// classification is the gate of the whole property.
func c19TokenFormatGuard(r *R) {
	const rule = "C19-R9"
	r.Rule(rule, "auth.SaltToken: ErrTokenFormat / ErrObsoleteToken (callers forward such tokens unsalted) only under len(split(token,\"/\")) < 3 or parts[0] != \"v2\" — a v2 token with extra path segments is salted, not passed through", 1)
	fn := r.NeedFn(rule, authP+".SaltToken")
	if fn == nil {
		return
	}
	tok := paramOf(fn, "token")
	isSplit := func(v ssa.Value) bool {
		c, ok := Resolve1(v).(*ssa.Call)
		return ok && CalleeName(c.Common()) == "strings.Split" && same(c.Call.Args[0], tok)
	}
	lenParts := func(v ssa.Value) bool {
		c, ok := Resolve1(v).(*ssa.Call)
		return ok && CalleeName(c.Common()) == "builtin.len" && isSplit(c.Call.Args[0])
	}
	part0 := func(v ssa.Value) bool {
		u, ok := Resolve1(v).(*ssa.UnOp)
		if !ok || u.Op != token.MUL {
			return false
		}
		ia, ok := u.X.(*ssa.IndexAddr)
		if !ok || !isSplit(ia.X) {
			return false
		}
		i, isC := ConstInt(ia.Index)
		return isC && i == 0
	}
	few := IntC("len(parts) < 3", lenParts, token.LSS, 3, true)
	notV2 := NeqC("parts[0] != \"v2\"", part0, ConstStrVP("v2"))
	n := 0
	for _, ret := range Returns(fn) {
		if len(ret.Results) != 2 {
			continue
		}
		passThrough := false
		for _, v := range returnOperand(ret, ret.Results[1]) {
			if v == nil {
				continue
			}
			if g, ok := LoadedGlobal(Resolve1(v)); ok && (g == authP+".ErrTokenFormat" || g == authP+".ErrObsoleteToken") {
				passThrough = true
			}
		}
		if !passThrough {
			continue
		}
		n++
		ok := GuardOrPass(fn, nil, ret, nil, few, notV2)
		r.Check(ok, rule, fn, "return ErrTokenFormat/ErrObsoleteToken", ret.Pos(), "only for strings with fewer than 3 fields or not starting with v2",
			"a well-formed v2 token (e.g. a container runtime token v2/uuid/secret/ctr-uuid) can be classified as a non-Arvados token: the controller then forwards it to the remote cluster with its secret unsalted")
	}
	if n == 0 {
		r.Bad(rule, fn, "return ErrTokenFormat", fn.Pos(), "format-error return not found")
	}
}

// aliasClass: SSA values that may share a backing array with v (closure over phi edges, reslicing and append results, both ways).
func aliasClass(fn *ssa.Function, v ssa.Value) map[ssa.Value]bool {
	cls := map[ssa.Value]bool{Strip(v): true}
	for changed := true; changed; {
		changed = false
		add := func(x ssa.Value) {
			x = Strip(x)
			if x != nil && !cls[x] {
				cls[x] = true
				changed = true
			}
		}
		allInstrs(fn, func(in ssa.Instruction) {
			switch x := in.(type) {
			case *ssa.Phi:
				any := cls[x]
				for _, e := range x.Edges {
					if cls[Strip(e)] {
						any = true
					}
				}
				if any {
					add(x)
					for _, e := range x.Edges {
						if _, isC := e.(*ssa.Const); !isC {
							add(e)
						}
					}
				}
			case *ssa.Slice:
				if cls[x] || cls[Strip(x.X)] {
					add(x)
					add(x.X)
				}
			case *ssa.Call:
				if CalleeName(x.Common()) == "builtin.append" {
					if cls[x] || cls[Strip(x.Call.Args[0])] {
						add(x)
						add(x.Call.Args[0])
					}
				}
			}
		})
	}
	return cls
}

// c20FreshFilter (C20-R8): the uuid list a backend is asked for is the list as it stands when the request is made.
func c20FreshFilter(r *R) {
	const rule = "C20-R8"
	r.Rule(rule, "splitListRequest: between any in-place rebuild of the batch slice (reslice/append sharing its backing array) and the backend call, the request's Filters are set again — a filter captured earlier keeps the old length over rewritten contents and re-requests UUIDs already delivered", 1)
	fn := r.NeedFn(rule, "(*"+fed+".Conn).splitListRequest")
	if fn == nil {
		return
	}
	n := 0
	for _, cl := range GoBodies(fn) {
		// backend call: dynamic call of the parameter fn with a ListOptions argument
		var call ssa.CallInstruction
		allInstrs(cl, func(in ssa.Instruction) {
			c, ok := in.(*ssa.Call)
			if !ok || c.Call.IsInvoke() || StaticCallee(&c.Call) != nil {
				return
			}
			for _, a := range c.Call.Args {
				if strings.HasSuffix(typeString(a.Type()), "arvados.ListOptions") {
					call = c
				}
			}
		})
		if call == nil {
			continue
		}
		stores := StoresToField(cl, "sdk/go/arvados.ListOptions", "Filters")
		if len(stores) == 0 {
			r.Und(rule, cl, "remoteOpts.Filters = …", call.Pos(), "store not found")
			continue
		}
		n++
		var through []ssa.Instruction
		cls := map[ssa.Value]bool{}
		for _, st := range stores {
			through = append(through, st)
			// operand slice(s) placed in the filter literal
			if sl, ok := Resolve1(st.Val).(*ssa.Slice); ok {
				if al, ok := sl.X.(*ssa.Alloc); ok {
					for _, ref := range *al.Referrers() {
						ia, ok := ref.(*ssa.IndexAddr)
						if !ok {
							continue
						}
						for _, rr := range *ia.Referrers() {
							fa, ok := rr.(*ssa.FieldAddr)
							if !ok {
								continue
							}
							if _, name, _, _ := FieldName(fa); name != "Operand" {
								continue
							}
							for _, r3 := range *fa.Referrers() {
								if s3, ok := r3.(*ssa.Store); ok {
									for k := range aliasClass(cl, s3.Val) {
										cls[k] = true
									}
								}
							}
						}
					}
				}
			}
		}
		if len(cls) == 0 {
			r.Und(rule, cl, "filter operand", call.Pos(), "the slice placed in the filter was not identified")
			continue
		}
		bad := ""
		allInstrs(cl, func(in ssa.Instruction) {
			c, ok := in.(*ssa.Call)
			if !ok || CalleeName(c.Common()) != "builtin.append" || !cls[Strip(c.Call.Args[0])] {
				return
			}
			if !ReachFromInstr(c, call.(ssa.Instruction), nil) {
				return
			}
			if !MustPassBetween(c, call.(ssa.Instruction), through) {
				bad = "the batch is rebuilt in place at " + r.W.Pos(c.Pos()) + " and the backend is then called with Filters set before that"
			}
		})
		r.Check(bad == "", rule, cl, "fn(ctx, clusterID, backend, remoteOpts)", call.Pos(), "Filters are set after the last change to the batch on every path",
			bad+": from the second page on the backend is asked again for UUIDs it already delivered (objects returned twice, or a spurious no-progress error)")
	}
	if n == 0 {
		r.Bad(rule, fn, "per-cluster paging goroutine", fn.Pos(), "backend call not found")
	}
}

func init() {
	extraRules["C05"] = append(extraRules["C05"], c05DefaultClass)
	extraRules["C10"] = append(extraRules["C10"], c10SegmentEveryFile)
	extraRules["C11"] = append(extraRules["C11"], c11GiveUpOnlyWhenExhausted)
	extraRules["C13"] = append(extraRules["C13"], c13WaitIsBarrier)
	extraRules["C09"] = append(extraRules["C09"], c13WaitIsBarrier)
	extraRules["C14"] = append(extraRules["C14"], c14StartingOnlyPromoted)
	extraRules["C15"] = append(extraRules["C15"], c15VanishedAlwaysDropped)
	extraRules["C16"] = append(extraRules["C16"], c16ScratchFormula)
}

// c05DefaultClass (C05-R9): the storage class "default" is always in the table of classes the balancer considers,
// whether or not any mount offers it. Blocks of collections without explicit classes desire "default"; if the
// class is missing from bal.classes, balanceBlock never looks at that desire: the block is not under-replicated
// for any class it considers (so its replicas may be trashed) and is never reported lost.
func c05DefaultClass(r *R) {
	const rule = "C05-R9"
	r.Rule(rule, "setupLookupTables: on every path bal.classes is first set to a list containing \"default\" (defaultClasses) and afterwards only grows by append — the default class is considered even when no mount offers it", 1)
	fn := r.NeedFn(rule, "(*"+kb+".Balancer).setupLookupTables")
	if fn == nil {
		return
	}
	// the package-level defaultClasses literal contains "default"
	globalHasDefault := false
	if pkg := r.W.Pkg(kb); pkg != nil {
		for _, f := range pkg.Syntax {
			ast_inspectValueSpec(f, "defaultClasses", func(lits []string) {
				for _, l := range lits {
					if l == "default" {
						globalHasDefault = true
					}
				}
			})
		}
	}
	var hasDefault func(v ssa.Value, depth int) bool
	hasDefault = func(v ssa.Value, depth int) bool {
		if depth > 4 {
			return false
		}
		v = Resolve1(v)
		if g, ok := LoadedGlobal(v); ok && g == kb+".defaultClasses" {
			return globalHasDefault
		}
		if sl, ok := v.(*ssa.Slice); ok {
			if al, ok := sl.X.(*ssa.Alloc); ok {
				for _, ref := range *al.Referrers() {
					if ia, ok := ref.(*ssa.IndexAddr); ok {
						for _, rr := range *ia.Referrers() {
							if st, ok := rr.(*ssa.Store); ok {
								if s, isC := ConstString(st.Val); isC && s == "default" {
									return true
								}
							}
						}
					}
				}
			}
			return hasDefault(sl.X, depth+1)
		}
		if c, ok := v.(*ssa.Call); ok && CalleeName(c.Common()) == "builtin.append" {
			for _, a := range c.Call.Args {
				if hasDefault(a, depth+1) {
					return true
				}
			}
		}
		return false
	}
	var inits []ssa.Instruction
	okGrow := true
	var badStore *ssa.Store
	for _, st := range StoresToField(fn, kb+".Balancer", "classes") {
		if hasDefault(st.Val, 0) {
			inits = append(inits, st)
			continue
		}
		// growth: append(bal.classes, …)
		grow := false
		if c, ok := Resolve1(st.Val).(*ssa.Call); ok && CalleeName(c.Common()) == "builtin.append" {
			grow = IsFieldLoad(Resolve1(c.Call.Args[0]), kb+".Balancer", "classes")
		}
		if !grow {
			okGrow = false
			badStore = st
		}
	}
	for _, cl := range ClosuresAndHelpers(fn) {
		if cl == fn {
			continue
		}
		for _, st := range StoresToField(cl, kb+".Balancer", "classes") {
			grow := false
			if c, ok := Resolve1(st.Val).(*ssa.Call); ok && CalleeName(c.Common()) == "builtin.append" {
				grow = IsFieldLoad(Resolve1(c.Call.Args[0]), kb+".Balancer", "classes")
			}
			if !grow {
				okGrow = false
				badStore = st
			}
		}
	}
	ok := len(inits) > 0 && okGrow
	for _, ret := range Returns(fn) {
		if len(inits) == 0 || !MustPassFromEntry(fn, ret, inits) {
			ok = false
		}
	}
	pos := fn.Pos()
	if badStore != nil {
		pos = badStore.Pos()
	}
	r.Check(ok, rule, fn, "bal.classes = defaultClasses; later only append", pos, "\"default\" is always a class the balancer considers",
		"the class table is built without an unconditional \"default\" entry: on a cluster where no mount offers the default class, blocks that desire it are never seen as under-replicated (their replicas can be trashed) and are never reported lost")
}

// c10SegmentEveryFile (C10-R8): in Manifest.segment the first token of a file in a stream decides nothing about
// the file's content — the segment iterator (which collects *all* tokens of that name) runs for every new path.
func c10SegmentEveryFile(r *R) {
	const rule = "C10-R8"
	r.Rule(rule, "Manifest.segment: marking a path as done for the current stream and collecting its segments with FileSegmentIterByName(path) happen together on every path (no further condition, e.g. on the first token's length)", 1)
	fn := r.NeedFn(rule, "(*"+mfp+".Manifest).segment")
	if fn == nil {
		return
	}
	var iter ssa.CallInstruction
	for _, c := range CallsMatching(fn, func(n string, _ *ssa.CallCommon) bool { return strings.HasSuffix(n, ".FileSegmentIterByName") }) {
		iter = c
	}
	if iter == nil {
		r.Bad(rule, fn, "FileSegmentIterByName(path)", fn.Pos(), "segment iterator call not found")
		return
	}
	path := CallArgs(iter.Common())[0]
	n := 0
	allInstrs(fn, func(in ssa.Instruction) {
		mu, ok := in.(*ssa.MapUpdate)
		if !ok || typeString(mu.Map.Type()) != "map[string]bool" || !same(mu.Key, path) {
			return
		}
		if b, isC := ConstBool(mu.Value); !isC || !b {
			return
		}
		n++
		h := loopHeaderOf(mu.Block())
		okPair := false
		if h != nil && loopBody(h)[iter.Block()] {
			before := MustPassBetween(h.Instrs[0], mu, []ssa.Instruction{iter.(ssa.Instruction)})
			after := !Reach(fn, mu, h.Instrs[0], nil, map[ssa.Instruction]bool{iter.(ssa.Instruction): true})
			okPair = before || after
		}
		r.Check(okPair, rule, fn, "currentStreamfiles[path] = true ⇔ FileSegmentIterByName(path)", mu.Pos(), "every file seen in a stream has all its tokens collected",
			"a path can be marked as handled for this stream without its segments being collected (e.g. when its first token is empty): the later tokens of that file are dropped and Extract/normalisation emits the file truncated or empty")
	})
	if n == 0 {
		r.Bad(rule, fn, "currentStreamfiles[path] = true", fn.Pos(), "per-stream de-duplication mark not found")
	}
}

// derivesFromField: v is computed from a load of typ.field through phis and arithmetic with constants.
func derivesFromField(v ssa.Value, typ, field string, depth int, seen map[ssa.Value]bool) bool {
	v = Strip(v)
	if v == nil || depth > 8 || seen[v] {
		return false
	}
	seen[v] = true
	if IsFieldLoad(v, typ, field) {
		return true
	}
	switch x := v.(type) {
	case *ssa.Phi:
		for _, e := range x.Edges {
			if derivesFromField(e, typ, field, depth+1, seen) {
				return true
			}
		}
	case *ssa.BinOp:
		if _, isC := x.Y.(*ssa.Const); isC {
			return derivesFromField(x.X, typ, field, depth+1, seen)
		}
		if _, isC := x.X.(*ssa.Const); isC {
			return derivesFromField(x.Y, typ, field, depth+1, seen)
		}
	case *ssa.Convert:
		return derivesFromField(x.X, typ, field, depth+1, seen)
	}
	return false
}

// c11GiveUpOnlyWhenExhausted (C11-R8): putReplicas reports failure from inside the retry loop only when no retry round is left.
func c11GiveUpOnlyWhenExhausted(r *R) {
	const rule = "C11-R8"
	r.Rule(rule, "putReplicas: an error return inside the retry loop is reached only under `retries remaining == 0` (the counter that starts at 1+kc.Retries) — transient failures are retried up to the retry limit, whatever the replica arithmetic says", 1)
	fn := r.NeedFn(rule, "(*"+kcl+".KeepClient).putReplicas")
	if fn == nil {
		return
	}
	retriesVP := func(v ssa.Value) bool {
		return derivesFromField(v, kcl+".KeepClient", "Retries", 0, map[ssa.Value]bool{})
	}
	exhausted := IntC("retriesRemaining == 0", retriesVP, token.LEQ, 0, true)
	n := 0
	for _, ret := range Returns(fn) {
		if succ, _ := IsSuccessReturn(ret); succ {
			continue
		}
		if loopHeaderOf(ret.Block()) == nil {
			// after the loop: not a give-up inside a round
			inLoop := false
			for _, p := range ret.Block().Preds {
				if loopHeaderOf(p) != nil {
					inLoop = true
				}
			}
			if !inLoop {
				continue
			}
		}
		n++
		ok := GuardOrPass(fn, nil, ret, nil, exhausted)
		r.Check(ok, rule, fn, "return InsufficientReplicasError", ret.Pos(), "only when no retry round remains",
			"Put can give up while retry rounds remain (e.g. because the retry list looks too short for the missing replicas): a transient failure is not retried although a retried server could still store enough replicas")
	}
	// the number of rounds is 1 + Retries
	okInit := false
	allInstrs(fn, func(in ssa.Instruction) {
		bo, ok := in.(*ssa.BinOp)
		if !ok || bo.Op != token.ADD {
			return
		}
		x, y := bo.X, bo.Y
		if _, isC := x.(*ssa.Const); !isC {
			x, y = y, x
		}
		if k, isC := ConstInt(x); isC && k == 1 && IsFieldLoad(Strip(y), kcl+".KeepClient", "Retries") {
			okInit = true
		}
	})
	r.Check(okInit && n > 0, rule, fn, "retriesRemaining := 1 + kc.Retries", fn.Pos(), "one attempt plus the configured retries", "the attempt counter is not 1 + kc.Retries, or no give-up return was found in the retry loop")
}

// c13WaitIsBarrier (C13-R6): contextGroup.Wait returns only after every function started with Go has returned.
// dirnode.flush/marshalManifest run commitBlock(sync) through a contextGroup and keep the inode locks until Wait
// returns; the synchronous writers swap segments without taking the lock themselves — sound only if Wait is a barrier.
func c13WaitIsBarrier(r *R) {
	rule := r.Prop + "-R6"
	if r.Prop == "C09" {
		rule = "C09-R8"
	}
	r.Rule(rule, "contextGroup.Wait calls wg.Wait() itself on every path before returning (a barrier, also after an error or cancellation): callers release the inode locks right after Wait, and synchronous block writers modify segments without locking", 1)
	fn := r.NeedFn(rule, "(*"+arv+".contextGroup).Wait")
	if fn == nil {
		return
	}
	var waits []ssa.Instruction
	for _, c := range CallsIn(fn, "(*sync.WaitGroup).Wait") {
		if _, isGo := c.(*ssa.Go); isGo {
			continue
		}
		if _, isDefer := c.(*ssa.Defer); isDefer {
			continue
		}
		waits = append(waits, c.(ssa.Instruction))
	}
	ok := len(waits) > 0
	for _, ret := range Returns(fn) {
		if !MustPassFromEntry(fn, ret, waits) {
			ok = false
		}
	}
	r.Check(ok, rule, fn, "cg.wg.Wait()", fn.Pos(), "Wait returns only after all added functions returned",
		"Wait can return while a function added with Go is still running (e.g. as soon as one of them failed): flush/marshalManifest then unlock the files while a block write is in flight, and its completion later overwrites newer data with a stale stored segment")
}

// c14StartingOnlyPromoted (C14-R10): a runner leaves wkr.starting only by becoming wkr.running[uuid].
func c14StartingOnlyPromoted(r *R) {
	const rule = "C14-R10"
	r.Rule(rule, "worker.starting: an entry is deleted only together with wkr.running[same uuid] = runner (promotion) — never dropped, so Running() keeps reporting a container whose crunch-run --detach is still in flight; the start goroutine promotes on every path", 2)
	n := 0
	for _, fn := range r.W.FuncsIn(wk) {
		for _, c := range CallsIn(fn, "builtin.delete") {
			a := c.Common().Args
			if !IsFieldLoad(Resolve1(a[0]), wk+".worker", "starting") {
				continue
			}
			n++
			promoted := false
			for _, in := range c.Block().Instrs {
				mu, ok := in.(*ssa.MapUpdate)
				if ok && IsFieldLoad(Resolve1(mu.Map), wk+".worker", "running") && (same(mu.Key, a[1]) || SameCanon(mu.Key, a[1])) {
					promoted = true
				}
			}
			r.Check(promoted, rule, fn, "delete(wkr.starting, uuid)", c.Pos(), "the runner is moved to wkr.running in the same step",
				"a starting runner is dropped without becoming a running one: the pool stops reporting the container while its crunch-run may still come up, the scheduler re-locks and starts it on another instance — two processes for one container")
		}
	}
	if fn := r.NeedFn(rule, "(*"+wk+".worker).startContainer"); fn != nil {
		for _, cl := range GoBodies(fn) {
			var dels []ssa.Instruction
			for _, c := range CallsIn(cl, "builtin.delete") {
				if IsFieldLoad(Resolve1(c.Common().Args[0]), wk+".worker", "starting") {
					dels = append(dels, c.(ssa.Instruction))
				}
			}
			if len(dels) == 0 {
				continue
			}
			ok := true
			for _, e := range Exits(cl) {
				if _, isPanic := e.(*ssa.Panic); isPanic {
					continue
				}
				if !MustPassFromEntry(cl, e, dels) {
					ok = false
				}
			}
			r.Check(ok, rule, cl, "start goroutine promotes starting→running", cl.Pos(), "on every path", "the start goroutine can end without moving the runner from starting to running: the entry stays in wkr.starting forever (worker never idle) or is silently lost")
		}
	}
	if n == 0 {
		r.Bad(rule, nil, "delete(wkr.starting, …)", token.NoPos, "no promotion site found")
	}
}

// c15VanishedAlwaysDropped (C15-R9): a worker whose instance is not in the cloud's listing (and was not updated
// after the listing started) is always removed — whatever it was running.
func c15VanishedAlwaysDropped(r *R) {
	const rule = "C15-R9"
	r.Rule(rule, "Pool.sync: in the sweep over wp.workers every iteration deletes the worker unless wkr.updated.After(threshold) — no other exemption (a vanished instance's containers must be seen as exited so they are cancelled or requeued)", 1)
	fn := r.NeedFn(rule, "(*"+wk+".Pool).sync")
	if fn == nil {
		return
	}
	n := 0
	for _, c := range CallsIn(fn, "builtin.delete") {
		if !IsFieldLoad(Resolve1(c.Common().Args[0]), wk+".Pool", "workers") {
			continue
		}
		h := loopHeaderOf(c.Block())
		if h == nil {
			continue
		}
		n++
		fresh := TrueC("wkr.updated.After(threshold)", func(v ssa.Value) bool {
			cc, ok := Resolve1(v).(*ssa.Call)
			if !ok {
				return false
			}
			switch CalleeName(cc.Common()) {
			case "(time.Time).After":
				return IsFieldLoad(Resolve1(cc.Call.Args[0]), wk+".worker", "updated") && same(cc.Call.Args[1], paramOf(fn, "threshold"))
			case "(time.Time).Before":
				return IsFieldLoad(Resolve1(cc.Call.Args[1]), wk+".worker", "updated") && same(cc.Call.Args[0], paramOf(fn, "threshold"))
			}
			return false
		})
		ok := GuardOrPass(fn, h.Instrs[0], h.Instrs[0], []ssa.Instruction{c.(ssa.Instruction)}, fresh)
		r.Check(ok, rule, fn, "delete(wp.workers, id) in every iteration", c.Pos(), "only workers updated after the listing began are kept",
			"a worker absent from the cloud listing can be kept (e.g. because it still has containers): it is never probed again, Running() reports its dead containers as alive forever, and they are neither cancelled nor requeued")
	}
	if n == 0 {
		r.Bad(rule, fn, "delete(wp.workers, id)", fn.Pos(), "sweep over wp.workers not found")
	}
}

// c16ScratchFormula (C16-R6): EstimateScratchSpace = max(Σ tmp capacities, image) + image, decided by evaluating the
// function's own data-flow expression (finite-domain interpretation, no shape assumed) on a grid of values.
func c16ScratchFormula(r *R) {
	const rule = "C16-R6"
	r.Rule(rule, "EstimateScratchSpace: T = Σ Capacity over mounts with Kind==\"tmp\", I = estimateDockerImageSize(ctr.ContainerImage); result ≡ max(T, I) + I (evaluated from the SSA expression on a grid of T, I values; any spelling of the formula passes)", 1)
	fn := r.NeedFn(rule, dc+".EstimateScratchSpace")
	if fn == nil {
		return
	}
	var img ssa.Value
	for _, c := range CallsIn(fn, dc+".estimateDockerImageSize") {
		if IsFieldLoad(Resolve1(c.Common().Args[0]), arv+".Container", "ContainerImage") {
			img = c.Value()
		}
	}
	// accumulator: phi at a loop header fed by phi/ADD(acc, m.Capacity)
	var acc *ssa.Phi
	var add *ssa.BinOp
	allInstrs(fn, func(in ssa.Instruction) {
		bo, ok := in.(*ssa.BinOp)
		if !ok || bo.Op != token.ADD {
			return
		}
		x, y := Strip(bo.X), Strip(bo.Y)
		if _, f, _, isF := LoadedField(y); !isF || f != "Capacity" {
			x, y = y, x
		}
		if _, f, _, isF := LoadedField(y); !isF || f != "Capacity" {
			return
		}
		if p, isP := x.(*ssa.Phi); isP && loopHeaderOf(bo.Block()) == p.Block() {
			acc, add = p, bo
		}
	})
	if img == nil || acc == nil {
		r.Und(rule, fn, "T and I", fn.Pos(), "tmp-capacity accumulator or image-size call not found")
		return
	}
	// accumulator starts at 0 and is only changed by the guarded ADD
	okAcc := true
	for i, e := range acc.Edges {
		if loopBody(acc.Block())[acc.Block().Preds[i]] {
			if se := Strip(e); se != ssa.Value(acc) && se != ssa.Value(add) {
				for _, l := range PhiLeaves(e) {
					if l != ssa.Value(acc) && l != ssa.Value(add) {
						okAcc = false
					}
				}
			}
		} else if k, isC := ConstInt(e); !isC || k != 0 {
			okAcc = false
		}
	}
	gTmp, _ := Guard(fn, nil, add, EqC("m.Kind == \"tmp\"", func(v ssa.Value) bool {
		_, f, _, ok := LoadedField(Resolve1(v))
		return ok && f == "Kind"
	}, ConstStrVP("tmp")))
	r.Check(okAcc && gTmp, rule, fn, "T = Σ m.Capacity for Kind == \"tmp\"", add.Pos(), "sum of tmp mount capacities", "the tmp-mount total is not the plain sum of the capacities of mounts of kind tmp")
	// exit of the accumulation loop
	var exit *ssa.BasicBlock
	body := loopBody(acc.Block())
	for _, s := range acc.Block().Succs {
		if !body[s] {
			exit = s
		}
	}
	if exit == nil {
		r.Und(rule, fn, "loop exit", fn.Pos(), "not found")
		return
	}
	grid := []int64{0, 1, 2, 3, 7, 10, 64, 100, 1000, 1 << 31}
	bad := ""
	for _, T := range grid {
		for _, I := range grid {
			env := newIenv(func(v ssa.Value) (int64, bool) {
				switch v {
				case ssa.Value(acc):
					return T, true
				case img:
					return I, true
				}
				return 0, false
			})
			ret, ok := env.runFrom(acc.Block(), exit)
			if !ok || len(ret.Results) != 1 {
				r.Und(rule, fn, "result expression", fn.Pos(), "the tail of the function is not pure integer arithmetic over T and I (a branch or value could not be evaluated)")
				return
			}
			got, ok := env.eval(ret.Results[0])
			if !ok {
				r.Und(rule, fn, "result expression", ret.Pos(), "the returned value is not pure integer arithmetic over T and I")
				return
			}
			want := T
			if I > want {
				want = I
			}
			want += I
			if got != want && bad == "" {
				bad = "for tmp=" + itoa64(T) + " image=" + itoa64(I) + " the estimate is " + itoa64(got) + ", the documented requirement max(tmp, image)+image is " + itoa64(want)
			}
		}
	}
	r.Check(bad == "", rule, fn, "needScratch ≡ max(T, I) + I", fn.Pos(), "agrees on all "+itoa(len(grid)*len(grid))+" grid points",
		bad+": a container can be given an instance type whose scratch space cannot hold its tmp mounts plus the extracted image (or be refused a type that can)")
}

func itoa64(n int64) string {
	if n < 0 {
		return "-" + itoa64(-n)
	}
	if n < 10 {
		return string(rune('0' + n))
	}
	return itoa64(n/10) + string(rune('0'+n%10))
}

// ast_inspectValueSpec calls f with the string literals found in the initialiser of package-level variable `name`.
func ast_inspectValueSpec(file *ast.File, name string, f func(lits []string)) {
	for _, d := range file.Decls {
		gd, ok := d.(*ast.GenDecl)
		if !ok {
			continue
		}
		for _, s := range gd.Specs {
			vs, ok := s.(*ast.ValueSpec)
			if !ok {
				continue
			}
			for i, n := range vs.Names {
				if n.Name != name || i >= len(vs.Values) {
					continue
				}
				var lits []string
				ast.Inspect(vs.Values[i], func(x ast.Node) bool {
					if bl, ok := x.(*ast.BasicLit); ok && bl.Kind == token.STRING {
						if s, err := strconv.Unquote(bl.Value); err == nil {
							lits = append(lits, s)
						}
					}
					return true
				})
				f(lits)
			}
		}
	}
}

func init() {
	extraRules["C10"] = append(extraRules["C10"], func(r *R) { loadManifestCarriedCells(r, "C10-R9") })
	extraRules["C09"] = append(extraRules["C09"], func(r *R) { loadManifestCarriedCells(r, "C09-R9") })
}

// loadManifestCarriedCells: C10-R7 looks at the loop-carried *registers* (phis) of loadManifest's per-stream loop.
// A variable captured by a closure lives in a heap cell instead and escapes that view. This rule covers the cells:
// a variable declared outside the per-stream loop and assigned inside it must be reset (to a constant, a fresh
// value or its own [:0] reslice) before anything else touches it in the iteration.
func loadManifestCarriedCells(r *R, rule string) {
	r.Rule(rule, "loadManifest: a variable that lives across streams and is assigned inside the per-stream loop (also one held in a closure cell) is reset at the top of every iteration before any other use — no block-position table of one stream is consulted for the next", 1)
	fn := r.NeedFn(rule, "(*"+arv+".dirnode).loadManifest")
	if fn == nil {
		return
	}
	var outer *ssa.BasicBlock
	for _, c := range CallsIn(fn, "(*"+arv+".dirnode).createFileAndParents") {
		for h := loopHeaderOf(c.Block()); h != nil; h = loopHeaderOf(h.Idom()) {
			outer = h
			if h.Idom() == nil {
				break
			}
		}
	}
	if outer == nil {
		r.Und(rule, fn, "per-stream loop", fn.Pos(), "not found")
		return
	}
	body := loopBody(outer)
	fresh := func(v ssa.Value, cell *ssa.Alloc) bool {
		v = Strip(v)
		switch x := v.(type) {
		case *ssa.Const:
			return true
		case *ssa.MakeSlice, *ssa.MakeMap:
			return true
		case *ssa.Slice:
			if h, ok := ConstInt(x.High); ok && h == 0 && x.High != nil {
				return true
			}
			if al, ok := x.X.(*ssa.Alloc); ok && al != cell && body[al.Block()] {
				return true // slice literal built in this iteration
			}
		}
		return false
	}
	var carried []string
	nCells := 0
	for _, b := range fn.Blocks {
		if body[b] {
			continue
		}
		for _, in := range b.Instrs {
			al, ok := in.(*ssa.Alloc)
			if !ok || al.Comment == "varargs" || al.Comment == "slicelit" || al.Comment == "complit" {
				continue
			}
			// accesses inside the loop body (in fn itself, or through closures created in the body)
			var stores []*ssa.Store
			var others []ssa.Instruction
			for _, ref := range *al.Referrers() {
				if ref.Parent() != fn || !body[ref.Block()] {
					continue
				}
				if st, ok := ref.(*ssa.Store); ok && st.Addr == ssa.Value(al) {
					stores = append(stores, st)
				} else {
					others = append(others, ref)
				}
			}
			writtenInClosure := false
			for _, ref := range *al.Referrers() {
				if mc, ok := ref.(*ssa.MakeClosure); ok && body[mc.Block()] {
					cl := mc.Fn.(*ssa.Function)
					for i, bnd := range mc.Bindings {
						if bnd == ssa.Value(al) && i < len(cl.FreeVars) && freeVarWritten(cl, cl.FreeVars[i]) {
							writtenInClosure = true
						}
					}
				}
			}
			if len(stores) == 0 && !writtenInClosure {
				continue // read-only inside the loop: not per-stream state
			}
			nCells++
			// a reset store that every path from the top of the iteration passes before any other access
			var resets []ssa.Instruction
			for _, st := range stores {
				if fresh(st.Val, al) {
					resets = append(resets, st)
				}
			}
			ok2 := len(resets) > 0
			if ok2 {
				for _, o := range append(others, storeInstrs(stores)...) {
					isReset := false
					for _, rs := range resets {
						if rs == o {
							isReset = true
						}
					}
					if isReset {
						continue
					}
					// the load feeding a reset (`segments = segments[:0]`) is part of the reset
					feeds := false
					if u, isU := o.(*ssa.UnOp); isU {
						for _, rs := range resets {
							if sl, isS := Strip(rs.(*ssa.Store).Val).(*ssa.Slice); isS && sl.X == ssa.Value(u) {
								feeds = true
							}
						}
					}
					if feeds {
						continue
					}
					if !MustPassBetween(outer.Instrs[0], o, resets) {
						ok2 = false
					}
				}
			}
			if !ok2 {
				carried = append(carried, al.Comment)
			}
		}
	}
	r.Check(len(carried) == 0, rule, fn, "cells carried across streams", outer.Instrs[0].Pos(), itoa(nCells)+" cell(s) assigned in the loop, each reset at the top of the iteration",
		"per-stream state leaks into the next stream through a captured variable: "+strings.Join(carried, ", ")+" — file tokens of a later stream are mapped with another stream's block positions (wrong bytes, or a valid manifest rejected)")
}

func storeInstrs(s []*ssa.Store) []ssa.Instruction {
	var out []ssa.Instruction
	for _, x := range s {
		out = append(out, x)
	}
	return out
}
