package main

import (
	"go/token"
	"strings"

	"golang.org/x/tools/go/ssa"
)

// Rules added after round 5 of the seeded changes (DESIGN.md section 8): all post-hoc.

func init() {
	extraRules["C01"] = append(extraRules["C01"], c01BufferPool)
	extraRules["C07"] = append(extraRules["C07"], c07ExpiredFirst)
	extraRules["C19"] = append(extraRules["C19"], c19TokenFormatGuard)
	extraRules["C20"] = append(extraRules["C20"], c20FreshFilter)
}

// usesValue: instruction `in` has v (or a slice/conversion of v) among its operands.
func usesValue(in ssa.Instruction, v ssa.Value) bool {
	for _, op := range in.Operands(nil) {
		if op == nil || *op == nil {
			continue
		}
		x := *op
		for i := 0; i < 4 && x != nil; i++ {
			if x == v {
				return true
			}
			switch y := x.(type) {
			case *ssa.Slice:
				x = y.X
			case *ssa.ChangeType:
				x = y.X
			case *ssa.Convert:
				x = y.X
			case *ssa.MakeInterface:
				x = y.X
			default:
				x = nil
			}
		}
	}
	return false
}

// c01BufferPool (C01-R10): a block buffer is handed back to the pool at most once per acquisition and is not
// touched after it was handed back. A buffer that is in the pool twice is given to two concurrent requests:
// a GET then streams bytes that another request is overwriting (200, right length, wrong MD5).
func c01BufferPool(r *R) {
	const rule = "C01-R10"
	r.Rule(rule, "block buffers: on every path a buffer is returned to bufferPool at most once (explicit Put and deferred Put never both run for the same buffer) and is never used after an explicit Put", 2)
	put := "(*" + ks + ".bufferPool).Put"
	for _, fn := range r.W.FuncsIn(ks) {
		var puts []ssa.CallInstruction
		for _, c := range CallsIn(fn, put) {
			puts = append(puts, c)
		}
		if len(puts) == 0 || r.W.fileOf(fn) != "handlers.go" {
			continue // C01's anchors: the GET/PUT handlers (the remote proxy has its own response path)
		}
		bufOf := func(c ssa.CallInstruction) ssa.Value {
			a := CallArgs(c.Common())
			if len(a) == 0 {
				return nil
			}
			return Strip(a[0])
		}
		for _, p := range puts {
			buf := bufOf(p)
			if buf == nil {
				r.Und(rule, fn, "bufs.Put(buf)", p.Pos(), "buffer argument not identified")
				continue
			}
			_, pDeferred := p.(*ssa.Defer)
			bad := ""
			for _, q := range puts {
				if q == p || bufOf(q) != buf {
					continue
				}
				// p then q on some path (a deferred Put runs at the exit, i.e. after everything that follows its registration)
				if ReachFromInstr(p.(ssa.Instruction), q.(ssa.Instruction), nil) {
					bad = "the same buffer is handed back to the pool twice on a path (second Put at " + r.W.Pos(q.Pos()) + ")"
				}
			}
			if !pDeferred && bad == "" {
				// use after an explicit Put
				reach := ReachableBlocksFromInstr(p.(ssa.Instruction), nil)
				allInstrs(fn, func(in ssa.Instruction) {
					if bad != "" || in == p.(ssa.Instruction) {
						return
					}
					if _, isPhi := in.(*ssa.Phi); isPhi {
						return
					}
					if _, isDbg := in.(*ssa.DebugRef); isDbg {
						return
					}
					if !usesValue(in, buf) {
						return
					}
					if in.Block() == p.Block() {
						if !Before(p.(ssa.Instruction), in) {
							// earlier in the same block: only a problem if the block is in a cycle through p
							if !reach[in.Block()] {
								return
							}
							if !ReachFromInstr(p.(ssa.Instruction), in, nil) {
								return
							}
						}
					} else if !reach[in.Block()] {
						return
					}
					if c, isCall := in.(ssa.CallInstruction); isCall && CalleeName(c.Common()) == put {
						return // reported as a double Put above
					}
					bad = "the buffer is used at " + r.W.Pos(posOf(in)) + " after it was handed back to the pool"
				})
			}
			r.Check(bad == "", rule, fn, "bufs.Put(buf)", p.Pos(), "at most once per buffer, nothing touches the buffer afterwards",
				bad+": two concurrent requests can be given the same memory, so a GET can answer 200 with bytes that another request is overwriting")
		}
	}
}

// c07ExpiredFirst (C07-R9): a well-formed signature whose expiry has passed is reported as expired — whatever
// else is wrong with it. Every other outcome of VerifySignature (nil, invalid, missing) is therefore behind
// "no match", "expiry unparseable" or "not expired".
func c07ExpiredFirst(r *R) {
	const rule = "C07-R9"
	r.Rule(rule, "arvados.VerifySignature: every return other than ErrSignatureExpired is reached only through `no regexp match`, `expiry does not parse` or `NOT expiry.Before(now)` — an expired well-formed hint is never reported as invalid/missing", 1)
	fn := r.NeedFn(rule, arv+".VerifySignature")
	if fn == nil {
		return
	}
	fsm := CallsIn(fn, "(*regexp.Regexp).FindStringSubmatch")
	if len(fsm) != 1 {
		r.Und(rule, fn, "FindStringSubmatch", fn.Pos(), "expected one regexp match")
		return
	}
	m := fsm[0].Value()
	var ph ssa.CallInstruction
	for _, c := range CallsIn(fn, arv+".parseHexTimestamp") {
		if isGroup(c.Common().Args[0], m, 7) {
			ph = c
		}
	}
	if ph == nil {
		r.Und(rule, fn, "parseHexTimestamp(group 7)", fn.Pos(), "expiry parse not found")
		return
	}
	unexpired := FalseC("expiryTime.Before(time.Now())", func(v ssa.Value) bool {
		c, ok := Resolve1(v).(*ssa.Call)
		if !ok {
			return false
		}
		switch CalleeName(c.Common()) {
		case "(time.Time).Before":
			return IsResultOfCall(Resolve1(c.Call.Args[0]), ph.Value(), 0) && isTimeNow(c.Call.Args[1])
		case "(time.Time).After":
			return isTimeNow(c.Call.Args[0]) && IsResultOfCall(Resolve1(c.Call.Args[1]), ph.Value(), 0)
		}
		return false
	})
	noMatch := EqC("matches == nil", Is(m), NilV)
	badParse := NotC(ErrNilC(ph))
	for _, ret := range Returns(fn) {
		isExpired := false
		for _, v := range returnOperand(ret, ret.Results[0]) {
			if v == nil {
				continue
			}
			if g, ok := LoadedGlobal(Resolve1(v)); ok && g == arv+".ErrSignatureExpired" {
				isExpired = true
			}
		}
		if isExpired {
			continue
		}
		ok := GuardOrPass(fn, nil, ret, nil, unexpired, noMatch, badParse)
		r.Check(ok, rule, fn, "return (not ErrSignatureExpired)", ret.Pos(), "only for unmatched, unparseable or unexpired hints",
			"an expired, well-formed signature can be reported as something other than expired (e.g. invalid, when the token or key also differs): keepstore then answers 403 instead of the 401 that tells the client to refresh its manifest")
	}
}

// c19TokenFormatGuard (C19-R9): only strings that are not "v2/<uuid>/<secret>[/...]" are classified as
// non-Arvados tokens. Callers pass ErrTokenFormat / ErrObsoleteToken tokens through UNSALTED, so this
// classification is the gate of the whole property.
func c19TokenFormatGuard(r *R) {
	const rule = "C19-R9"
	r.Rule(rule, "auth.SaltToken: ErrTokenFormat / ErrObsoleteToken (callers forward such tokens unsalted) only under len(split(token,\"/\")) < 3 or parts[0] != \"v2\" — a v2 token with extra path segments is salted, not passed through", 1)
	fn := r.NeedFn(rule, authP+".SaltToken")
	if fn == nil {
		return
	}
	tok := paramOf(fn, "token")
	isSplit := func(v ssa.Value) bool {
		c, ok := Resolve1(v).(*ssa.Call)
		return ok && CalleeName(c.Common()) == "strings.Split" && same(c.Call.Args[0], tok)
	}
	lenParts := func(v ssa.Value) bool {
		c, ok := Resolve1(v).(*ssa.Call)
		return ok && CalleeName(c.Common()) == "builtin.len" && isSplit(c.Call.Args[0])
	}
	part0 := func(v ssa.Value) bool {
		u, ok := Resolve1(v).(*ssa.UnOp)
		if !ok || u.Op != token.MUL {
			return false
		}
		ia, ok := u.X.(*ssa.IndexAddr)
		if !ok || !isSplit(ia.X) {
			return false
		}
		i, isC := ConstInt(ia.Index)
		return isC && i == 0
	}
	few := IntC("len(parts) < 3", lenParts, token.LSS, 3, true)
	notV2 := NeqC("parts[0] != \"v2\"", part0, ConstStrVP("v2"))
	n := 0
	for _, ret := range Returns(fn) {
		if len(ret.Results) != 2 {
			continue
		}
		passThrough := false
		for _, v := range returnOperand(ret, ret.Results[1]) {
			if v == nil {
				continue
			}
			if g, ok := LoadedGlobal(Resolve1(v)); ok && (g == authP+".ErrTokenFormat" || g == authP+".ErrObsoleteToken") {
				passThrough = true
			}
		}
		if !passThrough {
			continue
		}
		n++
		ok := GuardOrPass(fn, nil, ret, nil, few, notV2)
		r.Check(ok, rule, fn, "return ErrTokenFormat/ErrObsoleteToken", ret.Pos(), "only for strings with fewer than 3 fields or not starting with v2",
			"a well-formed v2 token (e.g. a container runtime token v2/uuid/secret/ctr-uuid) can be classified as a non-Arvados token: the controller then forwards it to the remote cluster with its secret unsalted")
	}
	if n == 0 {
		r.Bad(rule, fn, "return ErrTokenFormat", fn.Pos(), "format-error return not found")
	}
}

// aliasClass: SSA values that may share a backing array with v (closure over phi edges, reslicing and append results, both ways).
func aliasClass(fn *ssa.Function, v ssa.Value) map[ssa.Value]bool {
	cls := map[ssa.Value]bool{Strip(v): true}
	for changed := true; changed; {
		changed = false
		add := func(x ssa.Value) {
			x = Strip(x)
			if x != nil && !cls[x] {
				cls[x] = true
				changed = true
			}
		}
		allInstrs(fn, func(in ssa.Instruction) {
			switch x := in.(type) {
			case *ssa.Phi:
				any := cls[x]
				for _, e := range x.Edges {
					if cls[Strip(e)] {
						any = true
					}
				}
				if any {
					add(x)
					for _, e := range x.Edges {
						if _, isC := e.(*ssa.Const); !isC {
							add(e)
						}
					}
				}
			case *ssa.Slice:
				if cls[x] || cls[Strip(x.X)] {
					add(x)
					add(x.X)
				}
			case *ssa.Call:
				if CalleeName(x.Common()) == "builtin.append" {
					if cls[x] || cls[Strip(x.Call.Args[0])] {
						add(x)
						add(x.Call.Args[0])
					}
				}
			}
		})
	}
	return cls
}

// c20FreshFilter (C20-R8): the uuid list a backend is asked for is the list as it stands when the request is made.
func c20FreshFilter(r *R) {
	const rule = "C20-R8"
	r.Rule(rule, "splitListRequest: between any in-place rebuild of the batch slice (reslice/append sharing its backing array) and the backend call, the request's Filters are set again — a filter captured earlier keeps the old length over rewritten contents and re-requests UUIDs already delivered", 1)
	fn := r.NeedFn(rule, "(*"+fed+".Conn).splitListRequest")
	if fn == nil {
		return
	}
	n := 0
	for _, cl := range GoBodies(fn) {
		// backend call: dynamic call of the parameter fn with a ListOptions argument
		var call ssa.CallInstruction
		allInstrs(cl, func(in ssa.Instruction) {
			c, ok := in.(*ssa.Call)
			if !ok || c.Call.IsInvoke() || StaticCallee(&c.Call) != nil {
				return
			}
			for _, a := range c.Call.Args {
				if strings.HasSuffix(typeString(a.Type()), "arvados.ListOptions") {
					call = c
				}
			}
		})
		if call == nil {
			continue
		}
		stores := StoresToField(cl, "sdk/go/arvados.ListOptions", "Filters")
		if len(stores) == 0 {
			r.Und(rule, cl, "remoteOpts.Filters = …", call.Pos(), "store not found")
			continue
		}
		n++
		var through []ssa.Instruction
		cls := map[ssa.Value]bool{}
		for _, st := range stores {
			through = append(through, st)
			// operand slice(s) placed in the filter literal
			if sl, ok := Resolve1(st.Val).(*ssa.Slice); ok {
				if al, ok := sl.X.(*ssa.Alloc); ok {
					for _, ref := range *al.Referrers() {
						ia, ok := ref.(*ssa.IndexAddr)
						if !ok {
							continue
						}
						for _, rr := range *ia.Referrers() {
							fa, ok := rr.(*ssa.FieldAddr)
							if !ok {
								continue
							}
							if _, name, _, _ := FieldName(fa); name != "Operand" {
								continue
							}
							for _, r3 := range *fa.Referrers() {
								if s3, ok := r3.(*ssa.Store); ok {
									for k := range aliasClass(cl, s3.Val) {
										cls[k] = true
									}
								}
							}
						}
					}
				}
			}
		}
		if len(cls) == 0 {
			r.Und(rule, cl, "filter operand", call.Pos(), "the slice placed in the filter was not identified")
			continue
		}
		bad := ""
		allInstrs(cl, func(in ssa.Instruction) {
			c, ok := in.(*ssa.Call)
			if !ok || CalleeName(c.Common()) != "builtin.append" || !cls[Strip(c.Call.Args[0])] {
				return
			}
			if !ReachFromInstr(c, call.(ssa.Instruction), nil) {
				return
			}
			if !MustPassBetween(c, call.(ssa.Instruction), through) {
				bad = "the batch is rebuilt in place at " + r.W.Pos(c.Pos()) + " and the backend is then called with Filters set before that"
			}
		})
		r.Check(bad == "", rule, cl, "fn(ctx, clusterID, backend, remoteOpts)", call.Pos(), "Filters are set after the last change to the batch on every path",
			bad+": from the second page on the backend is asked again for UUIDs it already delivered (objects returned twice, or a spurious no-progress error)")
	}
	if n == 0 {
		r.Bad(rule, fn, "per-cluster paging goroutine", fn.Pos(), "backend call not found")
	}
}
