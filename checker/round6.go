package main

import (
	"regexp/syntax"
	"strconv"
	"strings"

	"golang.org/x/tools/go/ssa"
)

// Rules added after round 6 of the seeded changes (DESIGN.md section 8): all post-hoc.

func init() {
	extraRules["C10"] = append(extraRules["C10"], c10DecoderTotal)
	extraRules["C18"] = append(extraRules["C18"], c18LegacyHashFeed)
	extraRules["C19"] = append(extraRules["C19"], c19FormBodyRebuilt)
}

// octalSeqFits: the escape-sequence regex (`\\(D{3}|\\)` in some spelling) matches only sequences of three octal
// digits whose value fits in a byte (first digit 0-3). ok=false: shape not recognised.
func octalSeqFits(lit string) (fits bool, ok bool) {
	re, err := syntax.Parse(lit, syntax.Perl)
	if err != nil {
		return false, false
	}
	var digits [][]rune // per position: class ranges
	var find func(*syntax.Regexp) bool
	classOf := func(x *syntax.Regexp) []rune {
		switch x.Op {
		case syntax.OpCharClass:
			return x.Rune
		case syntax.OpLiteral:
			if len(x.Rune) == 1 {
				return []rune{x.Rune[0], x.Rune[0]}
			}
		}
		return nil
	}
	find = func(x *syntax.Regexp) bool {
		switch x.Op {
		case syntax.OpRepeat:
			if x.Min == 3 && x.Max == 3 {
				if c := classOf(x.Sub[0]); c != nil {
					digits = [][]rune{c, c, c}
					return true
				}
			}
		case syntax.OpConcat:
			// three consecutive classes
			var cs [][]rune
			for _, s := range x.Sub {
				if c := classOf(s); c != nil && s.Op == syntax.OpCharClass {
					cs = append(cs, c)
				} else if s.Op == syntax.OpRepeat && s.Min == s.Max && classOf(s.Sub[0]) != nil {
					for i := 0; i < s.Min; i++ {
						cs = append(cs, classOf(s.Sub[0]))
					}
				} else if len(cs) > 0 && len(cs) != 3 {
					cs = nil
				}
			}
			if len(cs) == 3 {
				digits = cs
				return true
			}
		}
		for _, s := range x.Sub {
			if find(s) {
				return true
			}
		}
		return false
	}
	if !find(re) {
		return false, false
	}
	within := func(c []rune, lo, hi rune) bool {
		for i := 0; i+1 < len(c); i += 2 {
			if c[i] < lo || c[i+1] > hi {
				return false
			}
		}
		return len(c) > 0
	}
	return within(digits[0], '0', '3') && within(digits[1], '0', '7') && within(digits[2], '0', '7'), true
}

// c10DecoderTotal (C10-R10): the two Go name decoders turn `\ooo` into a byte only when ooo is a valid 8-bit octal
// number; any other matched sequence is left as it is. Either the pattern admits only \000-\377, or the decoded
// byte is returned only under ParseUint's err == nil (and that error is not discarded).
func c10DecoderTotal(r *R) {
	const rule = "C10-R10"
	r.Rule(rule, "manifest name decoders (manifest.unescapeSeq, arvados.manifestUnescapeFunc): a matched escape sequence is replaced by a byte only under strconv.ParseUint(seq[1:], 8, 8) err == nil — or the pattern admits only \\000-\\377; an out-of-range sequence such as \\477 is never decoded to some other byte", 2)
	for _, d := range []struct{ fn, re string }{
		{mfp + ".unescapeSeq", mfp + ".escapeSeq"},
		{arv + ".manifestUnescapeFunc", arv + ".manifestEscapeSeq"},
	} {
		fn := r.NeedFn(rule, d.fn)
		if fn == nil {
			continue
		}
		calls := CallsIn(fn, "strconv.ParseUint", "strconv.ParseInt")
		if len(calls) != 1 {
			r.Und(rule, fn, "ParseUint(seq[1:], 8, 8)", fn.Pos(), "expected exactly one strconv.ParseUint/ParseInt call")
			continue
		}
		call := calls[0]
		args := call.Common().Args
		base, okB := ConstInt(args[1])
		bits, okW := ConstInt(args[2])
		if !okB || !okW || base != 8 {
			r.Bad(rule, fn, "ParseUint(seq[1:], 8, 8)", call.Pos(), "the sequence is not parsed as base 8")
			continue
		}
		patOK := false
		if lit, ok := r.W.GlobalRegexLiteral(d.re); ok {
			if fits, ok2 := octalSeqFits(lit); ok2 && fits {
				patOK = true
			}
		}
		// every return of a value that is neither the parameter nor a constant is behind err == nil
		guarded := bits == 8 && CalleeName(call.Common()) == "strconv.ParseUint"
		n := 0
		for _, ret := range Returns(fn) {
			if len(ret.Results) != 1 {
				continue
			}
			for _, leaf := range PhiLeaves(ret.Results[0]) {
				l := Resolve1(leaf)
				if _, isP := l.(*ssa.Parameter); isP {
					continue
				}
				if _, isC := l.(*ssa.Const); isC {
					continue
				}
				n++
				var g bool
				if ph, isPhi := ret.Results[0].(*ssa.Phi); isPhi {
					g = false
					for k, e := range ph.Edges {
						if e == leaf {
							g = GuardLeaf(fn, ph, k, ret, ErrNilC(call))
						}
					}
				} else {
					g, _ = Guard(fn, call.(ssa.Instruction), ret, ErrNilC(call))
				}
				if !g {
					guarded = false
				}
			}
		}
		if n == 0 {
			r.Und(rule, fn, "decoded byte", fn.Pos(), "no return of a decoded value found")
			continue
		}
		r.Check(patOK || guarded, rule, fn, "decoded byte", call.Pos(), "returned only for a valid 8-bit octal sequence (pattern restricts="+boolS(patOK)+", err checked="+boolS(guarded)+")",
			"the pattern admits sequences outside \\000-\\377 and the decoded byte is returned without ParseUint's error (8-bit range) having been tested: such a sequence is decoded to a different byte instead of being left alone, so two codecs disagree on the name")
	}
}

// hashFeeds: every instruction in fn that writes into hasher h (directly, or through an io.MultiWriter that has h
// among its writers), with the written data as a byte sequence; unknown=true when h reaches something else.
type hashFeed struct {
	in   ssa.Instruction
	data []SeqPart
	raw  ssa.Value
}

func fprintfSeq(c *ssa.Call) ([]SeqPart, bool) {
	// fmt.Fprintf(w, format, args...)
	if len(c.Call.Args) != 3 {
		return nil, false
	}
	f, ok := ConstString(c.Call.Args[1])
	if !ok {
		return nil, false
	}
	elems, ok := VarargElems(c.Call.Args[2])
	if !ok {
		return nil, false
	}
	var out []SeqPart
	lit := ""
	ai := 0
	for i := 0; i < len(f); i++ {
		if f[i] != '%' {
			lit += string(f[i])
			continue
		}
		if i+1 < len(f) && f[i+1] == '%' {
			lit += "%"
			i++
			continue
		}
		if i+1 < len(f) && (f[i+1] == 's' || f[i+1] == 'v') && ai < len(elems) && elems[ai] != nil {
			a := Strip(elems[ai])
			if mi, isMI := elems[ai].(*ssa.MakeInterface); isMI {
				a = mi.X
			}
			l := lit
			out = append(out, SeqPart{Const: &l})
			lit = ""
			out = append(out, ByteSeq(a)...)
			ai++
			i++
			continue
		}
		return nil, false
	}
	if ai != len(elems) {
		return nil, false
	}
	out = append(out, SeqPart{Const: &lit})
	return out, true
}

func isWriterOf(w ssa.Value, h ssa.Value, mws map[ssa.Value]bool) bool {
	w = Resolve1(w)
	for i := 0; i < 4; i++ {
		if w == h || mws[w] {
			return true
		}
		switch x := w.(type) {
		case *ssa.ChangeInterface:
			w = x.X
		case *ssa.MakeInterface:
			w = x.X
		case *ssa.ChangeType:
			w = x.X
		default:
			return false
		}
		w = Resolve1(w)
	}
	return w == h || mws[w]
}

// c18LegacyHashFeed (C18-R6): what the legacy rewriteSignatures hashes is the manifest it received — each token
// verbatim, except that a token matching the fully anchored signed-locator pattern contributes its hash+size groups.
func c18LegacyHashFeed(r *R) {
	const rule = "C18-R6"
	r.Rule(rule, "legacy rewriteSignatures: every write into the MD5 that is compared with the expected PDH is a received token verbatim (an element of strings.Split(line, \" \")), a separator constant, or groups 1+2 (hash, +size) of SignedLocatorRe.FindStringSubmatch(token) with SignedLocatorRe anchored at both ends — nothing else (no substring search inside other tokens) decides what is hashed", 1)
	fn := r.NeedFn(rule, ctl+".rewriteSignatures")
	if fn == nil {
		return
	}
	hs := CallsIn(fn, "crypto/md5.New")
	if len(hs) != 1 {
		r.Und(rule, fn, "md5.New()", fn.Pos(), "expected one hasher")
		return
	}
	h := hs[0].Value()
	mws := map[ssa.Value]bool{}
	for _, c := range CallsIn(fn, "io.MultiWriter") {
		if elems, ok := VarargElems(c.Common().Args[0]); ok {
			for _, e := range elems {
				if e != nil && isWriterOf(e, h, nil) {
					mws[c.Value()] = true
				}
			}
		}
	}
	isSplitElem := func(v ssa.Value) bool {
		u, ok := Resolve1(v).(*ssa.UnOp)
		if !ok {
			return false
		}
		ia, ok := u.X.(*ssa.IndexAddr)
		if !ok {
			return false
		}
		x := Resolve1(ia.X)
		for i := 0; i < 3; i++ {
			if sl, isS := x.(*ssa.Slice); isS {
				x = Resolve1(sl.X)
			}
		}
		c, ok := x.(*ssa.Call)
		return ok && CalleeName(c.Common()) == "strings.Split"
	}
	// m[k] of FindStringSubmatch(SignedLocatorRe, token)
	groupOf := func(v ssa.Value) (int64, *ssa.Call, bool) {
		u, ok := Resolve1(v).(*ssa.UnOp)
		if !ok {
			return 0, nil, false
		}
		ia, ok := u.X.(*ssa.IndexAddr)
		if !ok {
			return 0, nil, false
		}
		k, ok := ConstInt(ia.Index)
		if !ok {
			return 0, nil, false
		}
		c, ok := Resolve1(ia.X).(*ssa.Call)
		if !ok || CalleeName(c.Common()) != "(*regexp.Regexp).FindStringSubmatch" {
			return 0, nil, false
		}
		return k, c, true
	}
	reOK := func(c *ssa.Call) bool {
		a := CallArgsAll(&c.Call)
		if len(a) != 2 || !isSplitElem(a[1]) {
			return false
		}
		g, ok := LoadedGlobal(Resolve1(a[0]))
		if !ok || !strings.HasSuffix(g, ".SignedLocatorRe") {
			return false
		}
		lit, ok := r.W.GlobalRegexLiteral(arv + ".SignedLocatorRe")
		if !ok {
			return false
		}
		re, err := syntax.Parse(lit, syntax.Perl)
		if err != nil || re.Op != syntax.OpConcat || len(re.Sub) < 4 {
			return false
		}
		first, last := re.Sub[0], re.Sub[len(re.Sub)-1]
		if first.Op != syntax.OpBeginText || last.Op != syntax.OpEndText {
			return false
		}
		g1, g2 := re.Sub[1], re.Sub[2]
		if g2.Op == syntax.OpQuest {
			g2 = g2.Sub[0]
		}
		if g1.Op != syntax.OpCapture || g1.Cap != 1 || g2.Op != syntax.OpCapture || g2.Cap != 2 {
			return false
		}
		h := g1.Sub[0]
		if h.Op != syntax.OpRepeat || h.Min != 32 || h.Max != 32 || h.Sub[0].Op != syntax.OpCharClass {
			return false
		}
		for i := 0; i+1 < len(h.Sub[0].Rune); i += 2 {
			for c := h.Sub[0].Rune[i]; c <= h.Sub[0].Rune[i+1]; c++ {
				if !strings.ContainsRune("0123456789abcdefABCDEF", c) {
					return false
				}
			}
		}
		sz := g2.Sub[0].String()
		return sz == `\+[0-9]+` || sz == `\+\d+`
	}
	n := 0
	allInstrs(fn, func(in ssa.Instruction) {
		c, ok := in.(*ssa.Call)
		if !ok {
			return
		}
		var data []SeqPart
		var raw ssa.Value
		switch {
		case c.Call.IsInvoke() && c.Call.Method.Name() == "Write" && isWriterOf(c.Call.Value, h, mws):
			raw = c.Call.Args[0]
			x := Resolve1(raw)
			if cv, isC := x.(*ssa.Convert); isC {
				x = cv.X
			}
			data = ByteSeq(x)
		case !c.Call.IsInvoke() && CalleeName(&c.Call) == "fmt.Fprintf" && isWriterOf(c.Call.Args[0], h, mws):
			d, ok := fprintfSeq(c)
			if !ok {
				r.Und(rule, fn, "fmt.Fprintf(hasher, …)", c.Pos(), "format not interpretable")
				n++
				return
			}
			data = d
		case !c.Call.IsInvoke() && CalleeName(&c.Call) == "io.WriteString" && isWriterOf(c.Call.Args[0], h, mws):
			data = ByteSeq(c.Call.Args[1])
		case !c.Call.IsInvoke() && len(c.Call.Args) > 0 && isWriterOf(c.Call.Args[0], h, mws) && CalleeName(&c.Call) != "io.MultiWriter":
			r.Und(rule, fn, "hasher passed to "+CalleeName(&c.Call), c.Pos(), "unknown way of writing into the hash")
			n++
			return
		default:
			return
		}
		n++
		// drop empty constants
		var parts []SeqPart
		for _, p := range data {
			if p.Const != nil && *p.Const == "" {
				continue
			}
			parts = append(parts, p)
		}
		what := "hash <- other"
		switch {
		case len(parts) == 1 && parts[0].Const != nil:
			what = "hash <- constant " + strconvQuote(*parts[0].Const)
		case len(parts) == 1 && isSplitElem(parts[0].Val):
			what = "hash <- token"
		case len(parts) == 2:
			what = "hash <- two parts"
			if k1, _, ok1 := groupOf(parts[0].Val); ok1 {
				if k2, _, ok2 := groupOf(parts[1].Val); ok2 {
					what = "hash <- m[" + itoa(int(k1)) + "] m[" + itoa(int(k2)) + "]"
				}
			}
		}
		switch {
		case len(parts) == 1 && parts[0].Const != nil && (*parts[0].Const == " " || *parts[0].Const == "\n"):
			r.Ok(rule, fn, what, c.Pos(), "separator")
		case len(parts) == 1 && parts[0].Val != nil && isSplitElem(parts[0].Val):
			r.Ok(rule, fn, what, c.Pos(), "received token verbatim")
		case len(parts) == 2 && parts[0].Val != nil && parts[1].Val != nil:
			k1, c1, ok1 := groupOf(parts[0].Val)
			k2, c2, ok2 := groupOf(parts[1].Val)
			good := ok1 && ok2 && k1 == 1 && k2 == 2 && c1 == c2 && reOK(c1)
			r.Check(good, rule, fn, what, c.Pos(), "hash+size groups of the anchored signed-locator match of a received token",
				"the bytes hashed are not groups 1 and 2 of SignedLocatorRe (anchored ^…$) matched against a received token")
		default:
			r.Bad(rule, fn, what, c.Pos(), "what is hashed is neither a received token verbatim nor the hash+size groups of an anchored locator match: a manifest altered inside a token (e.g. a file token embedding locator-like text) can hash to the requested PDH and be relayed")
		}
	})
	if n == 0 {
		r.Und(rule, fn, "writes into the hash", fn.Pos(), "none found")
	}
}

// c19FormBodyRebuilt (C19-R10): once the form body was read for a token, the body that is forwarded is the form
// re-encoded after api_token was deleted — unconditionally (not only when a token was recognised).
func c19FormBodyRebuilt(r *R) {
	const rule = "C19-R10"
	r.Rule(rule, "legacy saltAuthToken, form-body branch: after LoadTokensFromHTTPRequestBody every path to a non-error return stores Body = reader over PostForm.Encode(), and that Encode is preceded on every path by PostForm.Del(\"api_token\") (or PostForm == nil) — the original body bytes are never forwarded", 1)
	fn := r.NeedFn(rule, "(*"+ctl+".Handler).saltAuthToken")
	if fn == nil {
		return
	}
	loads := CallsMatching(fn, func(n string, c *ssa.CallCommon) bool { return bareName(n) == "LoadTokensFromHTTPRequestBody" })
	if len(loads) != 1 {
		r.Und(rule, fn, "LoadTokensFromHTTPRequestBody", fn.Pos(), "expected exactly one call")
		return
	}
	load := loads[0]
	encodeOf := func(v ssa.Value) *ssa.Call {
		x := Resolve1(v)
		for i := 0; i < 8; i++ {
			switch y := x.(type) {
			case *ssa.MakeInterface:
				x = Resolve1(y.X)
			case *ssa.ChangeInterface:
				x = Resolve1(y.X)
			case *ssa.Convert:
				x = Resolve1(y.X)
			case *ssa.Call:
				switch CalleeName(y.Common()) {
				case "io/ioutil.NopCloser", "io.NopCloser", "bytes.NewBufferString", "strings.NewReader", "bytes.NewReader", "bytes.NewBuffer":
					x = Resolve1(y.Call.Args[0])
				case "(net/url.Values).Encode":
					return y
				default:
					return nil
				}
			default:
				return nil
			}
		}
		return nil
	}
	var stores []*ssa.Store
	for _, st := range StoresToField(fn, "net/http.Request", "Body") {
		if ReachFromInstr(load.(ssa.Instruction), st, nil) {
			stores = append(stores, st)
		}
	}
	if len(stores) == 0 {
		r.Bad(rule, fn, "updatedReq.Body = …", load.Pos(), "after the form body was parsed for a token no new Body is stored: the original form (with api_token) is forwarded")
		return
	}
	var through []ssa.Instruction
	for _, st := range stores {
		enc := encodeOf(st.Val)
		isPostForm := func(v ssa.Value) bool {
			_, f, _, ok := LoadedField(Resolve1(v))
			return ok && f == "PostForm"
		}
		if enc == nil || !isPostForm(CallRecvOrArg0(&enc.Call)) {
			r.Bad(rule, fn, "updatedReq.Body = …", st.Pos(), "the forwarded body is not (only) the re-encoded PostForm: bytes of the original body, which may carry api_token, can be forwarded")
			continue
		}
		var dels []ssa.Instruction
		for _, d := range CallsIn(fn, "(net/url.Values).Del") {
			a := CallArgsAll(d.Common())
			if k, ok := ConstString(a[1]); ok && k == "api_token" && isPostForm(a[0]) {
				dels = append(dels, d.(ssa.Instruction))
			}
		}
		nilForm := EqC("PostForm == nil", func(v ssa.Value) bool { return isPostForm(v) }, NilV)
		g := len(dels) > 0 && GuardOrPass(fn, load.(ssa.Instruction), enc, dels, nilForm)
		r.Check(g, rule, fn, "updatedReq.Body = reader(PostForm.Encode())", st.Pos(), "api_token deleted from the form on every path before it is re-encoded",
			"the form is re-encoded for forwarding on a path on which api_token was not deleted from it (e.g. only when a token was recognised): a repeated or empty-first api_token parameter reaches the remote cluster with the unsalted secret")
		through = append(through, st)
	}
	if len(through) > 0 {
		for _, ret := range Returns(fn) {
			succ, maybe := IsSuccessReturn(ret)
			if !succ && !maybe {
				continue
			}
			if !ReachFromInstr(load.(ssa.Instruction), ret, nil) {
				continue
			}
			// error return right after the load (err != nil) is not a forwarding path
			if g, _ := Guard(fn, load.(ssa.Instruction), ret, NotC(ErrNilC(load))); g {
				continue
			}
			if !MustPassBetween(load.(ssa.Instruction), ret, through) {
				r.Bad(rule, fn, "return updatedReq", ret.Pos(), "a request whose form body was parsed can be returned for forwarding without its body having been replaced by the re-encoded form")
				return
			}
		}
		r.Ok(rule, fn, "return updatedReq", fn.Pos(), "every forwarding return after the form was parsed passes the body replacement")
	}
}

func strconvQuote(s string) string { return strconv.Quote(s) }

func init() {
	extraRules["C02"] = append(extraRules["C02"], func(r *R) { touchRule(r, "C02-R8") }, func(r *R) { touchBeforeAck(r, "C02-R9") })
	extraRules["C04"] = append(extraRules["C04"], func(r *R) { touchBeforeAck(r, "C04-R12") })
	extraRules["C20"] = append(extraRules["C20"], c20AllUUIDsReported)
}

// touchBeforeAck (C04-R12, C02-R9): CompareAndTouch reports success (which PutBlock turns into the PUT's 200) only
// after Touch on that mount returned nil — the acknowledgement time is the block's new timestamp. No "recent enough"
// shortcut: the TTL protection of an acknowledged PUT counts from the acknowledgement.
func touchBeforeAck(r *R, rule string) {
	r.Rule(rule, "CompareAndTouch: the success return is reached only through Volume.Touch(hash) == nil of the same loop iteration (no path acknowledges an already-stored block without refreshing its timestamp)", 1)
	fn := r.NeedFn(rule, ks+".CompareAndTouch")
	if fn == nil {
		return
	}
	touches := CallsMatching(fn, func(n string, c *ssa.CallCommon) bool { return r.W.IsMethodOfIface(c, ks+".Volume", "Touch") })
	if len(touches) != 1 {
		r.Und(rule, fn, "call Touch", fn.Pos(), "expected exactly one Touch call")
		return
	}
	t := touches[0]
	a := CallArgs(t.Common())
	hashOK := len(a) > 0 && same(a[len(a)-1], paramOf(fn, "hash"))
	n := 0
	for _, ret := range Returns(fn) {
		succ, _ := IsSuccessReturn(ret)
		if !succ {
			continue
		}
		n++
		g, _ := Guard(fn, nil, ret, ErrNilC(t))
		h := loopHeaderOf(t.Block())
		sameIter := h != nil && !reachAvoidingHeader(t.(ssa.Instruction), ret, h)
		r.Check(g && hashOK && Precedes(t, ret) && sameIter, rule, fn, "return replication, nil", ret.Pos(), "after Touch(hash)==nil in the same iteration",
			"CompareAndTouch can report success without a successful Touch of this block on this mount: the PUT is acknowledged while the stored timestamp stays old, so a trash request naming that timestamp removes the block before acknowledgement time + TTL")
	}
	if n == 0 {
		r.Und(rule, fn, "return replication, nil", fn.Pos(), "no success return found")
	}
}

// reachAvoidingHeader: can `to` be reached from `from` only by passing through the loop header h (i.e. in a later
// iteration)? Returns true when a path from→to exists that goes through h.
func reachAvoidingHeader(from, to ssa.Instruction, h *ssa.BasicBlock) bool {
	// reachable at all without h?
	seen := map[*ssa.BasicBlock]bool{h: true}
	st := []*ssa.BasicBlock{}
	if from.Block() == to.Block() && Before(from, to) {
		return false
	}
	st = append(st, from.Block().Succs...)
	direct := false
	for len(st) > 0 {
		b := st[len(st)-1]
		st = st[:len(st)-1]
		if seen[b] {
			continue
		}
		seen[b] = true
		if b == to.Block() {
			direct = true
			break
		}
		st = append(st, b.Succs...)
	}
	return !direct
}

// c20AllUUIDsReported (C20-R9): the per-type merge callback tells splitListRequest the UUID of every item the
// backend returned on this page — unfiltered. splitListRequest's progress test ("items came back but none was
// wanted ⇒ error") and its end-of-pages test ("no items") rest on that list.
func c20AllUUIDsReported(r *R) {
	const rule = "C20-R9"
	r.Rule(rule, "generated_*List callbacks: the UUID list returned to splitListRequest gets one entry per item of the backend's response — the append of item.UUID runs in every iteration of the loop over the response's Items (no filter), so an answer consisting only of repeated or unwanted items is seen as `no progress` (error), not as `no more results`", 1)
	for _, typ := range []string{"Collection", "Container", "ContainerRequest", "Group", "Specimen", "User"} {
		outer := r.W.Fn("(*" + fed + ".Conn).generated_" + typ + "List")
		if outer == nil {
			continue
		}
		for _, cb := range Closures(outer) {
			if len(cb.Params) != 4 && len(cb.FreeVars) == 0 {
				continue
			}
			var app *ssa.Call
			for _, c := range CallsIn(cb, "builtin.append") {
				elems, ok := VarargElems(c.Common().Args[1])
				if !ok || len(elems) != 1 || elems[0] == nil {
					continue
				}
				if _, f, _, ok := LoadedField(Resolve1(elems[0])); ok && f == "UUID" {
					app, _ = c.(*ssa.Call)
				}
			}
			if app == nil {
				continue
			}
			h := loopHeaderOf(app.Block())
			if h == nil {
				r.Bad(rule, cb, "uuids = append(uuids, item.UUID)", app.Pos(), "not inside a loop over the response's items")
				continue
			}
			every := GuardOrPass(cb, h.Instrs[0], h.Instrs[0], []ssa.Instruction{app})
			// the loop ranges over the Items of the backend call's result
			overItems := false
			for _, in := range h.Instrs {
				_ = in
			}
			allInstrs(cb, func(in ssa.Instruction) {
				if ia, ok := in.(*ssa.IndexAddr); ok && loopHeaderOf(ia.Block()) == h {
					if _, f, base, ok := LoadedField(Resolve1(ia.X)); ok && f == "Items" {
						if al, isA := rootBase(base).(*ssa.Alloc); isA {
							for _, st := range cellStores(al) {
								if c, idx := ResultOf(Resolve1(st.Val)); c != nil && idx == 0 && c.Call.IsInvoke() && strings.HasSuffix(c.Call.Method.Name(), "List") {
									overItems = true
								}
							}
						}
					}
				}
			})
			// and that slice is what is returned
			returned := false
			for _, ret := range Returns(cb) {
				if len(ret.Results) == 2 {
					for _, leaf := range PhiLeaves(ret.Results[0]) {
						for _, l2 := range PhiLeaves(Resolve1(leaf)) {
							if l2 == ssa.Value(app) {
								returned = true
							}
						}
						if Resolve1(leaf) == ssa.Value(app) {
							returned = true
						}
					}
				}
			}
			r.Check(every && overItems, rule, cb, "uuids = append(uuids, item.UUID) for every item", app.Pos(), "unconditional, over the backend response's own Items",
				"the UUID list reported to splitListRequest omits some of the items the backend returned (every="+boolS(every)+" over response items="+boolS(overItems)+"): a page made only of omitted items looks like `no more results`, and the request succeeds with a partial list")
			_ = returned
		}
	}
}

func init() {
	extraRules["C17"] = append(extraRules["C17"], func(r *R) {
		r.Rule("C17-R8", "names in the saved output manifest: manifestEscape's character class matches single-byte runes only and manifestEscapeFunc encodes exactly the matched byte (a class reaching into U+0080–U+00FF would drop the continuation byte of such a character: `café.txt` is saved under another name)", 1)
		escapeClassRule(r, "C17-R8")
	})
	extraRules["C14"] = append(extraRules["C14"], c14WaitLoaded)
	extraRules["C13"] = append(extraRules["C13"], func(r *R) { flushTokenClosed(r, "C13-R7") })
	extraRules["C09"] = append(extraRules["C09"], func(r *R) { flushTokenClosed(r, "C09-R10") })
	extraRules["C03"] = append(extraRules["C03"], c03CacheDataWithErr)
}

// c14WaitLoaded (C14-R12): waitUntilLoaded returns only after it has seen wp.loaded == true. The scheduler's first
// fixStaleLocks/runQueue after a restart rely on Running() covering every instance of the initial listing; a wake-up
// by some other notification must re-check.
func c14WaitLoaded(r *R) {
	const rule = "C14-R12"
	r.Rule(rule, "Pool.waitUntilLoaded: every return is reached through a test of wp.loaded that found it true (a notification is only a reason to look again) — the scheduler never sees an empty Running() because the initial instance listing has not arrived yet", 1)
	fn := r.NeedFn(rule, "(*"+wk+".Pool).waitUntilLoaded")
	if fn == nil {
		return
	}
	loaded := TrueC("wp.loaded", func(v ssa.Value) bool { return IsFieldLoad(Resolve1(v), wk+".Pool", "loaded") })
	for _, ret := range Returns(fn) {
		g, _ := Guard(fn, nil, ret, loaded)
		// the test that lets the function return must be the *last* thing before returning: no receive from the
		// notification channel between the successful test and the return is needed; but a receive after a failed
		// test must lead back to a test. Guard (edge cut) already demands that every path crosses a loaded==true edge;
		// additionally no path from a channel receive reaches the return without crossing such an edge.
		ok := g
		allInstrs(fn, func(in ssa.Instruction) {
			if u, isU := in.(*ssa.UnOp); isU && u.Op.String() == "<-" {
				if g2, _ := Guard(fn, u, ret, loaded); !g2 {
					ok = false
				}
			}
			if s, isS := in.(*ssa.Select); isS {
				if g2, _ := Guard(fn, s, ret, loaded); !g2 {
					ok = false
				}
			}
		})
		r.Check(ok, rule, fn, "return", ret.Pos(), "only after wp.loaded was found true", "waitUntilLoaded can return after a single wake-up without having seen wp.loaded == true: after a dispatcher restart Running()/CountWorkers() are still empty, fixStaleLocks finds nothing to wait for and runQueue starts a second crunch-run for a container whose process is alive on an instance not listed yet")
	}
}

// flushTokenClosed (C13-R7, C09-R10): commitBlock stamps every segment of the batch with a fresh `done` channel
// (seg.flushing = done) that waitPrune()/flushingUnfinished() wait on. From the first such store every path to a return
// closes that channel or starts the goroutine that closes it on all its paths.
func flushTokenClosed(r *R, rule string) {
	r.Rule(rule, "dirnode.commitBlock: once a segment has been stamped seg.flushing = done, every path to a return passes close(done) or the `go` statement of the writer goroutine, which closes done on every path (defer) — a save never waits forever on a token nobody will close", 1)
	fn := r.NeedFn(rule, "(*"+arv+".dirnode).commitBlock")
	if fn == nil {
		return
	}
	var stamps []*ssa.Store
	for _, st := range StoresToField(fn, arv+".memSegment", "flushing") {
		stamps = append(stamps, st)
	}
	if len(stamps) == 0 {
		r.Und(rule, fn, "seg.flushing = done", fn.Pos(), "store not found")
		return
	}
	for _, st := range stamps {
		ch := ResolveOnce(Resolve1(st.Val))
		avoid := map[ssa.Instruction]bool{}
		for _, c := range CallsIn(fn, "builtin.close") {
			if SameCanon(ResolveOnce(Resolve1(c.Common().Args[0])), ch) || ResolveOnce(Resolve1(c.Common().Args[0])) == ch {
				avoid[c.(ssa.Instruction)] = true
			}
		}
		allInstrs(fn, func(in ssa.Instruction) {
			g, ok := in.(*ssa.Go)
			if !ok {
				return
			}
			body := goBodyOf(g)
			if body == nil {
				return
			}
			// the goroutine closes the same channel on every path: a deferred close in its entry block, or close before every exit
			for _, c := range CallsIn(body, "builtin.close") {
				a := ResolveOnce(Resolve1(c.Common().Args[0]))
				if !(a == ch || CanonDeep(a) == CanonDeep(ch)) {
					continue
				}
				if d, isD := c.(*ssa.Defer); isD && len(body.Blocks) > 0 && d.Block() == body.Blocks[0] {
					avoid[in] = true
				}
			}
		})
		bad := ExitReachableAvoiding(st, Exits(fn), avoid)
		r.Check(bad == nil, rule, fn, "seg.flushing = done", st.Pos(), "closed (here or by the writer goroutine) on every path",
			"a return is reachable after segments were stamped with the flush token without the token being closed or the writer goroutine started: the next MarshalManifest/Sync blocks forever in waitPrune() holding the directory lock, and background flushes skip those segments for good")
	}
}

func goBodyOf(g *ssa.Go) *ssa.Function {
	if mc, ok := g.Call.Value.(*ssa.MakeClosure); ok {
		f, _ := mc.Fn.(*ssa.Function)
		return f
	}
	return StaticCallee(&g.Call)
}

// c03CacheDataWithErr (C03-R10): a cache entry's bytes leave block_cache.go only together with the entry's error
// (same return) or behind b.err == nil. An entry that failed verification keeps the bytes that were read.
func c03CacheDataWithErr(r *R) {
	const rule = "C03-R10"
	r.Rule(rule, "BlockCache: cacheBlock.data is returned (or copied out) only together with cacheBlock.err of the same entry in the same return, or behind err == nil — bytes of an entry whose fetch failed verification are never handed out as a successful read", 1)
	n := 0
	for _, fn := range r.W.FuncsIn(kcl) {
		allInstrs(fn, func(in ssa.Instruction) {
			u, ok := in.(*ssa.UnOp)
			if !ok {
				return
			}
			t, f, base, ok := LoadedField(u)
			if !ok || f != "data" || !strings.HasSuffix(t, "keepclient.cacheBlock") {
				return
			}
			n++
			errLoaded := func(v ssa.Value) bool {
				t2, f2, b2, ok2 := LoadedField(Resolve1(v))
				return ok2 && f2 == "err" && t2 == t && SameCanon(rootBase(b2), rootBase(base))
			}
			okAll := true
			used := false
			for _, ref := range *u.Referrers() {
				switch x := ref.(type) {
				case *ssa.DebugRef:
				case *ssa.Return:
					used = true
					with := false
					for _, res := range x.Results {
						if errLoaded(res) {
							with = true
						}
					}
					if !with {
						if g, _ := Guard(fn, nil, x, EqC("b.err == nil", errLoaded, NilV)); !g {
							okAll = false
						}
					}
				default:
					used = true
					if g, _ := Guard(fn, nil, ref, EqC("b.err == nil", errLoaded, NilV)); !g {
						// len(b.data) and similar are harmless, but rare: demand the guard unless it is the builtin len
						if c, isC := ref.(*ssa.Call); isC && CalleeName(c.Common()) == "builtin.len" {
							continue
						}
						okAll = false
					}
				}
			}
			if used {
				r.Check(okAll, rule, fn, "use of cacheBlock.data", u.Pos(), "together with the entry's err, or behind err == nil",
					"the bytes of a cache entry leave the cache without the entry's error: an entry whose body was read but failed the checksum / size check is served to a later reader as a successful read")
			}
		})
	}
	if n == 0 {
		r.Und(rule, nil, "cacheBlock.data", 0, "no read of cacheBlock.data found in sdk/go/keepclient")
	}
}

func init() {
	extraRules["C06"] = append(extraRules["C06"], c06ClientErrors)
	extraRules["C09"] = append(extraRules["C09"], func(r *R) { liveBufferLending(r, "C09-R11") })
	extraRules["C13"] = append(extraRules["C13"], func(r *R) { liveBufferLending(r, "C13-R8") })
}

// c06ClientErrors (C06-R9, C06-R10): the API client functions under EachCollection's page requests.
func c06ClientErrors(r *R) {
	const r9, r10 = "C06-R9", "C06-R10"
	r.Rule(r9, "arvados.Client.RequestAndDecodeContext / RequestAndDecode: once DoAndDecode has been called, what is returned is a DoAndDecode result (of this function) or the context's error — never another variable that happens to be nil (a failed page fetch is never reported as success with the destination untouched)", 2)
	r.Rule(r10, "arvados.Client.DoAndDecode: a constant nil is returned only when dst == nil; every other return is the error of Do / ReadAll / Marshal, json.Unmarshal's result or a transaction error; nothing after Do or ReadAll runs when they failed", 1)
	ct := "(*" + arv + ".Client)."
	for _, name := range []string{"RequestAndDecodeContext", "RequestAndDecode"} {
		fn := r.NeedFn(r9, ct+name)
		if fn == nil {
			continue
		}
		callee := ct + "DoAndDecode"
		if name == "RequestAndDecode" {
			callee = ct + "RequestAndDecodeContext"
		}
		calls := CallsIn(fn, callee)
		if len(calls) == 0 {
			r.Bad(r9, fn, "delegation", fn.Pos(), "no call to "+bareName(callee))
			continue
		}
		isCall := func(v ssa.Value) bool {
			for _, c := range calls {
				if c.Value() != nil && Resolve1(v) == ssa.Value(c.Value()) {
					return true
				}
			}
			if c, ok := Resolve1(v).(*ssa.Call); ok && c.Call.IsInvoke() && c.Call.Method.Name() == "Err" && typeString(c.Call.Value.Type()) == "context.Context" {
				return true
			}
			return false
		}
		bad := ""
		for _, ret := range Returns(fn) {
			after := false
			for _, c := range calls {
				if ReachFromInstr(c.(ssa.Instruction), ret, nil) {
					after = true
				}
			}
			if !after || len(ret.Results) != 1 {
				continue
			}
			for _, leaf := range returnOperand(ret, ret.Results[0]) {
				if leaf == nil || !isCall(leaf) {
					bad = "return at " + r.W.Pos(ret.Pos()) + " yields a value that is not the result of " + bareName(callee)
				}
			}
		}
		r.Check(bad == "", r9, fn, "returns after "+bareName(callee), fn.Pos(), "every return after the request was sent yields its result", bad+": when the request failed, the caller (EachCollection's page fetch) is told it succeeded and reads the untouched destination as an empty last page")
	}
	fn := r.NeedFn(r10, ct+"DoAndDecode")
	if fn == nil {
		return
	}
	dos := CallsIn(fn, ct+"Do")
	reads := CallsIn(fn, "io/ioutil.ReadAll", "io.ReadAll")
	if len(dos) != 1 || len(reads) != 1 {
		r.Und(r10, fn, "Do / ReadAll", fn.Pos(), "expected one Do and one ReadAll call")
		return
	}
	dst := paramOf(fn, "dst")
	for _, ret := range Returns(fn) {
		if len(ret.Results) != 1 {
			continue
		}
		for _, leaf := range returnOperand(ret, ret.Results[0]) {
			switch {
			case leaf != nil && IsNilConst(leaf):
				g, _ := Guard(fn, nil, ret, EqC("dst == nil", Is(dst), NilV))
				r.Check(g && dst != nil, r10, fn, "return nil", ret.Pos(), "only when the caller asked for no decoding (dst == nil)", "DoAndDecode can return nil without decoding the response into dst: the caller reads an untouched destination as a valid (empty) answer")
			case leaf != nil && IsResultOfCall(leaf, dos[0].Value(), 1), leaf != nil && IsResultOfCall(leaf, reads[0].Value(), 1):
				// error of Do / ReadAll propagated
			default:
				c, _ := ResultOf(leaf)
				name := ""
				if c != nil {
					name = CalleeName(c.Common())
				}
				ok := name == "encoding/json.Unmarshal" || name == "encoding/json.Marshal" || name == arv+".newTransactionError"
				r.Check(ok, r10, fn, "return "+bareName(name), ret.Pos(), "an error-carrying result", "DoAndDecode returns a value of unknown origin")
			}
		}
		// nothing but the error returns is reachable when Do / ReadAll failed
		for _, c := range []ssa.CallInstruction{dos[0], reads[0]} {
			isOwn := false
			for _, leaf := range returnOperand(ret, ret.Results[0]) {
				if leaf != nil && IsResultOfCall(leaf, c.Value(), 1) {
					isOwn = true
				}
			}
			if isOwn || !ReachFromInstr(c.(ssa.Instruction), ret, nil) {
				continue
			}
			g, _ := Guard(fn, c.(ssa.Instruction), ret, ErrNilC(c))
			r.Check(g, r10, fn, "return after "+bareName(CalleeName(c.Common())), ret.Pos(), "only when it succeeded", "a later return is reachable although "+bareName(CalleeName(c.Common()))+" failed")
		}
	}
}

// liveBufferLending (C09-R11, C13-R8): a memSegment's buffer is live file data that stays in place when a write
// fails. In the flush machinery it is lent only to PutB (which reads it) and to len/cap/append/copy as a source;
// it is never handed to anything that may keep or recycle it.
func liveBufferLending(r *R, rule string) {
	r.Rule(rule, "flush machinery (commitBlock, pruneMemSegments and their goroutines): a slice that may be a memSegment's own buffer (seg.buf, or the `block` that is seg.buf when one segment is flushed) is passed only to PutB and to len/cap/append/copy — never to a pool, cache or other function that could keep or reuse it while the segment still holds the data", 2)
	for _, name := range []string{"(*" + arv + ".dirnode).commitBlock", "(*" + arv + ".filenode).pruneMemSegments"} {
		root := r.NeedFn(rule, name)
		if root == nil {
			continue
		}
		fns := append([]*ssa.Function{root}, Closures(root)...)
		alias := map[ssa.Value]bool{}
		cellAlias := map[ssa.Value]bool{} // allocs (cells) that may hold an aliasing slice
		isBufLoad := func(v ssa.Value) bool {
			t, f, _, ok := LoadedField(v)
			return ok && f == "buf" && strings.HasSuffix(t, "arvados.memSegment")
		}
		changed := true
		mark := func(v ssa.Value) {
			if v != nil && !alias[v] {
				alias[v] = true
				changed = true
			}
		}
		handed := map[ssa.Instruction]bool{} // calls that hand the buffer to a function of this module which is analysed in turn
		for iter := 0; changed && iter < 20; iter++ {
			changed = false
			// a buffer passed to a function of the repository (e.g. the writer goroutine extracted into a method) is
			// followed into that function: its parameter becomes an alias and the function joins the set examined
			for _, fn := range fns {
				allInstrs(fn, func(in ssa.Instruction) {
					ci, ok := in.(ssa.CallInstruction)
					if !ok || ci.Common().IsInvoke() {
						return
					}
					callee := StaticCallee(ci.Common())
					if callee == nil || len(callee.Blocks) == 0 || callee.Pkg == nil || !strings.HasPrefix(callee.Pkg.Pkg.Path(), modPrefix) || len(fns) > 12 {
						return
					}
					args := ci.Common().Args
					for i, a := range args {
						if !alias[a] || i >= len(callee.Params) {
							continue
						}
						handed[in] = true
						if !alias[callee.Params[i]] {
							alias[callee.Params[i]] = true
							changed = true
						}
						known := false
						for _, f := range fns {
							if f == callee {
								known = true
							}
						}
						if !known {
							fns = append(fns, callee)
							fns = append(fns, Closures(callee)...)
							changed = true
						}
					}
				})
			}
			for _, fn := range fns {
				for _, fv := range fn.FreeVars {
					b := freeVarBinding(fv)
					if b != nil && (alias[b] || cellAlias[b]) {
						if _, isPtr := b.(*ssa.Alloc); isPtr || cellAlias[b] {
							if !cellAlias[fv] {
								cellAlias[fv] = true
								changed = true
							}
						} else {
							mark(fv)
						}
					}
				}
				allInstrs(fn, func(in ssa.Instruction) {
					switch x := in.(type) {
					case *ssa.UnOp:
						if isBufLoad(x) {
							mark(x)
						} else if x.Op.String() == "*" && cellAlias[x.X] {
							mark(x)
						}
					case *ssa.Phi:
						for _, e := range x.Edges {
							if alias[e] {
								mark(x)
							}
						}
					case *ssa.Slice:
						if alias[x.X] {
							mark(x)
						}
					case *ssa.ChangeType:
						if alias[x.X] {
							mark(x)
						}
					case *ssa.Store:
						if alias[x.Val] {
							if !cellAlias[x.Addr] {
								if _, isAlloc := x.Addr.(*ssa.Alloc); isAlloc {
									cellAlias[x.Addr] = true
									changed = true
								} else if _, isFV := x.Addr.(*ssa.FreeVar); isFV {
									cellAlias[x.Addr] = true
									changed = true
								}
							}
						}
					case *ssa.Call:
						if CalleeName(&x.Call) == "builtin.append" && len(x.Call.Args) > 0 && alias[x.Call.Args[0]] {
							mark(x) // may share the destination's backing array
						}
					}
				})
			}
		}
		n := 0
		for _, fn := range fns {
			allInstrs(fn, func(in ssa.Instruction) {
				// the buffer must not be parked anywhere: no send on a channel, no store into a field, global, map or slice
				kept := ""
				switch x := in.(type) {
				case *ssa.Send:
					if alias[x.X] {
						kept = "sent on a channel"
					}
				case *ssa.Select:
					for _, st := range x.States {
						if st.Send != nil && alias[st.Send] {
							kept = "sent on a channel"
						}
					}
				case *ssa.MapUpdate:
					if alias[x.Value] {
						kept = "stored in a map"
					}
				case *ssa.Store:
					if alias[x.Val] {
						switch x.Addr.(type) {
						case *ssa.Alloc, *ssa.FreeVar:
						default:
							kept = "stored outside the function's locals"
						}
					}
				}
				if kept != "" {
					n++
					r.Bad(rule, fn, "live segment buffer "+kept, in.Pos(), "a slice that can be a memSegment's own buffer is "+kept+": whoever picks it up later overwrites data the segment still holds (after a failed block write the file's buffered bytes are corrupted and a later save references the corrupted block)")
					return
				}
				ci, ok := in.(ssa.CallInstruction)
				if !ok {
					return
				}
				com := ci.Common()
				if handed[in] {
					return
				}
				for i, a := range com.Args {
					if !alias[a] {
						continue
					}
					n++
					name := CalleeName(com)
					okCall := false
					switch {
					case com.IsInvoke() && com.Method.Name() == "PutB":
						okCall = true
					case name == "builtin.len", name == "builtin.cap", name == "builtin.append":
						okCall = true
					case name == "builtin.copy" && i == 1:
						okCall = true
					}
					r.Check(okCall, rule, fn, "live segment buffer passed to "+bareName(name), in.Pos(), "read-only use",
						"a slice that can be a memSegment's own buffer is handed to "+name+": if that keeps or recycles it (free list, cache) while the segment still holds the data — e.g. after a failed block write — later writes overwrite the file's buffered bytes and a subsequent save stores and references corrupted content")
				}
			})
		}
		if n == 0 {
			r.Und(rule, root, "uses of the segment buffer", root.Pos(), "no call receiving a segment buffer found")
		}
	}
}
