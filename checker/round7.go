package main

import (
	"strings"

	"golang.org/x/tools/go/ssa"
)

// Rules added after round 7 of the seeded changes (DESIGN.md section 8): all post-hoc.

func init() {
	extraRules["C20"] = append(extraRules["C20"], c20PassThroughGuard)
	extraRules["C19"] = append(extraRules["C19"], c19FreshTokenSlice)
}

// c20PassThroughGuard (C20-R10): splitListRequest hands the whole request to the local backend, unsplit, only when
// the client asked for no federation, the request came from another cluster, no filter names UUIDs, or every UUID is
// local. The configuration of remotes is not a reason: an unknown cluster prefix must fail the request.
func c20PassThroughGuard(r *R) {
	const rule = "C20-R10"
	r.Rule(rule, "splitListRequest: each unsplit call fn(ctx, ClusterID, conn.local, opts) is reached only under BypassFederation ∨ ForwardedFor != \"\" ∨ no uuid filter (matchAllFilters == nil) ∨ (exactly one cluster is named ∧ it is the local one) — never because of how many remotes are configured", 1)
	fn := r.NeedFn(rule, "(*"+fed+".Conn).splitListRequest")
	if fn == nil {
		return
	}
	optsP := paramOf(fn, "opts")
	n := 0
	allInstrs(fn, func(in ssa.Instruction) {
		c, ok := in.(*ssa.Call)
		if !ok || c.Call.IsInvoke() || len(c.Call.Args) != 4 {
			return
		}
		if p, isP := Resolve1(c.Call.Value).(*ssa.Parameter); !isP || p.Name() != "fn" {
			return
		}
		// backend argument is conn.local
		be := Resolve1(c.Call.Args[2])
		for i := 0; i < 3; i++ {
			switch x := be.(type) {
			case *ssa.ChangeInterface:
				be = Resolve1(x.X)
			case *ssa.MakeInterface:
				be = Resolve1(x.X)
			}
		}
		if _, f, _, ok := LoadedField(be); !ok || f != "local" {
			return
		}
		n++
		fieldOfOpts := func(name string) VP {
			return func(v ssa.Value) bool {
				_, f, base, ok := LoadedField(Resolve1(v))
				return ok && f == name && (rootBase(base) == optsP || strings.Contains(Canon(v), "ListOptions."+name))
			}
		}
		alts := []CP{
			TrueC("opts.BypassFederation", fieldOfOpts("BypassFederation")),
			NeqC("opts.ForwardedFor != \"\"", fieldOfOpts("ForwardedFor"), ConstStrVP("")),
			EqC("matchAllFilters == nil", func(v ssa.Value) bool {
				_, isMap := v.Type().Underlying().(interface{ Key() interface{} })
				_ = isMap
				return strings.HasPrefix(v.Type().String(), "map[string]bool")
			}, NilV),
			EqC("len(todoByRemote) == 1", func(v ssa.Value) bool {
				cc, ok := Resolve1(v).(*ssa.Call)
				return ok && CalleeName(cc.Common()) == "builtin.len" && strings.HasPrefix(cc.Call.Args[0].Type().String(), "map[string]map[string]bool")
			}, ConstIntVP(1)),
		}
		g := GuardOrPass(fn, nil, c, nil, alts...)
		r.Check(g, rule, fn, "fn(ctx, ClusterID, conn.local, opts)", c.Pos(), "only for bypass / forwarded / no-uuid-filter / all-local requests",
			"the whole request can be handed to the local backend for another reason (e.g. no remotes configured): UUIDs of an unknown cluster then yield a partial list with a nil error instead of failing the request, and unsplittable multi-cluster queries are no longer rejected")
	})
	if n == 0 {
		r.Und(rule, fn, "fn(ctx, ClusterID, conn.local, opts)", fn.Pos(), "no unsplit local call found")
	}
}

// c19FreshTokenSlice (C19-R11): the token list a provider returns for one remote is built in fresh memory. Building it
// in place over the incoming credentials rewrites the tokens held in the request context, so the next remote receives
// tokens salted for the previous one.
func c19FreshTokenSlice(r *R) {
	const rule = "C19-R11"
	r.Rule(rule, "saltedTokenProvider: the slice the salted tokens are appended to starts as nil / a fresh make — never a reslice of the incoming credentials' token list (whose backing array is shared by every remote's provider for the same request)", 1)
	outer := r.NeedFn(rule, fed+".saltedTokenProvider")
	if outer == nil {
		return
	}
	n := 0
	for _, cl := range append([]*ssa.Function{outer}, Closures(outer)...) {
		for _, c := range CallsIn(cl, "builtin.append") {
			dst := c.Common().Args[0]
			// follow the destination back through phis / earlier appends to its origins
			seen := map[ssa.Value]bool{}
			var bad, und string
			var walk func(v ssa.Value)
			walk = func(v ssa.Value) {
				v = Resolve1(v)
				if seen[v] {
					return
				}
				seen[v] = true
				switch x := v.(type) {
				case *ssa.Phi:
					for _, e := range x.Edges {
						walk(e)
					}
				case *ssa.Call:
					switch CalleeName(x.Common()) {
					case "builtin.append":
						walk(x.Call.Args[0])
					default:
						und = "destination comes from " + CalleeName(x.Common())
					}
				case *ssa.Const:
					// nil slice
				case *ssa.MakeSlice:
				case *ssa.Slice:
					if _, f, _, ok := LoadedField(Resolve1(x.X)); ok && f == "Tokens" {
						bad = "the result is built in place over incoming.Tokens"
					} else {
						walk(x.X)
					}
				case *ssa.UnOp:
					if _, f, _, ok := LoadedField(x); ok && f == "Tokens" {
						bad = "the result is appended to incoming.Tokens itself"
					} else if vs, unknown := Resolve(x); !unknown {
						for _, y := range vs {
							if y != v {
								walk(y)
							}
						}
					} else {
						und = "destination of unknown origin"
					}
				case *ssa.Alloc:
					// new [N]T backing a literal: fresh
				default:
					und = "destination of unknown origin: " + v.String()
				}
			}
			walk(dst)
			n++
			switch {
			case bad != "":
				r.Bad(rule, cl, "tokens = append(tokens, …)", c.Pos(), bad+": every append overwrites the credentials stored in the request context, so a request that is forwarded to a second remote carries tokens salted for the first one (the second remote can replay them there)")
			case und != "":
				r.Und(rule, cl, "tokens = append(tokens, …)", c.Pos(), und)
			default:
				r.Ok(rule, cl, "tokens = append(tokens, …)", c.Pos(), "fresh slice")
			}
		}
	}
	if n == 0 {
		r.Und(rule, outer, "tokens = append(tokens, …)", outer.Pos(), "no append found")
	}
}

func init() {
	extraRules["C18"] = append(extraRules["C18"], c18LegacyStatusGate)
}

// c18LegacyStatusGate (C18-R7): in the legacy fan-out a remote's answer is offered as the winner only if it is a 200
// that went through rewriteSignatures (which verifies only 200 responses and passes everything else through).
func c18LegacyStatusGate(r *R) {
	const rule = "C18-R7"
	r.Rule(rule, "legacy fetchRemoteCollectionByPDH: `success <- newResponse` is reached only under remoteClusterRequest err == nil ∧ resp.StatusCode == 200 ∧ rewriteSignatures err == nil, and what is sent is rewriteSignatures' result (rewriteSignatures verifies only 200 responses; any other status would be relayed unverified and cancel the honest remotes)", 1)
	n := 0
	for _, fn := range r.W.FuncsIn(ctl) {
		rws := CallsIn(fn, ctl+".rewriteSignatures")
		if len(rws) == 0 || fn.Parent() == nil {
			continue
		}
		reqs := CallsMatching(fn, func(name string, c *ssa.CallCommon) bool { return bareName(name) == "remoteClusterRequest" })
		if len(reqs) != 1 || len(rws) != 1 {
			continue
		}
		req, rw := reqs[0], rws[0]
		// the send of rewriteSignatures' response: a Select state or a Send whose value is result #0
		allInstrs(fn, func(in ssa.Instruction) {
			var sent []ssa.Value
			switch x := in.(type) {
			case *ssa.Send:
				sent = append(sent, x.X)
			case *ssa.Select:
				for _, st := range x.States {
					if st.Send != nil {
						sent = append(sent, st.Send)
					}
				}
			}
			for _, v := range sent {
				if !strings.HasSuffix(v.Type().String(), "http.Response") {
					continue
				}
				n++
				isRw := IsResultOfCall(Resolve1(v), rw.Value(), 0) || IsResultOfCall(ResolveOnce(Resolve1(v)), rw.Value(), 0)
				g1, _ := Guard(fn, req.(ssa.Instruction), in, ErrNilC(req))
				g2, _ := Guard(fn, rw.(ssa.Instruction), in, ErrNilC(rw))
				g3, _ := Guard(fn, req.(ssa.Instruction), rw.(ssa.Instruction), EqC("resp.StatusCode == 200", func(x ssa.Value) bool {
					_, f, _, ok := LoadedField(Resolve1(x))
					return ok && f == "StatusCode"
				}, ConstIntVP(200)))
				r.Check(isRw && g1 && g2 && g3, rule, fn, "success <- newResponse", in.Pos(), "a verified 200 answer",
					"a remote's answer can win the fan-out without having been verified (request ok="+boolS(g1)+" status==200="+boolS(g3)+" rewrite ok="+boolS(g2)+" value is rewriteSignatures' result="+boolS(isRw)+"): rewriteSignatures passes non-200 responses through untouched, so e.g. a 203/206 with an altered manifest is relayed and the honest remotes are cancelled")
			}
		})
	}
	if n == 0 {
		r.Und(rule, nil, "success <- newResponse", 0, "send of the rewritten response not found in lib/controller")
	}
}

func init() {
	extraRules["C06"] = append(extraRules["C06"], func(r *R) { stickyErrorRule(r, "C06-R11") })
	extraRules["C02"] = append(extraRules["C02"], func(r *R) { stickyErrorRule(r, "C02-R10") })
}

// stickyErrorRule (C06-R11, C02-R10): UnixVolume.IndexTo visits many directories; once opening or reading any of them
// has failed, IndexTo's result is non-nil on every path from there (the failure is remembered in a value that later
// iterations cannot overwrite with nil). handleIndex writes the terminating blank line only for a nil result, which is
// what makes a keepstore index "complete" for keep-balance.
func stickyErrorRule(r *R, rule string) {
	r.Rule(rule, "UnixVolume.IndexTo: from every branch that has observed a non-nil error (of opening / reading a directory, or writing an entry), every path to a return yields a value known to be non-nil there — a failure in one block directory is never overwritten by a later directory's success", 1)
	fn := r.NeedFn(rule, uvT+".IndexTo")
	if fn == nil {
		return
	}
	isErr := func(v ssa.Value) bool { return v != nil && v.Type().String() == "error" }
	alwaysNN := func(v ssa.Value) bool {
		v = Resolve1(v)
		if c, ok := v.(*ssa.Call); ok {
			switch CalleeName(c.Common()) {
			case "fmt.Errorf", "errors.New":
				return true
			}
		}
		if mi, ok := v.(*ssa.MakeInterface); ok {
			_ = mi
			return true // a concrete value wrapped into the error interface
		}
		return definitelyNonNilErr(v)
	}
	type state struct {
		b   *ssa.BasicBlock
		key string
	}
	n := 0
	for _, b := range fn.Blocks {
		iff, ok := lastInstr(b).(*ssa.If)
		if !ok {
			continue
		}
		bo, ok := Strip(iff.Cond).(*ssa.BinOp)
		if !ok || !(IsNilConst(bo.Y) || IsNilConst(bo.X)) {
			continue
		}
		x := bo.X
		if IsNilConst(bo.X) {
			x = bo.Y
		}
		if !isErr(x) {
			continue
		}
		if c, _ := ResultOf(Resolve1(x)); c == nil {
			continue // only errors that come straight from a call
		}
		succ := 0 // NEQ: true edge knows non-nil
		if bo.Op.String() == "==" {
			succ = 1
		} else if bo.Op.String() != "!=" {
			continue
		}
		n++
		// walk
		start := b.Succs[succ]
		seen := map[state]bool{}
		type item struct {
			b, from *ssa.BasicBlock
			nn      map[ssa.Value]bool
		}
		keyOf := func(m map[ssa.Value]bool) string {
			var ks []string
			for v := range m {
				ks = append(ks, v.Name())
			}
			sortStrings(ks)
			return strings.Join(ks, ",")
		}
		work := []item{{start, b, map[ssa.Value]bool{x: true, Resolve1(x): true}}}
		bad := ""
		for len(work) > 0 && bad == "" {
			it := work[len(work)-1]
			work = work[:len(work)-1]
			nn := map[ssa.Value]bool{}
			for k := range it.nn {
				nn[k] = true
			}
			// phis: value arriving from it.from
			var newNN []ssa.Value
			var dropped []ssa.Value
			for _, in := range it.b.Instrs {
				p, ok := in.(*ssa.Phi)
				if !ok {
					break
				}
				for i, pred := range it.b.Preds {
					if pred == it.from {
						e := p.Edges[i]
						if nn[e] || nn[Resolve1(e)] || alwaysNN(e) {
							newNN = append(newNN, p)
						} else {
							dropped = append(dropped, p)
						}
					}
				}
			}
			for _, p := range dropped {
				delete(nn, p)
			}
			for _, p := range newNN {
				nn[p] = true
			}
			st := state{it.b, keyOf(nn)}
			if seen[st] {
				continue
			}
			seen[st] = true
			switch t := lastInstr(it.b).(type) {
			case *ssa.Return:
				if len(t.Results) == 0 {
					continue
				}
				res := t.Results[len(t.Results)-1]
				val := returnDirect(t, res) // through the defer spill (`*r = v; rundefers; return *r`), without expanding phis
				if !(nn[val] || nn[Resolve1(val)] || alwaysNN(val) || nn[res]) {
					bad = "after the failure tested at " + r.W.Pos(iff.Pos()) + " the return at " + r.W.Pos(t.Pos()) + " can yield a value that is not known to be non-nil"
				}
			case *ssa.If:
				c2, isB := Strip(t.Cond).(*ssa.BinOp)
				for si, s := range it.b.Succs {
					m := nn
					if isB && (IsNilConst(c2.Y) || IsNilConst(c2.X)) {
						y := c2.X
						if IsNilConst(c2.X) {
							y = c2.Y
						}
						knows := (c2.Op.String() == "!=" && si == 0) || (c2.Op.String() == "==" && si == 1)
						if knows {
							m = map[ssa.Value]bool{}
							for k := range nn {
								m[k] = true
							}
							m[y] = true
							m[Resolve1(y)] = true
						}
					}
					work = append(work, item{s, it.b, m})
				}
			default:
				for _, s := range it.b.Succs {
					work = append(work, item{s, it.b, nn})
				}
			}
		}
		r.Check(bad == "", rule, fn, "failure of "+bareName(calleeOf(x))+" is not forgotten", iff.Pos(), "every later return is non-nil",
			bad+": a block directory that could not be read is left out of the index, IndexTo still reports success, handleIndex writes the terminating blank line and keep-balance treats the incomplete index as complete (blocks in that directory look missing / unreferenced replicas elsewhere get trashed)")
	}
	if n == 0 {
		r.Und(rule, fn, "error tests", fn.Pos(), "no nil-test of a call's error found in IndexTo")
	}
}

func calleeOf(v ssa.Value) string {
	if c, _ := ResultOf(Resolve1(v)); c != nil {
		return CalleeName(c.Common())
	}
	return "call"
}

func sortStrings(s []string) {
	for i := 1; i < len(s); i++ {
		for j := i; j > 0 && s[j] < s[j-1]; j-- {
			s[j], s[j-1] = s[j-1], s[j]
		}
	}
}

func init() {
	extraRules["C10"] = append(extraRules["C10"], c10SegmentScanTable)
}

// c10SegmentScanTable (C10-R11): one step of the block scan in manifest.sendFileSegmentIterByName as a decision table
// over (block start, block end, file span start, span length): a block that overlaps the span yields a segment, and the
// scan goes on as long as the block starts before the end of the span — in particular across a zero-length block.
func c10SegmentScanTable(r *R) {
	const rule = "C10-R11"
	r.Rule(rule, "manifest.sendFileSegmentIterByName block scan (finite-domain interpretation over block start/end × span start/length, zero-length blocks included): a block overlapping the file span sends a segment; the scan continues to the next block whenever this block starts before the end of the span (an interior zero-length block does not end the file)", 1)
	fn := r.NeedFn(rule, "(*"+mfp+".ManifestStream).sendFileSegmentIterByName")
	if fn == nil {
		return
	}
	// the inner loop: the one containing a Send of a *FileSegment built from s.Blocks[i]
	var send *ssa.Send
	allInstrs(fn, func(in ssa.Instruction) {
		if sd, ok := in.(*ssa.Send); ok && loopHeaderOf(sd.Block()) != nil {
			if h := loopHeaderOf(sd.Block()); h != nil && loopHeaderOf(h.Idom()) != nil {
				send = sd
			}
		}
	})
	if send == nil {
		r.Und(rule, fn, "block scan", fn.Pos(), "send inside the block loop not found")
		return
	}
	head := loopHeaderOf(send.Block())
	body := loopBody(head)
	var start *ssa.BasicBlock
	for _, s := range head.Succs {
		if body[s] {
			start = s
		}
	}
	if start == nil {
		r.Und(rule, fn, "block scan", send.Pos(), "loop body not found")
		return
	}
	atom := func(v ssa.Value) (string, bool) {
		if u, ok := v.(*ssa.UnOp); ok && u.Op.String() == "*" {
			if ia, ok := u.X.(*ssa.IndexAddr); ok {
				if _, f, _, ok := LoadedField(Resolve1(ia.X)); ok && f == "blockOffsets" {
					if bo, isB := Strip(ia.Index).(*ssa.BinOp); isB && bo.Op.String() == "+" {
						if k, ok := ConstInt(bo.Y); ok && k == 1 {
							return "blockEnd", true
						}
					}
					return "blockPos", true
				}
			}
		}
		if _, f, _, ok := LoadedField(v); ok {
			switch f {
			case "SegPos":
				return "wantPos", true
			case "SegLen":
				return "wantLen", true
			}
		}
		return "", false
	}
	action := func(in ssa.Instruction) (string, bool) {
		if _, ok := in.(*ssa.Send); ok {
			return "send", true
		}
		return "", false
	}
	dom := map[string][]dval{
		"blockPos": {dI(0), dI(4), dI(6), dI(10)}, "blockEnd": {dI(4), dI(6), dI(10), dI(14)},
		"wantPos": {dI(2), dI(4)}, "wantLen": {dI(3), dI(6)},
	}
	r.dtCheck(rule, fn, "per-block step", dom, atom, start, 0, head, func(b *ssa.BasicBlock) bool { return b == head || !start.Dominates(b) }, action,
		func(v map[string]dval) *dtExpect {
			bp, be, wp, wl := v["blockPos"].i, v["blockEnd"].i, v["wantPos"].i, v["wantLen"].i
			we := wp + wl
			if be < bp || be <= wp {
				return nil // not a block / firstBlock never starts the scan on a block that ends before the span
			}
			switch {
			case bp < we && be > bp:
				return &dtExpect{must: []string{"send"}, end: "next", why: "a non-empty block overlapping the span yields a segment and the scan goes on"}
			case bp < we && be == bp:
				return &dtExpect{end: "next", why: "a zero-length block inside the span does not end the scan"}
			default:
				return &dtExpect{mustNot: []string{"send"}, why: "a block that starts at or after the end of the span yields nothing"}
			}
		})
}

func init() {
	// C08 quantifies over filesystems "starting from any generated manifest": the loader's per-stream state rule
	// (C10-R7/R9, C09-R9) is a necessary condition of C08 as well.
	extraRules["C08"] = append(extraRules["C08"], func(r *R) { loadManifestCarriedCells(r, "C08-R8") })
}
