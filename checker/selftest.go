package main

import (
	"go/ast"
	"go/token"
	"math/rand"
	"os"
	"sort"
	"strings"
	"sync"
	"sync/atomic"

	"golang.org/x/tools/go/ssa"
)

// Sensitivity self-test (thorough tier): one-edit variants of the functions in
// which this property's obligations live are analysed in process
// (World.Variant: re-parse, re-type-check the reverse-dependency cone, rebuild
// SSA; nothing is written to /repo; nothing is executed). A variant that no
// longer type-checks is skipped. The result is evidence
// about the checker (which rules are live), never part of the verdict.

type mutant struct {
	File string `json:"file"`
	Line int    `json:"line"`
	Func string `json:"function"`
	Op   string `json:"operator"`
	Text string `json:"text"`
	src  []byte
	Res  string `json:"result"` // flagged | survived | not_compiled
	By   string `json:"flagged_by,omitempty"`
}

// anchoredFuncs: source functions named by this run's obligations.
func anchoredFuncs(r *R) []*ssa.Function {
	seen := map[*ssa.Function]bool{}
	var out []*ssa.Function
	for _, o := range r.Obs {
		if o.Status == Info {
			continue
		}
		fn := r.W.Fn(o.Func)
		if fn == nil {
			continue
		}
		fn = rootFn(fn)
		if seen[fn] || fn.Syntax() == nil {
			continue
		}
		if _, ok := fn.Syntax().(*ast.FuncDecl); !ok {
			continue
		}
		seen[fn] = true
		out = append(out, fn)
	}
	sort.Slice(out, func(i, j int) bool { return out[i].String() < out[j].String() })
	return out
}

func genMutants(w *World, fns []*ssa.Function) []*mutant {
	var out []*mutant
	srcCache := map[string][]byte{}
	for _, fn := range fns {
		fd := fn.Syntax().(*ast.FuncDecl)
		if fd.Body == nil {
			continue
		}
		file := w.Fset.Position(fd.Pos()).Filename
		src, ok := srcCache[file]
		if !ok {
			b, err := os.ReadFile(file)
			if err != nil {
				continue
			}
			src = b
			srcCache[file] = b
		}
		off := func(p token.Pos) int { return w.Fset.Position(p).Offset }
		add := func(op string, at token.Pos, from, to int, repl string) {
			if from < 0 || to > len(src) || from > to {
				return
			}
			ns := append(append(append([]byte{}, src[:from]...), repl...), src[to:]...)
			txt := strings.TrimSpace(string(src[from:to]))
			if len(txt) > 70 {
				txt = txt[:70] + "…"
			}
			out = append(out, &mutant{File: file, Line: w.Fset.Position(at).Line, Func: fnShort(fn), Op: op, Text: txt + "  ⇒  " + strings.TrimSpace(repl), src: ns})
		}
		ast.Inspect(fd.Body, func(n ast.Node) bool {
			switch x := n.(type) {
			case *ast.IfStmt:
				add("negate-if", x.Cond.Pos(), off(x.Cond.Pos()), off(x.Cond.End()), "!("+string(src[off(x.Cond.Pos()):off(x.Cond.End())])+")")
			case *ast.BinaryExpr:
				var repl string
				switch x.Op {
				case token.EQL:
					repl = "!="
				case token.NEQ:
					repl = "=="
				case token.LSS:
					repl = "<="
				case token.LEQ:
					repl = "<"
				case token.GTR:
					repl = ">="
				case token.GEQ:
					repl = ">"
				case token.LAND:
					repl = "||"
				case token.LOR:
					repl = "&&"
				}
				if repl != "" {
					o := off(x.OpPos)
					add("swap-op "+x.Op.String(), x.OpPos, o, o+len(x.Op.String()), repl)
				}
			case *ast.ExprStmt:
				if _, ok := x.X.(*ast.CallExpr); ok {
					add("delete-call", x.Pos(), off(x.Pos()), off(x.End()), "")
				}
			case *ast.DeferStmt:
				add("delete-defer", x.Pos(), off(x.Pos()), off(x.End()), "")
			case *ast.BranchStmt:
				if x.Tok == token.CONTINUE || x.Tok == token.BREAK {
					add("delete-"+x.Tok.String(), x.Pos(), off(x.Pos()), off(x.End()), "")
				}
			case *ast.ReturnStmt:
				// early return inside a nested block: delete it (falls through)
				add("delete-return", x.Pos(), off(x.Pos()), off(x.End()), "")
			case *ast.AssignStmt:
				if len(x.Lhs) == 1 && len(x.Rhs) == 1 && x.Tok == token.ASSIGN {
					add("delete-assign", x.Pos(), off(x.Pos()), off(x.End()), "")
				}
			}
			return true
		})
	}
	return out
}

func runSelfTest(r *R, repo, verifDir string, seed int, max int) map[string]interface{} {
	fns := anchoredFuncs(r)
	ms := genMutants(r.W, fns)
	if f := os.Getenv("ARVCHECK_SELFTEST_FILTER"); f != "" {
		var keep []*mutant
		for _, m := range ms {
			if strings.Contains(m.File+":"+m.Func, f) {
				keep = append(keep, m)
			}
		}
		ms = keep
	}
	total := len(ms)
	rnd := rand.New(rand.NewSource(int64(seed) + 1))
	rnd.Shuffle(len(ms), func(i, j int) { ms[i], ms[j] = ms[j], ms[i] })
	if len(ms) > max {
		ms = ms[:max]
	}
	pd := props[r.Prop]
	var wg sync.WaitGroup
	sem := make(chan struct{}, 8)
	var panics int32
	for i, m := range ms {
		wg.Add(1)
		go func(i int, m *mutant) {
			defer wg.Done()
			sem <- struct{}{}
			defer func() { <-sem }()
			defer func() {
				if e := recover(); e != nil {
					// a rule that cannot cope with the variant's shape: the real run would fail the same way
					m.Res = "flagged"
					m.By = "checker-panic"
					atomic.AddInt32(&panics, 1)
				}
			}()
			vw, err := r.W.Variant(m.File, m.src)
			if err != nil {
				m.Res = "not_compiled"
				return
			}
			vr := RunProperty(vw, pd, "quick", verifDir)
			if fail, by := vr.Verdict(verifDir); fail {
				m.Res = "flagged"
				m.By = by
			} else {
				m.Res = "survived"
			}
		}(i, m)
	}
	wg.Wait()
	counts := map[string]int{}
	byRule := map[string]int{}
	var survivors, flagged []*mutant
	for _, m := range ms {
		counts[m.Res]++
		if m.Res == "survived" {
			survivors = append(survivors, m)
		}
		if m.Res == "flagged" {
			flagged = append(flagged, m)
			byRule[m.By]++
		}
	}
	rel := func(ms []*mutant, n int) []map[string]interface{} {
		sort.Slice(ms, func(i, j int) bool {
			if ms[i].File != ms[j].File {
				return ms[i].File < ms[j].File
			}
			return ms[i].Line < ms[j].Line
		})
		var out []map[string]interface{}
		for i, m := range ms {
			if i >= n {
				break
			}
			out = append(out, map[string]interface{}{"at": strings.TrimPrefix(m.File, repo+"/") + ":" + itoa(m.Line), "function": m.Func, "operator": m.Op, "edit": m.Text, "flagged_by": m.By})
		}
		return out
	}
	var fnNames []string
	for _, f := range fns {
		fnNames = append(fnNames, fnShort(f))
	}
	return map[string]interface{}{
		"checker_panics":    int(panics),
		"what":              "one-edit variants (negate if, swap comparison/logic operator, delete call/defer/return/continue/break/assignment) of the functions named by this property's obligations, analysed in process: the edited file is re-parsed and its package plus every loaded package importing it are type-checked again and rebuilt into a new SSA program, then the same rules run; nothing is executed and /repo is not touched",
		"functions":         fnNames,
		"variants_possible": total,
		"variants_tried":    len(ms),
		"not_compiled":      counts["not_compiled"],
		"flagged":           counts["flagged"],
		"survived":          counts["survived"],
		"flagged_by_rule":   byRule,
		"flagged_examples":  rel(flagged, 12),
		"survivors":         rel(survivors, 400),
		"note":              "survivors are edits the rules do not react to: either behaviour-neutral for this property (logging, metrics, unrelated branches) or outside the decided clauses listed under not_decided; they do not affect the verdict",
	}
}
