package main

import (
	"go/constant"
	"strings"

	"golang.org/x/tools/go/ssa"
)

// Decision-table rules (engine: dtable.go). Written in session 3, before round 6 of the seeded changes was looked at.

func init() {
	extraRules["C14"] = append(extraRules["C14"], func(r *R) { syncTable(r, "C14-R11", true) })
	extraRules["C15"] = append(extraRules["C15"], func(r *R) { syncTable(r, "C15-R10", false) }, c15ShutdownTables)
}

// commaOkOf: v is `extract #idx` of a comma-ok map lookup; returns the lookup.
func commaOkOf(v ssa.Value, idx int) *ssa.Lookup {
	ex, ok := v.(*ssa.Extract)
	if !ok || ex.Index != idx {
		return nil
	}
	l, ok := ex.Tuple.(*ssa.Lookup)
	if !ok || !l.CommaOk {
		return nil
	}
	return l
}

func isInvokeResult(v ssa.Value, method string, idx int) bool {
	v = Strip(v)
	if ex, ok := v.(*ssa.Extract); ok {
		if ex.Index != idx {
			return false
		}
		v = ex.Tuple
	} else if idx > 0 {
		return false
	}
	c, ok := v.(*ssa.Call)
	if !ok {
		return false
	}
	return c.Call.IsInvoke() && c.Call.Method.Name() == method || (!c.Call.IsInvoke() && bareName(CalleeName(&c.Call)) == method)
}

// syncTable: scheduler.sync's per-container reconciliation as a decision table over
// (State, reported by the pool, exit time known, queue updated after exit, priority, unknown workers).
// c14: the rows of C14's last clause (lingering processes are killed); otherwise C15's (dead processes ⇒ cancel / requeue).
func syncTable(r *R, rule string, c14 bool) {
	if c14 {
		r.Rule(rule, "scheduler.sync decision table (finite-domain interpretation of the loop body over State × reported-by-pool × exited × updated-after-exit × priority × unknown-workers): a container that is Complete/Cancelled, re-queued, or has priority 0 while the pool still reports its process gets kill(); a process the queue does not know is killed", 1)
	} else {
		r.Rule(rule, "scheduler.sync decision table: a Running container that no worker reports (and no worker is in unknown state), or whose process exited before the queue was last updated, is cancelled; a Locked container whose process exited is re-queued; a Locked container on hold that is not running is re-queued", 1)
	}
	fn := r.NeedFn(rule, "(*"+sc+".Scheduler).sync")
	if fn == nil {
		return
	}
	// the per-container loop: its body starts in the block holding the comma-ok lookup in Running()'s result
	var look *ssa.Lookup
	var tail *ssa.Lookup // `_, known := qEntries[uuid]` of the second loop
	allInstrs(fn, func(in ssa.Instruction) {
		if l, ok := in.(*ssa.Lookup); ok && l.CommaOk {
			if isInvokeResult(l.X, "Running", 0) {
				look = l
			} else if isInvokeResult(l.X, "Entries", 0) {
				tail = l
			}
		}
	})
	if look == nil {
		r.Und(rule, fn, "per-container loop", fn.Pos(), "comma-ok lookup in pool.Running() not found")
		return
	}
	head := loopHeadOf(look.Block())
	if head == nil {
		r.Und(rule, fn, "per-container loop", look.Pos(), "loop head not found")
		return
	}
	atom := func(v ssa.Value) (string, bool) {
		if l := commaOkOf(v, 1); l != nil && l == look {
			return "reported", true
		}
		if l := commaOkOf(v, 1); l != nil && tail != nil && l == tail {
			return "known", true
		}
		if c, ok := v.(*ssa.Call); ok {
			switch CalleeName(&c.Call) {
			case "(time.Time).IsZero":
				if l := commaOkOf(Strip(CallRecvOrArg0(&c.Call)), 0); l == look {
					return "exitZero", true
				}
			case "(time.Time).After":
				a := CallArgsAll(&c.Call)
				if len(a) == 2 && isInvokeResult(a[0], "Entries", 1) && commaOkOf(Strip(a[1]), 0) == look {
					return "updatedAfterExit", true
				}
			case "(time.Time).Before":
				a := CallArgsAll(&c.Call)
				if len(a) == 2 && isInvokeResult(a[1], "Entries", 1) && commaOkOf(Strip(a[0]), 0) == look {
					return "updatedAfterExit", true
				}
			}
		}
		if _, f, _, ok := LoadedField(v); ok {
			cs := Canon(v)
			if f == "State" && strings.Contains(cs, "Container.State") {
				return "state", true
			}
			if f == "Priority" && strings.Contains(cs, "Container.Priority") {
				return "priority", true
			}
		}
		if l, ok := v.(*ssa.Lookup); ok && !l.CommaOk && isInvokeResult(l.X, "CountWorkers", 0) {
			if k, ok := ConstInt(l.Index); ok && k == 0 { // worker.StateUnknown == 0 (checked below)
				return "unknownWorkers", true
			}
		}
		return "", false
	}
	// worker.StateUnknown must be the zero State for the atom above to mean what it says
	if v, ok := constsOfType(r.W, wk, "State")["StateUnknown"]; !ok || v.ExactString() != "0" {
		r.Und(rule, fn, "worker.StateUnknown", fn.Pos(), "constant StateUnknown is not 0; the unknown-workers observation cannot be identified")
		return
	}
	dom := map[string][]dval{
		"state":            {dS("Queued"), dS("Locked"), dS("Running"), dS("Complete"), dS("Cancelled")},
		"reported":         {dI(0), dI(1)},
		"exitZero":         {dI(0), dI(1)},
		"updatedAfterExit": {dI(0), dI(1)},
		"priority":         {dI(0), dI(1), dI(500)},
		"unknownWorkers":   {dI(0), dI(2)},
	}
	stop := func(b *ssa.BasicBlock) bool { return b == head }
	startIdx := 0
	expect := func(v map[string]dval) *dtExpect {
		st, rep, ez, after, prio, unk := v["state"].s, v["reported"].i == 1, v["exitZero"].i == 1, v["updatedAfterExit"].i == 1, v["priority"].i, v["unknownWorkers"].i
		if !rep && !ez {
			return nil // infeasible: a container the pool does not report has no exit time
		}
		if ez && after {
			// After(zero time) is true in reality; the code never consults it when the exit time is zero. Keep one representative.
			return nil
		}
		if c14 {
			switch {
			case (st == "Complete" || st == "Cancelled") && rep:
				return &dtExpect{must: []string{"kill"}, why: "finished container still reported by the pool ⇒ kill"}
			case st == "Queued" && rep:
				return &dtExpect{must: []string{"kill"}, why: "re-queued container still reported by the pool ⇒ kill"}
			case st == "Running" && rep && ez && prio == 0:
				return &dtExpect{must: []string{"kill"}, why: "running container put on hold (priority 0) ⇒ kill"}
			case st == "Locked" && rep && ez && prio == 0:
				return &dtExpect{must: []string{"kill"}, why: "locked container put on hold while its process is alive ⇒ kill"}
			}
			return nil
		}
		switch {
		case st == "Running" && !rep && unk == 0:
			return &dtExpect{must: []string{"cancel"}, why: "Running, no worker reports it, no worker in unknown state ⇒ cancel"}
		case st == "Running" && rep && !ez && after:
			return &dtExpect{must: []string{"cancel"}, why: "Running after its crunch-run exited ⇒ cancel"}
		case st == "Locked" && rep && !ez && after:
			return &dtExpect{must: []string{"requeue"}, why: "Locked and its crunch-run exited ⇒ requeue"}
		case st == "Locked" && !rep && prio == 0:
			return &dtExpect{must: []string{"requeue"}, why: "Locked, on hold, not running ⇒ requeue"}
		case st == "Running" && rep && ez && prio > 0:
			return &dtExpect{mustNot: []string{"cancel", "kill", "requeue"}, why: "healthy Running container with positive priority is left alone"}
		case st == "Locked" && rep && ez && prio > 0:
			return &dtExpect{mustNot: []string{"cancel", "kill", "requeue"}, why: "Locked container being started/run with positive priority is left alone"}
		case (st == "Locked" || st == "Queued") && !rep && prio > 0:
			return &dtExpect{mustNot: []string{"cancel", "kill", "requeue", "Forget"}, why: "runnable container waiting for a worker is left in the queue"}
		}
		return nil
	}
	action := func(in ssa.Instruction) (string, bool) {
		lab, ok := moduleAction(in)
		if !ok {
			return "", false
		}
		return strings.TrimPrefix(lab, "go "), true
	}
	// start at the lookup's block (the body's first block), from the loop head
	r.dtCheck(rule, fn, "per-container decision", dom, atom, look.Block(), startIdx, head, stop, action, expect)

	if c14 {
		if tail == nil {
			r.Und(rule, fn, "processes not in the queue", fn.Pos(), "second loop (lookup in queue entries) not found")
			return
		}
		h2 := loopHeadOf(tail.Block())
		if h2 == nil {
			r.Und(rule, fn, "processes not in the queue", tail.Pos(), "loop head not found")
			return
		}
		r.dtCheck(rule, fn, "reported process without queue entry", map[string][]dval{"known": {dI(0), dI(1)}, "unknownWorkers": {dI(0), dI(2)}}, atom, tail.Block(), 0, h2,
			func(b *ssa.BasicBlock) bool { return b == h2 }, action, func(v map[string]dval) *dtExpect {
				if v["known"].i == 0 {
					return &dtExpect{must: []string{"kill"}, why: "process of a container that is not in the queue ⇒ kill"}
				}
				return &dtExpect{mustNot: []string{"kill"}, why: "process of a queued container is not killed by the not-in-queue sweep"}
			})
	}
}

// loopHeadOf: the rangeiter/for head whose body (transitively, before returning to it) contains b: the nearest
// dominator of b that has a back edge from a block dominated by it.
func loopHeadOf(b *ssa.BasicBlock) *ssa.BasicBlock {
	for d := b; d != nil; d = d.Idom() {
		for _, p := range d.Preds {
			if d.Dominates(p) && (p == b || reachesBlock(b, p, d)) {
				return d
			}
		}
	}
	return nil
}

// reachesBlock: is `to` reachable from `from` without passing through `avoid`?
func reachesBlock(from, to, avoid *ssa.BasicBlock) bool {
	seen := map[*ssa.BasicBlock]bool{avoid: true}
	st := []*ssa.BasicBlock{from}
	for len(st) > 0 {
		x := st[len(st)-1]
		st = st[:len(st)-1]
		if x == to {
			return true
		}
		if seen[x] {
			continue
		}
		seen[x] = true
		st = append(st, x.Succs...)
	}
	return false
}

// CallArgsAll: receiver (for static method calls) followed by the arguments.
func CallArgsAll(c *ssa.CallCommon) []ssa.Value {
	if c.IsInvoke() {
		return append([]ssa.Value{c.Value}, c.Args...)
	}
	return c.Args
}

func CallRecvOrArg0(c *ssa.CallCommon) ssa.Value {
	a := CallArgsAll(c)
	if len(a) == 0 {
		return nil
	}
	return a[0]
}

// c15ShutdownTables: worker.eligibleForShutdown and worker.shutdownIfBroken as decision tables.
func c15ShutdownTables(r *R) {
	const rule = "C15-R11"
	r.Rule(rule, "worker shutdown decision tables: eligibleForShutdown(idleBehavior × state × idle time vs timeoutIdle) is true for a draining Booting/Idle worker and for an Idle worker past timeoutIdle, false for a held worker, for a Run worker that is booting, running or idle for less than timeoutIdle; shutdownIfBroken(idleBehavior × state × unresponsive time) calls shutdown() exactly when not held and the time reaches timeoutBooting (Unknown/Booting) or timeoutProbe (other states)", 2)
	wt := "(*" + wk + ".worker)."
	states := constsOfType(r.W, wk, "State")
	beh := constsOfType(r.W, wk, "IdleBehavior")
	sv := func(n string) (int64, bool) {
		c, ok := states[n]
		if !ok {
			return 0, false
		}
		return constInt64(c)
	}
	// IdleBehavior is a string type
	bv := func(n string) (string, bool) {
		c, ok := beh[n]
		if !ok {
			return "", false
		}
		return constStr(c)
	}
	var stVals []dval
	stName := map[int64]string{}
	for _, n := range []string{"StateUnknown", "StateBooting", "StateIdle", "StateRunning", "StateShutdown"} {
		k, ok := sv(n)
		if !ok {
			r.Und(rule, nil, "worker.State constants", 0, "constant "+n+" not found")
			return
		}
		stVals = append(stVals, dI(k))
		stName[k] = n
	}
	var bhVals []dval
	bhName := map[string]string{}
	for _, n := range []string{"IdleBehaviorRun", "IdleBehaviorHold", "IdleBehaviorDrain"} {
		s, ok := bv(n)
		if !ok {
			r.Und(rule, nil, "worker.IdleBehavior constants", 0, "constant "+n+" not found")
			return
		}
		bhVals = append(bhVals, dS(s))
		bhName[s] = n
	}
	atom := func(v ssa.Value) (string, bool) {
		if t, f, _, ok := LoadedField(v); ok && strings.HasSuffix(t, "worker.worker") {
			switch f {
			case "state":
				return "state", true
			case "idleBehavior":
				return "idleBehavior", true
			}
		}
		if t, f, _, ok := LoadedField(v); ok && strings.HasSuffix(t, "worker.Pool") {
			switch f {
			case "timeoutIdle", "timeoutProbe", "timeoutBooting":
				return f, true
			}
		}
		if c, ok := v.(*ssa.Call); ok && CalleeName(&c.Call) == "time.Since" {
			if _, f, _, ok := LoadedField(Strip(c.Call.Args[0])); ok && f == "busy" {
				return "idleFor", true
			}
		}
		if p, ok := v.(*ssa.Parameter); ok && p.Name() == "dur" {
			return "dur", true
		}
		return "", false
	}
	one, zero := int64(1), int64(0)
	if fn := r.NeedFn(rule, wt+"eligibleForShutdown"); fn != nil && len(fn.Blocks) > 0 {
		dom := map[string][]dval{"state": stVals, "idleBehavior": bhVals, "idleFor": {dI(5), dI(10), dI(15)}, "timeoutIdle": {dI(10)}}
		r.dtCheck(rule, fn, "eligibleForShutdown", dom, atom, fn.Blocks[0], 0, nil, nil, moduleAction, func(v map[string]dval) *dtExpect {
			st, b, idle := stName[v["state"].i], bhName[v["idleBehavior"].s], v["idleFor"].i
			switch {
			case b == "IdleBehaviorHold":
				return &dtExpect{ret: &zero, why: "a held worker is never eligible"}
			case b == "IdleBehaviorDrain" && (st == "StateBooting" || st == "StateIdle"):
				return &dtExpect{ret: &one, why: "a draining worker without containers is eligible (drained instances are shut down)"}
			case b == "IdleBehaviorRun" && st == "StateIdle" && idle >= 10:
				return &dtExpect{ret: &one, why: "an idle worker is eligible once idle for timeoutIdle (idle instances are released)"}
			case b == "IdleBehaviorRun" && st == "StateIdle" && idle < 10:
				return &dtExpect{ret: &zero, why: "an idle worker is kept until timeoutIdle (otherwise no container ever finds a worker)"}
			case b == "IdleBehaviorRun" && (st == "StateBooting" || st == "StateRunning"):
				return &dtExpect{ret: &zero, why: "a booting or running worker in Run mode is not eligible"}
			case st == "StateUnknown" || st == "StateShutdown":
				return &dtExpect{ret: &zero, why: "unknown / already shut down workers are not eligible"}
			}
			return nil // draining + running: decided by the per-runner loops (not interpreted)
		})
	}
	if fn := r.NeedFn(rule, wt+"shutdownIfBroken"); fn != nil && len(fn.Blocks) > 0 {
		dom := map[string][]dval{"state": stVals, "idleBehavior": bhVals, "dur": {dI(5), dI(10), dI(15), dI(20), dI(25)}, "timeoutProbe": {dI(10)}, "timeoutBooting": {dI(20)}}
		r.dtCheck(rule, fn, "shutdownIfBroken", dom, atom, fn.Blocks[0], 0, nil, nil, moduleAction, func(v map[string]dval) *dtExpect {
			st, b, dur := stName[v["state"].i], bhName[v["idleBehavior"].s], v["dur"].i
			thr := int64(10)
			if st == "StateUnknown" || st == "StateBooting" {
				thr = 20
			}
			switch {
			case b == "IdleBehaviorHold":
				return &dtExpect{mustNot: []string{"shutdown"}, ret: &zero, why: "a held worker is never shut down"}
			case dur >= thr:
				return &dtExpect{must: []string{"shutdown"}, ret: &one, why: "unresponsive for the applicable timeout (timeoutBooting while Unknown/Booting, timeoutProbe otherwise) ⇒ shutdown()"}
			default:
				return &dtExpect{mustNot: []string{"shutdown"}, ret: &zero, why: "not yet unresponsive for the applicable timeout ⇒ kept (a slow boot is not a failed boot)"}
			}
		})
	}
}

func constInt64(c constant.Value) (int64, bool) {
	if c.Kind() != constant.Int {
		return 0, false
	}
	return constant.Int64Val(c)
}

func constStr(c constant.Value) (string, bool) {
	if c.Kind() != constant.String {
		return "", false
	}
	return constant.StringVal(c), true
}
