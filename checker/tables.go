package main

import (
	"go/constant"
	"strings"

	"golang.org/x/tools/go/ssa"
)

// Decision-table rules (engine: dtable.go). Written in session 3, before round 6 of the seeded changes was looked at.

func init() {
	extraRules["C14"] = append(extraRules["C14"], func(r *R) { syncTable(r, "C14-R11", true) })
	extraRules["C15"] = append(extraRules["C15"], func(r *R) { syncTable(r, "C15-R10", false) }, c15ShutdownTables)
}

// commaOkOf: v is `extract #idx` of a comma-ok map lookup; returns the lookup.
func commaOkOf(v ssa.Value, idx int) *ssa.Lookup {
	ex, ok := v.(*ssa.Extract)
	if !ok || ex.Index != idx {
		return nil
	}
	l, ok := ex.Tuple.(*ssa.Lookup)
	if !ok || !l.CommaOk {
		return nil
	}
	return l
}

func isInvokeResult(v ssa.Value, method string, idx int) bool {
	v = Strip(v)
	if ex, ok := v.(*ssa.Extract); ok {
		if ex.Index != idx {
			return false
		}
		v = ex.Tuple
	} else if idx > 0 {
		return false
	}
	c, ok := v.(*ssa.Call)
	if !ok {
		return false
	}
	return c.Call.IsInvoke() && c.Call.Method.Name() == method || (!c.Call.IsInvoke() && bareName(CalleeName(&c.Call)) == method)
}

// syncTable: scheduler.sync's per-container reconciliation as a decision table over
// (State, reported by the pool, exit time known, queue updated after exit, priority, unknown workers).
// c14: the rows of C14's last clause (lingering processes are killed); otherwise C15's (dead processes ⇒ cancel / requeue).
func syncTable(r *R, rule string, c14 bool) {
	if c14 {
		r.Rule(rule, "scheduler.sync decision table (finite-domain interpretation of the loop body over State × reported-by-pool × exited × updated-after-exit × priority × unknown-workers): a container that is Complete/Cancelled, re-queued, or has priority 0 while the pool still reports its process gets kill(); a process the queue does not know is killed", 1)
	} else {
		r.Rule(rule, "scheduler.sync decision table: a Running container that no worker reports (and no worker is in unknown state), or whose process exited before the queue was last updated, is cancelled; a Locked container whose process exited is re-queued; a Locked container on hold that is not running is re-queued", 1)
	}
	fn := r.NeedFn(rule, "(*"+sc+".Scheduler).sync")
	if fn == nil {
		return
	}
	// the per-container loop: its body starts in the block holding the comma-ok lookup in Running()'s result
	var look *ssa.Lookup
	var tail *ssa.Lookup // `_, known := qEntries[uuid]` of the second loop
	allInstrs(fn, func(in ssa.Instruction) {
		if l, ok := in.(*ssa.Lookup); ok && l.CommaOk {
			if isInvokeResult(l.X, "Running", 0) {
				look = l
			} else if isInvokeResult(l.X, "Entries", 0) {
				tail = l
			}
		}
	})
	if look == nil {
		r.Und(rule, fn, "per-container loop", fn.Pos(), "comma-ok lookup in pool.Running() not found")
		return
	}
	head := loopHeadOf(look.Block())
	if head == nil {
		r.Und(rule, fn, "per-container loop", look.Pos(), "loop head not found")
		return
	}
	atom := func(v ssa.Value) (string, bool) {
		if l := commaOkOf(v, 1); l != nil && l == look {
			return "reported", true
		}
		if l := commaOkOf(v, 1); l != nil && tail != nil && l == tail {
			return "known", true
		}
		if c, ok := v.(*ssa.Call); ok {
			switch CalleeName(&c.Call) {
			case "(time.Time).IsZero":
				if l := commaOkOf(Strip(CallRecvOrArg0(&c.Call)), 0); l == look {
					return "exitZero", true
				}
			case "(time.Time).After":
				a := CallArgsAll(&c.Call)
				if len(a) == 2 && isInvokeResult(a[0], "Entries", 1) && commaOkOf(Strip(a[1]), 0) == look {
					return "updatedAfterExit", true
				}
			case "(time.Time).Before":
				a := CallArgsAll(&c.Call)
				if len(a) == 2 && isInvokeResult(a[1], "Entries", 1) && commaOkOf(Strip(a[0]), 0) == look {
					return "updatedAfterExit", true
				}
			}
		}
		if _, f, _, ok := LoadedField(v); ok {
			cs := Canon(v)
			if f == "State" && strings.Contains(cs, "Container.State") {
				return "state", true
			}
			if f == "Priority" && strings.Contains(cs, "Container.Priority") {
				return "priority", true
			}
		}
		if l, ok := v.(*ssa.Lookup); ok && !l.CommaOk && isInvokeResult(l.X, "CountWorkers", 0) {
			if k, ok := ConstInt(l.Index); ok && k == 0 { // worker.StateUnknown == 0 (checked below)
				return "unknownWorkers", true
			}
		}
		return "", false
	}
	// worker.StateUnknown must be the zero State for the atom above to mean what it says
	if v, ok := constsOfType(r.W, wk, "State")["StateUnknown"]; !ok || v.ExactString() != "0" {
		r.Und(rule, fn, "worker.StateUnknown", fn.Pos(), "constant StateUnknown is not 0; the unknown-workers observation cannot be identified")
		return
	}
	dom := map[string][]dval{
		"state":            {dS("Queued"), dS("Locked"), dS("Running"), dS("Complete"), dS("Cancelled")},
		"reported":         {dI(0), dI(1)},
		"exitZero":         {dI(0), dI(1)},
		"updatedAfterExit": {dI(0), dI(1)},
		"priority":         {dI(0), dI(1), dI(500)},
		"unknownWorkers":   {dI(0), dI(2)},
	}
	stop := func(b *ssa.BasicBlock) bool { return b == head }
	startIdx := 0
	expect := func(v map[string]dval) *dtExpect {
		st, rep, ez, after, prio, unk := v["state"].s, v["reported"].i == 1, v["exitZero"].i == 1, v["updatedAfterExit"].i == 1, v["priority"].i, v["unknownWorkers"].i
		if !rep && !ez {
			return nil // infeasible: a container the pool does not report has no exit time
		}
		if ez && after {
			// After(zero time) is true in reality; the code never consults it when the exit time is zero. Keep one representative.
			return nil
		}
		if c14 {
			switch {
			case (st == "Complete" || st == "Cancelled") && rep:
				return &dtExpect{must: []string{"kill"}, why: "finished container still reported by the pool ⇒ kill"}
			case st == "Queued" && rep:
				return &dtExpect{must: []string{"kill"}, why: "re-queued container still reported by the pool ⇒ kill"}
			case st == "Running" && rep && ez && prio == 0:
				return &dtExpect{must: []string{"kill"}, why: "running container put on hold (priority 0) ⇒ kill"}
			case st == "Locked" && rep && ez && prio == 0:
				return &dtExpect{must: []string{"kill"}, why: "locked container put on hold while its process is alive ⇒ kill"}
			}
			return nil
		}
		switch {
		case st == "Running" && !rep && unk == 0:
			return &dtExpect{must: []string{"cancel"}, why: "Running, no worker reports it, no worker in unknown state ⇒ cancel"}
		case st == "Running" && rep && !ez && after:
			return &dtExpect{must: []string{"cancel"}, why: "Running after its crunch-run exited ⇒ cancel"}
		case st == "Locked" && rep && !ez && after:
			return &dtExpect{must: []string{"requeue"}, why: "Locked and its crunch-run exited ⇒ requeue"}
		case st == "Locked" && !rep && prio == 0:
			return &dtExpect{must: []string{"requeue"}, why: "Locked, on hold, not running ⇒ requeue"}
		case st == "Running" && rep && ez && prio > 0:
			return &dtExpect{mustNot: []string{"cancel", "kill", "requeue"}, why: "healthy Running container with positive priority is left alone"}
		case st == "Locked" && rep && ez && prio > 0:
			return &dtExpect{mustNot: []string{"cancel", "kill", "requeue"}, why: "Locked container being started/run with positive priority is left alone"}
		case (st == "Locked" || st == "Queued") && !rep && prio > 0:
			return &dtExpect{mustNot: []string{"cancel", "kill", "requeue", "Forget"}, why: "runnable container waiting for a worker is left in the queue"}
		}
		return nil
	}
	action := func(in ssa.Instruction) (string, bool) {
		lab, ok := moduleAction(in)
		if !ok {
			return "", false
		}
		return strings.ReplaceAll(strings.TrimPrefix(lab, "go "), "+go ", "+"), true
	}
	// start at the lookup's block (the body's first block), from the loop head
	r.dtCheck(rule, fn, "per-container decision", dom, atom, look.Block(), startIdx, head, stop, action, expect)

	if c14 {
		if tail == nil {
			r.Und(rule, fn, "processes not in the queue", fn.Pos(), "second loop (lookup in queue entries) not found")
			return
		}
		h2 := loopHeadOf(tail.Block())
		if h2 == nil {
			r.Und(rule, fn, "processes not in the queue", tail.Pos(), "loop head not found")
			return
		}
		r.dtCheck(rule, fn, "reported process without queue entry", map[string][]dval{"known": {dI(0), dI(1)}, "unknownWorkers": {dI(0), dI(2)}}, atom, tail.Block(), 0, h2,
			func(b *ssa.BasicBlock) bool { return b == h2 }, action, func(v map[string]dval) *dtExpect {
				if v["known"].i == 0 {
					return &dtExpect{must: []string{"kill"}, why: "process of a container that is not in the queue ⇒ kill"}
				}
				return &dtExpect{mustNot: []string{"kill"}, why: "process of a queued container is not killed by the not-in-queue sweep"}
			})
	}
}

// loopHeadOf: the rangeiter/for head whose body (transitively, before returning to it) contains b: the nearest
// dominator of b that has a back edge from a block dominated by it.
func loopHeadOf(b *ssa.BasicBlock) *ssa.BasicBlock {
	for d := b; d != nil; d = d.Idom() {
		for _, p := range d.Preds {
			if d.Dominates(p) && (p == b || reachesBlock(b, p, d)) {
				return d
			}
		}
	}
	return nil
}

// reachesBlock: is `to` reachable from `from` without passing through `avoid`?
func reachesBlock(from, to, avoid *ssa.BasicBlock) bool {
	seen := map[*ssa.BasicBlock]bool{avoid: true}
	st := []*ssa.BasicBlock{from}
	for len(st) > 0 {
		x := st[len(st)-1]
		st = st[:len(st)-1]
		if x == to {
			return true
		}
		if seen[x] {
			continue
		}
		seen[x] = true
		st = append(st, x.Succs...)
	}
	return false
}

// CallArgsAll: receiver (for static method calls) followed by the arguments.
func CallArgsAll(c *ssa.CallCommon) []ssa.Value {
	if c.IsInvoke() {
		return append([]ssa.Value{c.Value}, c.Args...)
	}
	return c.Args
}

func CallRecvOrArg0(c *ssa.CallCommon) ssa.Value {
	a := CallArgsAll(c)
	if len(a) == 0 {
		return nil
	}
	return a[0]
}

// c15ShutdownTables: worker.eligibleForShutdown and worker.shutdownIfBroken as decision tables.
func c15ShutdownTables(r *R) {
	const rule = "C15-R11"
	r.Rule(rule, "worker shutdown decision tables: eligibleForShutdown(idleBehavior × state × idle time vs timeoutIdle) is true for a draining Booting/Idle worker and for an Idle worker past timeoutIdle, false for a held worker, for a Run worker that is booting, running or idle for less than timeoutIdle; shutdownIfBroken(idleBehavior × state × unresponsive time) calls shutdown() exactly when not held and the time reaches timeoutBooting (Unknown/Booting) or timeoutProbe (other states)", 2)
	wt := "(*" + wk + ".worker)."
	states := constsOfType(r.W, wk, "State")
	beh := constsOfType(r.W, wk, "IdleBehavior")
	sv := func(n string) (int64, bool) {
		c, ok := states[n]
		if !ok {
			return 0, false
		}
		return constInt64(c)
	}
	// IdleBehavior is a string type
	bv := func(n string) (string, bool) {
		c, ok := beh[n]
		if !ok {
			return "", false
		}
		return constStr(c)
	}
	var stVals []dval
	stName := map[int64]string{}
	for _, n := range []string{"StateUnknown", "StateBooting", "StateIdle", "StateRunning", "StateShutdown"} {
		k, ok := sv(n)
		if !ok {
			r.Und(rule, nil, "worker.State constants", 0, "constant "+n+" not found")
			return
		}
		stVals = append(stVals, dI(k))
		stName[k] = n
	}
	var bhVals []dval
	bhName := map[string]string{}
	for _, n := range []string{"IdleBehaviorRun", "IdleBehaviorHold", "IdleBehaviorDrain"} {
		s, ok := bv(n)
		if !ok {
			r.Und(rule, nil, "worker.IdleBehavior constants", 0, "constant "+n+" not found")
			return
		}
		bhVals = append(bhVals, dS(s))
		bhName[s] = n
	}
	atom := func(v ssa.Value) (string, bool) {
		if t, f, _, ok := LoadedField(v); ok && strings.HasSuffix(t, "worker.worker") {
			switch f {
			case "state":
				return "state", true
			case "idleBehavior":
				return "idleBehavior", true
			}
		}
		if t, f, _, ok := LoadedField(v); ok && strings.HasSuffix(t, "worker.Pool") {
			switch f {
			case "timeoutIdle", "timeoutProbe", "timeoutBooting":
				return f, true
			}
		}
		if c, ok := v.(*ssa.Call); ok && CalleeName(&c.Call) == "time.Since" {
			if _, f, _, ok := LoadedField(Strip(c.Call.Args[0])); ok && f == "busy" {
				return "idleFor", true
			}
		}
		if p, ok := v.(*ssa.Parameter); ok && p.Name() == "dur" {
			return "dur", true
		}
		return "", false
	}
	one, zero := int64(1), int64(0)
	if fn := r.NeedFn(rule, wt+"eligibleForShutdown"); fn != nil && len(fn.Blocks) > 0 {
		dom := map[string][]dval{"state": stVals, "idleBehavior": bhVals, "idleFor": {dI(5), dI(10), dI(15)}, "timeoutIdle": {dI(10)}}
		r.dtCheck(rule, fn, "eligibleForShutdown", dom, atom, fn.Blocks[0], 0, nil, nil, moduleAction, func(v map[string]dval) *dtExpect {
			st, b, idle := stName[v["state"].i], bhName[v["idleBehavior"].s], v["idleFor"].i
			switch {
			case b == "IdleBehaviorHold":
				return &dtExpect{ret: &zero, why: "a held worker is never eligible"}
			case b == "IdleBehaviorDrain" && (st == "StateBooting" || st == "StateIdle"):
				return &dtExpect{ret: &one, why: "a draining worker without containers is eligible (drained instances are shut down)"}
			case b == "IdleBehaviorRun" && st == "StateIdle" && idle >= 10:
				return &dtExpect{ret: &one, why: "an idle worker is eligible once idle for timeoutIdle (idle instances are released)"}
			case b == "IdleBehaviorRun" && st == "StateIdle" && idle < 10:
				return &dtExpect{ret: &zero, why: "an idle worker is kept until timeoutIdle (otherwise no container ever finds a worker)"}
			case b == "IdleBehaviorRun" && (st == "StateBooting" || st == "StateRunning"):
				return &dtExpect{ret: &zero, why: "a booting or running worker in Run mode is not eligible"}
			case st == "StateUnknown" || st == "StateShutdown":
				return &dtExpect{ret: &zero, why: "unknown / already shut down workers are not eligible"}
			}
			return nil // draining + running: decided by the per-runner loops (not interpreted)
		})
	}
	if fn := r.NeedFn(rule, wt+"shutdownIfBroken"); fn != nil && len(fn.Blocks) > 0 {
		dom := map[string][]dval{"state": stVals, "idleBehavior": bhVals, "dur": {dI(5), dI(10), dI(15), dI(20), dI(25)}, "timeoutProbe": {dI(10)}, "timeoutBooting": {dI(20)}}
		r.dtCheck(rule, fn, "shutdownIfBroken", dom, atom, fn.Blocks[0], 0, nil, nil, moduleAction, func(v map[string]dval) *dtExpect {
			st, b, dur := stName[v["state"].i], bhName[v["idleBehavior"].s], v["dur"].i
			thr := int64(10)
			if st == "StateUnknown" || st == "StateBooting" {
				thr = 20
			}
			switch {
			case b == "IdleBehaviorHold":
				return &dtExpect{mustNot: []string{"shutdown"}, ret: &zero, why: "a held worker is never shut down"}
			case dur >= thr:
				return &dtExpect{must: []string{"shutdown"}, ret: &one, why: "unresponsive for the applicable timeout (timeoutBooting while Unknown/Booting, timeoutProbe otherwise) ⇒ shutdown()"}
			default:
				return &dtExpect{mustNot: []string{"shutdown"}, ret: &zero, why: "not yet unresponsive for the applicable timeout ⇒ kept (a slow boot is not a failed boot)"}
			}
		})
	}
}

func constInt64(c constant.Value) (int64, bool) {
	if c.Kind() != constant.Int {
		return 0, false
	}
	return constant.Int64Val(c)
}

func constStr(c constant.Value) (string, bool) {
	if c.Kind() != constant.String {
		return "", false
	}
	return constant.StringVal(c), true
}

func init() {
	extraRules["C14"] = append(extraRules["C14"], func(r *R) { runQueueTable(r, "C14-R13", true) })
	extraRules["C15"] = append(extraRules["C15"], func(r *R) { runQueueTable(r, "C15-R12", false) })
}

// runQueueTable: one iteration of runQueue's loop over the priority-sorted queue as a decision table over
// (State, reported by the pool, priority, unallocated workers of the type, AtQuota, KillContainer result, Create result,
// type refused earlier in this pass, StartContainer result).
// c14: rows on which a start / lock must NOT happen. Otherwise (C15): rows on which it MUST (a runnable container
// with a worker available is started; a queued one is locked; at quota a Locked container without a worker is unlocked).
func runQueueTable(r *R, rule string, c14 bool) {
	if c14 {
		r.Rule(rule, "scheduler.runQueue decision table (finite-domain interpretation of one loop iteration): StartContainer is called on no row other than State==Locked ∧ not reported by the pool ∧ priority ≥ 1 ∧ type not refused earlier ∧ KillContainer()==false (and a worker unallocated, or created below quota); lockContainer on no row other than State==Queued ∧ not reported ∧ priority ≥ 1", 1)
	} else {
		r.Rule(rule, "scheduler.runQueue decision table: a Locked, unreported, positive-priority container whose type has an unallocated worker (or one can be created below quota), not refused earlier and with no lingering process, IS started; a Queued one with capacity IS locked; at quota without an unallocated worker a Locked container IS unlocked and the scan stops", 1)
	}
	fn := r.NeedFn(rule, "(*"+sc+".Scheduler).runQueue")
	if fn == nil {
		return
	}
	var look *ssa.Lookup
	allInstrs(fn, func(in ssa.Instruction) {
		if l, ok := in.(*ssa.Lookup); ok && l.CommaOk && isInvokeResult(l.X, "Running", 0) {
			look = l
		}
	})
	if look == nil {
		r.Und(rule, fn, "per-container loop", fn.Pos(), "comma-ok lookup in pool.Running() not found")
		return
	}
	head := loopHeaderOf(look.Block())
	if head == nil {
		r.Und(rule, fn, "per-container loop", look.Pos(), "loop head not found")
		return
	}
	// the body's first block: the successor of the head inside the loop
	body := loopBody(head)
	var start *ssa.BasicBlock
	for _, s := range head.Succs {
		if body[s] {
			start = s
		}
	}
	if start == nil {
		r.Und(rule, fn, "per-container loop", look.Pos(), "loop body not found")
		return
	}
	invokeRes := func(v ssa.Value, method string) bool {
		c, ok := v.(*ssa.Call)
		return ok && c.Call.IsInvoke() && c.Call.Method.Name() == method
	}
	atom := func(v ssa.Value) (string, bool) {
		if l := commaOkOf(v, 1); l != nil && l == look {
			return "reported", true
		}
		if _, f, _, ok := LoadedField(v); ok {
			cs := Canon(v)
			if f == "State" && strings.Contains(cs, "Container") {
				return "state", true
			}
			if f == "Priority" && strings.Contains(cs, "Container") {
				return "priority", true
			}
		}
		if l, ok := v.(*ssa.Lookup); ok && !l.CommaOk {
			if isInvokeResult(l.X, "Unallocated", 0) {
				return "unalloc", true
			}
			if _, isMk := Resolve1(l.X).(*ssa.MakeMap); isMk && isBoolType(l.Type()) {
				return "refusedEarlier", true
			}
		}
		if c, ok := v.(*ssa.Call); ok && CalleeName(&c.Call) == "(time.Time).IsZero" {
			if l := commaOkOf(Strip(CallRecvOrArg0(&c.Call)), 0); l == look {
				return "exitZero", true
			}
		}
		switch {
		case invokeRes(v, "AtQuota"):
			return "atQuota", true
		case invokeRes(v, "KillContainer"):
			return "lingering", true
		case invokeRes(v, "Create"):
			return "created", true
		case invokeRes(v, "StartContainer"):
			return "started", true
		}
		return "", false
	}
	dom := map[string][]dval{
		"state":          {dS("Queued"), dS("Locked"), dS("Running"), dS("Complete"), dS("Cancelled")},
		"reported":       {dI(0), dI(1)},
		"priority":       {dI(0), dI(1), dI(500)},
		"unalloc":        {dI(0), dI(2)},
		"atQuota":        {dI(0), dI(1)},
		"lingering":      {dI(0), dI(1)},
		"created":        {dI(0), dI(1)},
		"refusedEarlier": {dI(0), dI(1)},
		"started":        {dI(0), dI(1)},
		"exitZero":       {dI(0), dI(1)}, // not consulted today; a reported container is skipped whether or not its process has exited
	}
	action := func(in ssa.Instruction) (string, bool) {
		lab, ok := moduleAction(in)
		if !ok {
			return "", false
		}
		return strings.ReplaceAll(strings.TrimPrefix(lab, "go "), "+go ", "+"), true
	}
	expect := func(v map[string]dval) *dtExpect {
		st, rep, prio := v["state"].s, v["reported"].i == 1, v["priority"].i
		if !rep && v["exitZero"].i == 0 {
			return nil // infeasible: no exit time without a report
		}
		un, quota, ling, created, refused := v["unalloc"].i, v["atQuota"].i == 1, v["lingering"].i == 1, v["created"].i == 1, v["refusedEarlier"].i == 1
		if v["started"].i == 1 && c14 {
			// the result of StartContainer does not influence whether it is called; keep one representative
			return nil
		}
		workerAvail := un > 0 || (!quota && created)
		if c14 {
			var no []string
			why := ""
			if !(st == "Locked" && !rep && prio >= 1 && !refused && !ling && workerAvail) {
				no = append(no, "StartContainer")
				why = "no start outside Locked ∧ unreported ∧ priority ≥ 1 ∧ not refused earlier ∧ no lingering process ∧ worker available"
			}
			if !(st == "Queued" && !rep && prio >= 1) {
				no = append(no, "lockContainer")
				if why == "" {
					why = "no lock outside Queued ∧ unreported ∧ priority ≥ 1"
				} else {
					why = "neither start nor lock for a container that is reported by the pool, on hold, or in another state"
					if st == "Locked" || st == "Queued" {
						why = "no start / lock outside the conditions of the statement (State, not reported, priority ≥ 1, order, lingering process)"
					}
				}
			}
			if len(no) == 0 {
				return nil
			}
			return &dtExpect{mustNot: no, why: why}
		}
		if v["started"].i == 0 {
			return nil // one representative of the StartContainer outcome is enough for the must-rows
		}
		switch {
		case st == "Locked" && !rep && prio >= 1 && workerAvail && !refused && !ling:
			return &dtExpect{must: []string{"StartContainer"}, why: "runnable Locked container with a worker available ⇒ StartContainer"}
		case st == "Queued" && !rep && prio >= 1 && !(un < 1 && quota) && !ling:
			return &dtExpect{must: []string{"lockContainer"}, why: "Queued container with capacity (or below quota) ⇒ lockContainer"}
		case st == "Locked" && !rep && prio >= 1 && un < 1 && quota:
			return &dtExpect{must: []string{"Unlock"}, mustNot: []string{"StartContainer"}, why: "at quota without an unallocated worker ⇒ the Locked container is unlocked, not started"}
		}
		return nil
	}
	r.dtCheck(rule, fn, "per-container decision", dom, atom, start, 0, head, func(b *ssa.BasicBlock) bool { return b == head || !start.Dominates(b) }, action, expect)
}

func init() {
	extraRules["C05"] = append(extraRules["C05"], c05EmissionTable)
}

// c05EmissionTable (C05-R10): the per-slot emission step of balanceBlock as a decision table over
// (slot.want, slot.repl present, replica mtime vs MinMtime, number of known replicas, mount read-only).
func c05EmissionTable(r *R) {
	const rule = "C05-R10"
	r.Rule(rule, "balanceBlock emission decision table (finite-domain interpretation over want × replica present × mtime vs MinMtime × known replicas × mount read-only): AddTrash exactly on rows NOT wanted ∧ replica present ∧ mtime < MinMtime; AddPull exactly on rows wanted ∧ no replica ∧ some replica exists ∧ mount writable", 1)
	fn := r.NeedFn(rule, "(*"+kb+".Balancer).balanceBlock")
	if fn == nil {
		return
	}
	trs := CallsIn(fn, "(*"+kb+".ChangeSet).AddTrash")
	if len(trs) != 1 {
		r.Und(rule, fn, "AddTrash", fn.Pos(), "expected exactly one AddTrash call")
		return
	}
	head := loopHeaderOf(trs[0].Block())
	if head == nil {
		r.Und(rule, fn, "emission loop", trs[0].Pos(), "loop head not found")
		return
	}
	body := loopBody(head)
	var start *ssa.BasicBlock
	for _, s := range head.Succs {
		if body[s] {
			start = s
		}
	}
	if start == nil {
		r.Und(rule, fn, "emission loop", trs[0].Pos(), "loop body not found")
		return
	}
	atom := func(v ssa.Value) (string, bool) {
		if t, f, _, ok := LoadedField(v); ok {
			switch {
			case strings.HasSuffix(t, "keep-balance.slot") && f == "want":
				return "want", true
			case strings.HasSuffix(t, "keep-balance.slot") && f == "repl":
				return "repl", true
			case strings.HasSuffix(t, "keep-balance.Replica") && f == "Mtime":
				return "mtime", true
			case strings.HasSuffix(t, "keep-balance.Balancer") && f == "MinMtime":
				return "minMtime", true
			case f == "ReadOnly":
				return "readOnly", true
			}
		}
		if c, ok := v.(*ssa.Call); ok && CalleeName(&c.Call) == "builtin.len" {
			if _, f, _, ok := LoadedField(Resolve1(c.Call.Args[0])); ok && f == "Replicas" {
				return "nReplicas", true
			}
		}
		return "", false
	}
	dom := map[string][]dval{
		"want": {dI(0), dI(1)}, "repl": {dI(0), dI(1)}, "mtime": {dI(5), dI(10), dI(15)}, "minMtime": {dI(10)},
		"nReplicas": {dI(0), dI(2)}, "readOnly": {dI(0), dI(1)},
	}
	// the Dumper branch is not part of the decision: treat bal.Dumper as absent
	atom2 := func(v ssa.Value) (string, bool) {
		if _, f, _, ok := LoadedField(v); ok && f == "Dumper" {
			return "dumper", true
		}
		return atom(v)
	}
	dom["dumper"] = []dval{dI(0)}
	r.dtCheck(rule, fn, "per-slot emission", dom, atom2, start, 0, head, func(b *ssa.BasicBlock) bool { return b == head || !start.Dominates(b) }, moduleAction,
		func(v map[string]dval) *dtExpect {
			want, repl, old := v["want"].i == 1, v["repl"].i == 1, v["mtime"].i < v["minMtime"].i
			n, ro := v["nReplicas"].i, v["readOnly"].i == 1
			if repl && n == 0 {
				return nil // infeasible: the slot holds a replica, so the block has one
			}
			trash := !want && repl && old
			pull := want && !repl && n > 0 && !ro
			switch {
			case trash:
				return &dtExpect{must: []string{"AddTrash"}, mustNot: []string{"AddPull"}, why: "unwanted old replica ⇒ trash request"}
			case pull:
				return &dtExpect{must: []string{"AddPull"}, mustNot: []string{"AddTrash"}, why: "wanted, missing, writable, a source exists ⇒ pull request"}
			case repl && !old:
				return &dtExpect{mustNot: []string{"AddTrash", "AddPull"}, why: "a replica newer than MinMtime is never trashed"}
			case repl && want:
				return &dtExpect{mustNot: []string{"AddTrash", "AddPull"}, why: "a wanted replica is never trashed"}
			default:
				return &dtExpect{mustNot: []string{"AddTrash", "AddPull"}, why: "no request for an empty unwanted slot, a read-only target, or a block without any replica"}
			}
		})
}
