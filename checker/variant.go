package main

import (
	"fmt"
	"go/ast"
	"go/parser"
	"go/types"
	"sort"
	"strings"
	"sync"

	"golang.org/x/tools/go/packages"
	"golang.org/x/tools/go/ssa"
)

// Variant builds, in process, the World that results from replacing one source
// file's content: the file is re-parsed, its package and every loaded package
// that (transitively) imports it are type-checked again from their syntax
// (dependencies that do not change keep their type information), and a new SSA
// program is built. Used only by the sensitivity self-test; it analyses the
// variant exactly like a normal run would, without go list / full re-load.
func (w *World) Variant(file string, src []byte) (*World, error) {
	// package containing the file
	var target *packages.Package
	for _, p := range w.All {
		if strings.Contains(p.ID, " [") || strings.HasSuffix(p.ID, ".test") {
			continue
		}
		for _, f := range p.CompiledGoFiles {
			if f == file {
				target = p
			}
		}
	}
	if target == nil {
		return nil, fmt.Errorf("file %s not in any loaded package", file)
	}
	// reverse-dependency cone
	byPath := map[string]*packages.Package{}
	for _, p := range w.All {
		if strings.Contains(p.ID, " [") || strings.HasSuffix(p.ID, ".test") {
			continue
		}
		byPath[p.PkgPath] = p
	}
	dependsOn := map[*packages.Package]bool{target: true}
	memo := map[*packages.Package]bool{}
	var dep func(p *packages.Package) bool
	dep = func(p *packages.Package) bool {
		if v, ok := memo[p]; ok {
			return v
		}
		memo[p] = false
		r := p == target
		for _, imp := range p.Imports {
			if dep(imp) {
				r = true
			}
		}
		memo[p] = r
		return r
	}
	var cone []*packages.Package
	for _, p := range byPath {
		if dep(p) {
			dependsOn[p] = true
			cone = append(cone, p)
		}
	}
	// topological order within the cone
	sort.Slice(cone, func(i, j int) bool { return cone[i].PkgPath < cone[j].PkgPath })
	var order []*packages.Package
	done := map[*packages.Package]bool{}
	var visit func(p *packages.Package)
	visit = func(p *packages.Package) {
		if done[p] || !dependsOn[p] {
			return
		}
		done[p] = true
		var imps []string
		for k := range p.Imports {
			imps = append(imps, k)
		}
		sort.Strings(imps)
		for _, k := range imps {
			visit(p.Imports[k])
		}
		order = append(order, p)
	}
	for _, p := range cone {
		visit(p)
	}
	newPkgs := map[string]*packages.Package{}
	imp := importerFunc(func(path string) (*types.Package, error) {
		if np, ok := newPkgs[path]; ok {
			return np.Types, nil
		}
		if path == "unsafe" {
			return types.Unsafe, nil
		}
		if p, ok := byPath[path]; ok && p.Types != nil {
			return p.Types, nil
		}
		return nil, fmt.Errorf("import %q not loaded", path)
	})
	for _, p := range order {
		files := make([]*ast.File, 0, len(p.Syntax))
		for i, f := range p.Syntax {
			name := p.CompiledGoFiles[i]
			if p == target && name == file {
				nf, err := parser.ParseFile(w.Fset, name, src, parser.SkipObjectResolution)
				if err != nil {
					return nil, fmt.Errorf("parse: %v", err)
				}
				files = append(files, nf)
			} else {
				files = append(files, f)
			}
		}
		info := &types.Info{
			Types:      map[ast.Expr]types.TypeAndValue{},
			Defs:       map[*ast.Ident]types.Object{},
			Uses:       map[*ast.Ident]types.Object{},
			Implicits:  map[ast.Node]types.Object{},
			Instances:  map[*ast.Ident]types.Instance{},
			Scopes:     map[ast.Node]*types.Scope{},
			Selections: map[*ast.SelectorExpr]*types.Selection{},
		}
		var firstErr error
		conf := &types.Config{
			Importer: imp,
			Sizes:    p.TypesSizes,
			Error: func(err error) {
				if firstErr == nil {
					firstErr = err
				}
			},
		}
		if p.Module != nil && p.Module.GoVersion != "" {
			conf.GoVersion = "go" + p.Module.GoVersion
		}
		tp, _ := conf.Check(p.PkgPath, w.Fset, files, info)
		if firstErr != nil {
			// pre-existing tolerated errors (cgo packages) stay tolerated; anything else = variant does not compile
			if !toleratedErr(p.PkgPath, firstErr.Error()) {
				return nil, fmt.Errorf("type-check %s: %v", p.PkgPath, firstErr)
			}
		}
		np := *p
		np.Types = tp
		np.TypesInfo = info
		np.Syntax = files
		np.Imports = map[string]*packages.Package{}
		for k, v := range p.Imports {
			if nv, ok := newPkgs[v.PkgPath]; ok {
				np.Imports[k] = nv
			} else {
				np.Imports[k] = v
			}
		}
		newPkgs[p.PkgPath] = &np
	}
	// new world
	nw := &World{RepoDir: w.RepoDir, Fset: w.Fset, All: map[string]*packages.Package{}, NPkgs: w.NPkgs, LoadErrs: w.LoadErrs}
	for id, p := range w.All {
		if np, ok := newPkgs[p.PkgPath]; ok && !strings.Contains(p.ID, " [") && !strings.HasSuffix(p.ID, ".test") {
			nw.All[id] = np
		} else {
			nw.All[id] = p
		}
	}
	for _, r := range w.Roots {
		if np, ok := newPkgs[r.PkgPath]; ok {
			nw.Roots = append(nw.Roots, np)
		} else {
			nw.Roots = append(nw.Roots, r)
		}
	}
	prog := ssa.NewProgram(w.Fset, ssa.InstantiateGenerics)
	created := map[*types.Package]bool{}
	var ids []string
	for id := range nw.All {
		ids = append(ids, id)
	}
	sort.Strings(ids)
	var build []*ssa.Package
	for _, id := range ids {
		p := nw.All[id]
		if p.Types == nil || created[p.Types] || strings.Contains(p.ID, " [") || strings.HasSuffix(p.ID, ".test") {
			continue
		}
		if p.IllTyped && newPkgs[p.PkgPath] == nil {
			continue
		}
		created[p.Types] = true
		sp := prog.CreatePackage(p.Types, p.Syntax, p.TypesInfo, true)
		if strings.HasPrefix(p.PkgPath, strings.TrimSuffix(modPrefix, "/")) {
			build = append(build, sp)
		}
	}
	var wg sync.WaitGroup
	for _, sp := range build {
		wg.Add(1)
		go func(sp *ssa.Package) {
			defer wg.Done()
			defer func() { recover() }() // cgo-dependent packages without a created dependency (lib/mount): left unbuilt, as in the normal load
			sp.Build()
		}(sp)
	}
	wg.Wait()
	nw.Prog = prog
	nw.indexFuncs()
	return nw, nil
}

type importerFunc func(path string) (*types.Package, error)

func (f importerFunc) Import(path string) (*types.Package, error) { return f(path) }
