#!/bin/bash
# usage: confirmseed.sh <id> [outdir]  — independently confirms a seeded change:
#  demo passes on clean tree, fails with patch; listed baseline tests of touched packages still pass with patch.
# On success copies it to /verif/seeded/<name>/
set -u
id=$1; out=${2:-/tmp/seed-$id-out}; name=${3:-$id}
export GOFLAGS=-mod=mod GOPROXY=off GOSUMDB=off GOTOOLCHAIN=local
wt=/tmp/confirm-$id-$$
git -C /repo worktree add -q --detach $wt HEAD 2>/dev/null
place=$(jq -r .demo_place_at $out/meta.json)
demo=$(ls $out/demo/*_test.go | head -1)
cp $demo $wt/$place
pkgdir=./$(dirname $place)
runpat=$(grep -o "func TestSeed[A-Za-z0-9_]*" $demo | sed 's/func //' | paste -sd'|')
ovl=""
if grep -q overlay $out/meta.json && [ -f $out/overlay.json ]; then
  stub=$(ls $out/*stub*.go | head -1)
  echo "{\"Replace\":{\"$wt/lib/controller/localdb/login_pam.go\":\"$stub\"}}" > /tmp/confirm-ovl-$$.json
  ovl="-overlay /tmp/confirm-ovl-$$.json"
fi
cd $wt
echo "== clean tree: demo ($runpat in $pkgdir)"
go test $ovl -vet=off -count=1 -run "^($runpat)\$" $pkgdir > /tmp/confirm-$$.log 2>&1; c1=$?
tail -3 /tmp/confirm-$$.log
git apply $out/patch.diff || { echo "PATCH DOES NOT APPLY"; c1=99; }
echo "== patched: build"
pkgs=$(git diff --name-only | xargs -n1 dirname | sort -u | sed 's#^#./#')
go build $ovl $pkgs > /tmp/confirm-$$.blog 2>&1; cb=$?; tail -3 /tmp/confirm-$$.blog
echo "== patched: demo"
go test $ovl -vet=off -count=1 -run "^($runpat)\$" $pkgdir > /tmp/confirm-$$.log 2>&1; c2=$?
grep -E "^(--- FAIL|FAIL|ok|panic)" /tmp/confirm-$$.log | head -5
echo "== patched: baseline tests in touched + dependent baseline packages"
rm $wt/$place
bt=0
for p in $(jq -r '.stable_pass[]' /root/.vp/BASELINE.json | sed 's#git.arvados.org/arvados.git/##; s#::.*##' | sort -u); do
  # only packages that depend on a touched package
  deps=$(go list -deps ./$p 2>/dev/null | sed 's#git.arvados.org/arvados.git/#./#')
  hit=0; for t in $pkgs; do echo "$deps" | grep -qx "$t" && hit=1; done
  [ $hit = 1 ] || continue
  tests=$(jq -r '.stable_pass[]' /root/.vp/BASELINE.json | grep "arvados.git/$p::" | sed 's#.*::##' | paste -sd'|')
  go test -vet=off -count=1 -run "^($tests)\$" ./$p > /tmp/confirm-$$.tlog 2>&1; rc=$?
  echo "   $p ($tests): rc=$rc"; [ $rc = 0 ] || { bt=1; tail -5 /tmp/confirm-$$.tlog; }
done
cd /; git -C /repo worktree remove --force $wt; rm -f /tmp/confirm-$$.* /tmp/confirm-ovl-$$.json
echo "RESULT $id: clean_demo_rc=$c1 build_rc=$cb patched_demo_rc=$c2 baseline_rc=$bt"
if [ $c1 = 0 ] && [ $cb = 0 ] && [ $c2 != 0 ] && [ $bt = 0 ]; then
  mkdir -p /verif/seeded/$name; cp $out/patch.diff /verif/seeded/$name/; cp -r $out/demo /verif/seeded/$name/; cp $out/meta.json /verif/seeded/$name/meta.agent.json
  [ -n "$ovl" ] && cp $out/*stub*.go /verif/seeded/$name/demo/login_pam_stub.go.txt
  echo "CONFIRMED -> /verif/seeded/$name"
fi
