#!/usr/bin/env python3
# Regenerates /verif/MANIFEST.json from tools/claims.json (per-property claim texts) and the list of armed properties.
import json,subprocess,sys
props=[json.loads(l) for l in open('/verif/properties.jsonl')]
base=json.load(open('/root/.vp/BASELINE.json'))
claims=json.load(open('/verif/tools/claims.json'))
armed=subprocess.run(['/verif/bin/arvcheck','-list'],capture_output=True,text=True).stdout.split()
fixes=subprocess.run(['git','-C','/repo','log','--format=%h %s','--grep=^fix:'],capture_output=True,text=True).stdout.strip().splitlines()
checks=[];na=[]
for p in props:
    i=p['id']; c=claims.get(i)
    if i in armed and c and not c.get('na'):
        checks.append({"property_id":i,
          "quick_cmd":f"/verif/bin/arvcheck -prop {i} -tier quick",
          "thorough_cmd":f"/verif/bin/arvcheck -prop {i} -tier thorough",
          "evidence_file":f"/verif/evidence/{i}.json",
          "replay_cmd_template":f"/verif/bin/arvcheck -prop {i} -explain {{path}}",
          "engine":"arvcheck",
          "level_claimed":{"category":"other","text":c["text"],"design_ref":f"DESIGN.md section 4, {i}"},
          "level_note":c["note"],
          "technique":c["technique"]})
    else:
        na.append({"property_id":i,"reason":(c or {}).get("na") or "rules for this property are not armed yet (see DESIGN.md section 4); no claim is made"})
m={"version":1,
"setup_cmd":"cd /verif/checker && GOFLAGS=-mod=mod GOPROXY=off GOSUMDB=off GOTOOLCHAIN=local GOWORK=off go build -o /verif/bin/arvcheck .",
"hooks":{"guard":"verif","enable":"none: static analysis reads /repo's source; no instrumentation exists","baseline_off_cmd":base["cmd"],"source_commits":[],"add_only":True},
"engines":[{"name":"arvcheck","path":"/verif/checker","serves_properties":[c["property_id"] for c in checks],"kind_free_text":"repository-specific static analyser over go/packages + go/ssa of /repo's working tree: edge-cut dominance guards, must-pass ordering, value provenance, locksets, acquire/release pairing, who-may-call, table/regex agreement"}],
"checks":checks,
"notes":"All claims are structural necessary conditions decided statically for every path (level 'other'); see DESIGN.md. Repaired defects in /repo (fix: commits): "+"; ".join(fixes)+". Known findings: /verif/known_findings.txt.",
"not_applicable":na}
json.dump(m,open('/verif/MANIFEST.json','w'),indent=1)
print("armed:",[c["property_id"] for c in checks],"na:",len(na))
