#!/bin/bash
# usage: importrefac3.sh C14 C10 ... — copies round-3 refactoring diffs from /tmp/refac3-<id>-out into /verif/refactors/<id>/refactor{9..12}.diff (+meta3.json)
for i in "$@"; do
  out=/tmp/refac3-$i-out
  [ -f $out/meta.json ] || { echo "$i: no meta.json yet"; continue; }
  for n in 1 2 3 4; do
    [ -f $out/refactor$n.diff ] && cp $out/refactor$n.diff /verif/refactors/$i/refactor$((n+8)).diff
  done
  sed 's/"refactor\([1-4]\)\.diff"/"refactor_r3_\1.diff"/g' $out/meta.json | sed 's/refactor_r3_1/refactor9/; s/refactor_r3_2/refactor10/; s/refactor_r3_3/refactor11/; s/refactor_r3_4/refactor12/' > /verif/refactors/$i/meta3.json
  git -C /repo worktree remove --force /tmp/f3-$i-wt 2>/dev/null
  echo "$i imported: $(ls /verif/refactors/$i | grep -c 'refactor\(9\|1[0-2]\)\.diff') diffs"
done
