#!/usr/bin/env python3
# usage: mkseedprompts.py <round>  — creates a scratch worktree per property under /tmp and writes the sub-agent prompt
# (property text only + workspace instructions + one-line summaries of earlier changes to avoid) to /tmp/prompts/.
import json,glob,os,subprocess,sys
R=int(sys.argv[1]); ONLY=sys.argv[2:]
os.chdir('/verif')
os.makedirs('/tmp/prompts',exist_ok=True)
props={}
for l in open('properties.jsonl'):
    p=json.loads(l); props[p['id']]=p
TEMPLATE=open('/verif/tools/seedprompt.tmpl').read()
for pid,p in props.items():
    if ONLY and pid not in ONLY: continue
    wt=f'/tmp/s{R}-{pid}-wt'; out=f'/tmp/seed{R}-{pid}-out'
    if not os.path.exists(wt):
        subprocess.run(['git','-C','/repo','worktree','add','-q','--detach',wt,'HEAD'],check=True)
    os.makedirs(out+'/demo',exist_ok=True)
    earlier=[]
    for d in sorted(glob.glob(f'seeded/{pid}*')):
        fp=os.path.join(d,'meta.agent.json')
        if os.path.exists(fp):
            m=json.load(open(fp)); s=m.get('summary','')
            earlier.append('- '+s[:420].replace('\n',' ')+('…' if len(s)>420 else ''))
    prop_txt=json.dumps({k:p[k] for k in ('id','title','statement','quantifier','anchors')},indent=1)
    pam=''
    if pid in ('C18','C19','C20'):
        pam=('- Packages under lib/controller import a PAM cgo binding whose C headers are missing here. To build/test them use an overlay that replaces '
             'lib/controller/localdb/login_pam.go with the pure-Go stub at /tmp/pamstub/login_pam_stub.go: write '+out+'/overlay.json = '
             '{"Replace":{"'+wt+'/lib/controller/localdb/login_pam.go":"/tmp/pamstub/login_pam_stub.go"}} and pass `-overlay '+out+'/overlay.json` to go build / go test; '
             'also copy the stub to '+out+'/login_pam_stub.go and mention "overlay" in meta.json\'s demo_cmd.')
    prompt=(TEMPLATE.replace('@PROP@',prop_txt).replace('@WT@',wt).replace('@OUT@',out).replace('@PAM@',pam)
            .replace('@EARLIER@','\n'.join(earlier)).replace('@R@',str(R)).replace('@PID@',pid))
    open(f'/tmp/prompts/seed{R}-{pid}.txt','w').write(prompt)
print(len(props),'prompts written')
