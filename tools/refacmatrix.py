#!/usr/bin/env python3
# False-alarm experiment: every behaviour-preserving refactoring in /verif/refactors/<prop>/refactorN.diff is applied in
# a scratch worktree of /repo HEAD and ALL armed properties' quick checks are run against it. Any FAIL/UNDECIDED/VIOLATION
# is a false alarm to triage. Writes refactors/matrix.json.
import json,os,subprocess,sys,glob,re,tempfile,shutil
from concurrent.futures import ThreadPoolExecutor
ARV=os.environ.get('ARVCHECK','/verif/bin/arvcheck')
pats={}
for l in subprocess.run([ARV,'-patterns'],capture_output=True,text=True).stdout.splitlines():
    f=l.split(); pats[f[0]]=[p.lstrip('./').rstrip('.').rstrip('/') for p in f[1:]]
props=sorted(pats)
only=sys.argv[1:]
ALL=os.environ.get('ALL')=='1'
def relevant(diff):
    # properties whose quick tier loads (as a root) a package touched by the diff; ALL=1 runs every property
    dirs=set(os.path.dirname(m) for m in re.findall(r'^diff --git a/(\S+)',open(diff).read(),re.M))
    if ALL: return props
    if os.environ.get('OWN')=='1': return [diff.split('/')[-2]]
    out=[]
    for p,ps in pats.items():
        if any(d==q or d.startswith(q+'/') for d in dirs for q in ps): out.append(p)
    own=diff.split('/')[-2]
    if own not in out: out.append(own)
    return sorted(out)
def one(diff):
    name=diff.replace('/verif/refactors/','')
    wt=tempfile.mkdtemp(prefix='refacwt-',dir='/tmp'); os.rmdir(wt)
    ev=tempfile.mkdtemp(prefix='refacev-',dir='/tmp')
    shutil.copy('/verif/known_findings.txt',ev)
    subprocess.run(['git','-C','/repo','worktree','add','-q','--detach',wt,'HEAD'],capture_output=True)
    res={}
    try:
        a=subprocess.run(['git','-C',wt,'apply',diff],capture_output=True,text=True)
        if a.returncode!=0:
            return name,{'error':'patch does not apply: '+a.stderr[:200]}
        for p in relevant(diff):
            out=subprocess.run([ARV,'-prop',p,'-repo',wt,'-verif',ev],capture_output=True,text=True).stdout
            bad=[l.replace(wt+'/','')[:300] for l in out.splitlines() if l.startswith(('FAIL','UNDECIDED','VIOLATION','load failed','checker panic'))]
            if bad: res[p]=bad
    finally:
        subprocess.run(['git','-C','/repo','worktree','remove','--force',wt],capture_output=True)
        shutil.rmtree(ev,ignore_errors=True)
    print(name,'ALARM '+' '.join(res) if res else 'quiet',flush=True)
    return name,{'checked':relevant(diff),'alarms':res}
diffs=sorted(glob.glob('/verif/refactors/*/refactor*.diff'))
if only: diffs=[d for d in diffs if any(o in d for o in only)]
with ThreadPoolExecutor(int(os.environ.get('JOBS','5'))) as ex:
    results=dict(ex.map(one,diffs))
mp='/verif/refactors/matrix.json'
old=json.load(open(mp)) if os.path.exists(mp) and only else {}
old.update(results)
json.dump(dict(sorted(old.items())),open(mp,'w'),indent=1)
print(sum(1 for v in old.values() if v.get('alarms') or v.get('error')),'of',len(old),'refactorings raise an alarm;',sum(len(v.get('checked',[])) for v in old.values()),'(refactoring, property) pairs checked')
