#!/bin/bash
# usage: round2.sh C01 C04 ...  — confirm round-2 seeds and run the property's check against each
R=$1; shift; for i in "$@"; do
  out=/tmp/seed$R-$i-out
  [ -f $out/meta.json ] || { echo "$i: no deliverable yet"; continue; }
  if [ ! -d /verif/seeded/$i-r$R ]; then
    ls $out/*stub*.go >/dev/null 2>&1 || { f=$(find $out -name '*stub*.go' | head -1); [ -n "$f" ] && cp $f $out/login_pam_stub.go; }
    /verif/tools/confirmseed.sh $i $out $i-r$R 2>&1 | grep -E "^(RESULT|CONFIRMED)"
  fi
  echo "--- check $i against seed2:"
  /verif/tools/tryseed.sh $out/patch.diff $i 2>&1 | head -4
done
