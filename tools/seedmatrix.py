#!/usr/bin/env python3
# Runs every seeded change against the check of its property (in a scratch worktree) and writes seeded/<name>/meta.json.
import json,os,subprocess,sys,glob,re
from concurrent.futures import ThreadPoolExecutor
out={}
def one(d):
    name=os.path.basename(d.rstrip('/'))
    agent=json.load(open(d+'meta.agent.json')) if os.path.exists(d+'meta.agent.json') else {}
    prop=agent.get('property') or name[:3]
    pre=None
    for rf in ('round2','round3','round4','round5','round6','round7'):
        if name.endswith('-r'+rf[-1]):
            pre=json.load(open('/verif/seeded/%s_pre_tailoring.json'%rf)).get(name)
    res=subprocess.run(['/verif/tools/tryseed.sh',d+'patch.diff',prop],capture_output=True,text=True).stdout
    fails=[l for l in res.splitlines() if l.startswith('FAIL') or l.startswith('UNDECIDED')]
    rules=sorted(set(re.findall(r'(C\d\d-R\d+)',' '.join(fails))))
    detected=('VIOLATION' in res)
    meta={"property":prop,
      "summary":agent.get("summary"),
      "needs_to_manifest":agent.get("needs_to_manifest"),
      "files_changed":agent.get("files_changed"),
      "demo_place_at":agent.get("demo_place_at"),
      "demo_cmd":agent.get("demo_cmd"),
      "origin":"written by an independent sub-agent that saw only the property text and a scratch worktree (nothing from /verif)",
      "confirmed_by_me":"tools/confirmseed.sh: demo passes on the clean tree, fails with the patch; patched tree builds; baseline tests of the touched/dependent packages still pass",
      "check_run":f"tools/tryseed.sh seeded/{name}/patch.diff {prop}  (applies the patch in a scratch worktree of /repo HEAD, runs /verif/bin/arvcheck -prop {prop} -repo <worktree>, removes the worktree)",
      "detected":detected,
      "detected_by_rules":rules,
      "first_report":fails[0] if fails else None}
    if pre is not None:
        meta["detected_before_any_rule_was_added_for_it"]=pre
    elif os.path.exists(d+'meta.json'):
        old=json.load(open(d+'meta.json'))
        if "rule_added_after_seeing_this_seed" in old: meta["rule_added_after_seeing_this_seed"]=old["rule_added_after_seeing_this_seed"]
    json.dump(meta,open(d+'meta.json','w'),indent=1)
    out[name]=(detected,rules)
    print(name,detected,rules,flush=True)
with ThreadPoolExecutor(int(os.environ.get('SEED_JOBS','5'))) as ex:
    list(ex.map(one,sorted(glob.glob('/verif/seeded/*/'))))
json.dump({k:{"detected":v[0],"rules":v[1]} for k,v in sorted(out.items())},open('/verif/seeded/matrix.json','w'),indent=1)
