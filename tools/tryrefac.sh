#!/bin/bash
# usage: tryrefac.sh <prop> <outdir>  — run the property's quick check against every behaviour-preserving refactoring
# diff in <outdir>; any FAIL/UNDECIDED/VIOLATION line is a false alarm to triage.
p=$1; out=$2
for d in $out/refactor*.diff; do
  [ -f "$d" ] || continue
  echo "=== $p $(basename $d)"
  /verif/tools/tryseed.sh $d $p 2>&1 | grep -E "^(FAIL|UNDECIDED|VIOLATION|PASS|load|checker|patch)" | cut -c1-400
done
