#!/bin/bash
# usage: tryseed.sh <patch.diff> <prop>...   — applies the patch in a scratch worktree and runs the checks against it
set -u
patch=$1; shift
wt=/tmp/tryseed-$$
git -C /repo worktree add -q --detach $wt HEAD 2>/dev/null
git -C $wt apply "$patch" || { echo "patch does not apply"; git -C /repo worktree remove --force $wt; exit 3; }
mkdir -p /tmp/tryseed-ev-$$; cp /verif/known_findings.txt /tmp/tryseed-ev-$$/ 2>/dev/null
for p in "$@"; do
  ${ARVCHECK:-/verif/bin/arvcheck} -prop $p -repo $wt -verif /tmp/tryseed-ev-$$ 2>&1 | grep -E "^(FAIL|UNDECIDED|VIOLATION|PASS|KNOWN|load|checker|INLINE)" | sed "s#$wt/##g"
done

git -C /repo worktree remove --force $wt; rm -rf /tmp/tryseed-ev-$$
